"""C11 - The router after any edit history equals a freshly built router."""
import itertools

from harness import core
from harness.core import Check, Finding
from harness import router_gen as G
from harness import router_edit_gen as E

TOKEN = G.TOKEN


def prefix_len(pat, filters, path):
    """how much of `path` the pattern prefix `pat` consumes when matched left to right (the plain
    rule-by-rule walk of C01, not required to use the path up); None = does not match"""
    i = fi = 0
    for ch in pat:
        if ch != TOKEN:
            if i < len(path) and path[i] == ch:
                i += 1
            else:
                return None
        else:
            f = filters[fi]
            fi += 1
            if i >= len(path):
                return None
            if f is None:
                j = path.find('/', i)
                i = len(path) if j < 0 else j
            else:
                v, n, sel = f(path[i:])
                if v is None or sel is not None:
                    return None
                i += n
    return i


def norm_hooks(hooks, tainted_ids):
    return [(pos, getattr(p[0], 'hid', None), getattr(p[1], 'hid', None)) for pos, p in hooks
            if getattr(p[0], 'hid', None) not in tainted_ids and getattr(p[1], 'hid', None) not in tainted_ids]


class C11(Check):
    pid = 'C11'
    props_mod = 'OmbottModel.Props.C11'
    tables = ['router']
    design_ref = '6/C11'
    anchors = ['ombott/router/radidict.py', 'ombott/router/radirouter.py', 'ombott/ombott.py']
    level_text = ('Lean theorems over the model of RadiDict.remove/_try_merge/add_hooks, RadiRouter.add/remove/add_hook/'
                  'remove_hook/__getitem__ and the hook invocation of Ombott.handler: removal (exact, prefix*, hooks '
                  'only, with pruning and merging) keeps the tree well formed and erases exactly its zone of routes / '
                  'hook pairs (remove_wf, remove_denote), add_hooks adds exactly the pair (addHooks_denote); after every '
                  'edit history the tree holds exactly the routes index, no name outlives its route, tree hooks = hooks '
                  'index outside removed prefixes (router_refines_maps), and the calls act on the three index maps as '
                  'the finite-map spec (edits_on_maps); registering the survivors of any edit history one call at a '
                  'time on an empty router is always accepted and reproduces the routes map, the names map and the '
                  'hooks map outside removed prefixes (fresh_same_maps, fresh_same_survivors), so the edited router '
                  'answers every path, name and rule lookup as the router freshly built from its survivors, with no '
                  'hypothesis about the survivors left (history_eq_fresh_built; history_eq_fresh for any two histories '
                  'leaving the same maps), and the hooks delivered are exactly the pairs at the prefixes of '
                  'the matched pattern, outermost first, with the matched prefix length (hooks_fire_exactly). Model tied '
                  'to the code by differential runs of whole edit histories (random + exhaustive small scope with state '
                  'merging). Enumeration and key forms (Model/RouterListing.lean): the explicit-stack loop of '
                  'RadiDict._routes_iter yields exactly the routes of the tree, children first, each once '
                  '(routes_iter_eq_denote, routes_iter_yield_hooks); after every edit history the enumeration, the '
                  'routes index and the name index list the same routes (routes_iter_after_history); every key form of '
                  'RadiRouter.__getitem__ / RouteKey is one of three lookups or is refused with the exception of the '
                  'code (getitem_forms_agree) and returns the route resolve dispatches on '
                  '(getitem_returns_resolved_route); _render_route output parses back on the plain-wildcard domain '
                  '(render_route_roundtrip); params_unpack undoes params_signature; the Ombott wrappers add nothing '
                  '(ombott_wrappers). By correspondence only: the 404 payload, rex selectors, str/repr and '
                  'error-message texts, _routes_iter(startswith=...).')
    level_note_extra = ('hooks at or below a removed prefix* are unspecified by the property and excluded; '
                        'the rebuild-from-survivors step is proved (fresh_same_maps: the former hypothesis '
                        'SameSurvivors of history_eq_fresh_built is discharged for every history in the domain)')
    rule = ('edit histories (up to 40 of add / overwrite / rejected add / remove(rule) / remove(name) / '
            'remove(prefix*) / add_hook simple+partial / remove_hook) over rule universes with shared and split '
            'literal prefixes, wildcard siblings, filter clashes and hook-only prefixes, probed at random points '
            'and at the end: paths through RadiRouter.resolve and Ombott.__call__ (hooks that ran, order, '
            'argument), every name, the rules used, get_hook, the three indexes; in 60% of the histories also '
            'Ombott.remove_route in its three argument forms and the listing probes: _routes_iter (with '
            'startswith / yield_hooks), list(app.routes), repr/str of routes and methods, router[key] for every '
            'key form (name, {rule}, dict forms, RouteKey variants, malformed keys), the RadiDictKeyError and '
            'RouteMethodError texts, _render_route, params_unpack; non-trivial = the history '
            'removes something that existed and a later probe hits a route')
    assumptions = ['rule text contains no CR (the router\'s wildcard marker) and no repeated wildcard name (as C01)',
                   'a registered rule / hook rule does not end with `*` (the removal API\'s own prefix marker)',
                   'hooks at or below a removed `prefix*` are unspecified (the property specifies routes only)',
                   'rex selectors (which rewrite the path and with it hook positions) are covered by '
                   'correspondence only, not by the fresh-router oracle',
                   're matching of the filter masks is taken from the running interpreter',
                   'theorems: no filter answers with a rex selector (NoSel); history_eq_fresh_built (edited router = '
                   'router freshly built from its survivors) has only the domain hypotheses: the equality of the '
                   'survivor maps is discharged by fresh_same_maps; the two-history form history_eq_fresh still takes '
                   '"both histories leave the same three maps" as its hypothesis (that is its statement)']

    def __init__(self):
        self.stats = {}

    def budget(self, tier, escalated):
        n = 320 if tier == 'quick' else 6000
        return n * (2 if escalated and tier == 'quick' else 1)

    def nontrivial(self, sample):
        return bool(sample.get('nontrivial'))

    def _bump(self, k, n=1):
        self.stats[k] = self.stats.get(k, 0) + n

    # ------------------------------------------------------------------
    def _case(self, ops, extra=None):
        """play `ops`; returns the correspondence triple or None (skipped)"""
        run = E.EditRunner().track_spec()
        try:
            E.play(run, ops)
        except core.Hang:
            self._bump('hang-skipped')
            return None
        if run.env_overflow:
            self._bump('env-overflow-skipped')
            return None
        removed = False
        nontriv = False
        for op, ans in zip(run.ops, run.answers):
            k = op.split('|')[0]
            if k in E.EditRunner.LISTING_OPS and k != 'WX':
                kind = ans.split(':')[0] if ans.split(':')[0] in ('err', 'route') else (ans if ans in ('none', 'noroute', '~') else 'text')
                self._bump(k + ':' + kind)
            else:
                self._bump(k + ':' + ans.split(':')[0].split('=')[0])
            if ans.startswith('err:'):
                self._bump(k + '-' + ans)
            if k in ('X', 'XN', 'XH', 'WX') and ans == 'ok':
                removed = True
            if removed and (ans.startswith('hit:') or ans.startswith('ran:')):
                nontriv = True
            if k == 'V' and ans.startswith('ran:') and not ans.endswith(':-'):
                self._bump('V:hooks-fired')
            if k == 'V' and ans.startswith('status:'):
                self._bump('V:other-status')
            if k == 'LI':
                self._bump('LI:entries', 0 if ans == '~' else ans.count(';') + 1)
            if k == 'LK':
                self._bump('LK-form:' + op.split('|')[1][:1])
        self._bump('ops', len(run.ops))
        self._bump('histories')
        sample = dict(ops=ops, nontrivial=nontriv)
        if extra:
            sample.update(extra)
        return (run.line(), run.answer(), sample)

    def corr(self, rng, n):
        out = []
        for _ in range(n):
            ops, U = E.gen_history(rng)
            self._bump('universe-' + U.kind)
            c = self._case(ops)
            if c:
                out.append(c)
        out += self.exhaustive(6 if n >= 2000 else 4)
        return out

    # ------------------------------------------------------------------
    # exhaustive small scope with state merging

    SMALL_OPS = [
        ['A', '/a', ['GET'], None, False], ['A', '/ab', ['GET'], 'n1', False], ['A', '/abc', ['GET'], 'n2', False],
        ['A', '/a/<x>', ['GET'], 'n1', False], ['A', '/ab/<y>', ['POST'], None, True], ['A', '/a/<x>/d', ['GET'], None, False],
        ['A', '/ab', ['POST'], 'n2', False],
        ['X', '/a'], ['X', '/ab'], ['X', '/abc'], ['X', '/a/<x>'], ['X', '/a*'], ['X', '/ab*'], ['X', '/abc*'],
        ['XN', 'n1'], ['XN', 'n2'],
        ['H', '/a', False], ['H', '/ab', False], ['H', '/a/', True], ['H', '/a/b', False], ['XH', '/a'], ['XH', '/ab'],
    ]
    SMALL_PROBES = ([['FS', ['a', 'ab', 'abc', 'a/q', 'ab/q', 'a/b/d', 'a/b', 'a/q/d'], ['GET', 'ANY']]] +
                    [['V', 'GET', p] for p in ['/a', '/ab', '/abc', '/a/q', '/ab/q', '/abx', '/a/', '/a/b/d', '/a/b']]
                    + [['P', 'ab', ['POST', 'ANY']], ['P', 'a/b/d', ['GET']], ['L'], ['I', 'n1'], ['I', 'n2'], ['IR', '/a'],
                       ['IR', '/ab'], ['IR', '/a/<z>'], ['K', '/a'], ['K', '/ab'], ['K', '/a/b']]
                    + [['LI', '', True], ['LI', 'a', False], ['LR'], ['LK', ['s', ['/ab']]],
                       ['LK', ['d', [['pattern', 'a/\r']]]], ['LK', ['k', None, 'abc']]])

    def _dump(self, run, ops):
        """canonical state of the real router; handler / hook identities are named by the op
        that introduced them so that histories reaching the same state merge"""
        def ident(i):
            return repr(ops[i]) if i is not None else None

        def node(n):
            from ombott.router.radidict import KEY, PARAMS, FILTER, HOOKS, DATA, OFFSET
            d = n[DATA]
            return (n[KEY], None if d is None else (d.pattern, tuple(sorted((m, ident(run._hid_of(rm.handler)))
                                                                          for m, rm in d.methods.items()))),
                    tuple(n[PARAMS]), None if n[HOOKS] is None else tuple(ident(getattr(h, 'hid', None)) for h in n[HOOKS]),
                    tuple(node(c) for c in n[OFFSET:]))
        r = run.router
        return repr((node(r.radidict.root), sorted(r.routes), sorted((k, v.pattern, id(v) == id(r.routes.get(v.pattern)))
                                                                     for k, v in r.named_routes.items()),
                     sorted((k, tuple(ident(getattr(h, 'hid', None)) for h in v)) for k, v in r.hooks.items())))

    def exhaustive(self, depth):
        """all histories over SMALL_OPS up to `depth`, one representative per distinct router
        state, each followed by the probe set"""
        out = []
        level = {'': []}
        seen = set()
        self.exh_hists = []
        for d in range(depth):
            if not level:
                break
            nxt = {}
            for _, hist in level.items():
                for op in self.SMALL_OPS:
                    h = hist + [op]
                    run = E.EditRunner()
                    E.play(run, h)
                    key = self._dump(run, h)
                    self._bump('exh-histories')
                    if key in seen:
                        continue
                    seen.add(key)
                    nxt[key] = h
            level = nxt
            for h in level.values():
                self.exh_hists.append(h)
                c = self._case(h + self.SMALL_PROBES, dict(exhaustive=d + 1))
                if c:
                    out.append(c)
            self._bump('exh-states-depth-%d' % (d + 1), len(level))
        return out

    # ------------------------------------------------------------------
    # the independent oracle: a router rebuilt from the survivors

    def _check_point(self, run, spec, paths, rules, hook_rule_of):
        """compare the edited router with the dict spec and with a router rebuilt from the
        survivors; returns [(key, what)]"""
        bad = []
        r = run.router
        tainted_ids = {i for i, p in run.hook_pattern.items() if p in spec.tainted}
        if sorted(r.routes) != sorted(spec.routes):
            bad.append(('routes-index', f'routes index {sorted(r.routes)!r}, survivors {sorted(spec.routes)!r}'))
        for pat, ms in spec.routes.items():
            rt = r.routes.get(pat)
            if rt is not None:
                real = {m: run._hid_of(rm.handler) for m, rm in rt.methods.items()}
                if real != {m: v[0] for m, v in ms.items()}:
                    bad.append(('survivor-methods', f'route {pat!r} has methods {real!r}, expected {ms!r}'))
        for name in sorted(set(E.NAMES) | set(spec.names)):
            rt = r[name]
            exp = spec.names.get(name)
            if exp is None and rt is not None:
                bad.append(('name-survives-its-route', f'router[{name!r}] returns route {rt.pattern!r} which was removed'))
            elif exp is not None and rt is None:
                bad.append(('name-lost', f'router[{name!r}] is None, expected the route {exp!r}'))
            elif exp is not None and (rt.pattern != exp or rt is not r.routes.get(exp)):
                bad.append(('name-wrong-route', f'router[{name!r}] is {rt.pattern!r} (stale object: '
                                                f'{rt is not r.routes.get(exp)}), expected {exp!r}'))
        bad += self._check_listing(run, spec, paths, rules)
        try:
            fresh = spec.rebuild()
        except core.Hang:
            raise
        except Exception as e:
            bad.append(('survivors-cannot-coexist', f'a fresh router refuses the survivors ({type(e).__name__}): '
                                                    f'routes {sorted(spec.routes)!r} hooks {sorted(spec.hooks)!r}'))
            return bad
        f = fresh.router
        for rule in rules:
            def look(rr, runner):
                try:
                    return runner.show_route(rr[{rule}])
                except Exception as e:
                    return 'err:' + type(e).__name__
            a, b = look(r, run), look(f, fresh)
            if a != b:
                bad.append(('by-rule', f'router[{{{rule!r}}}] gives {a}, rebuilt router {b}'))
        for path in paths:
            for methods in (['GET', 'ANY'], ['POST', 'ANY']):
                ea, eb = (core.with_timeout(lambda: x.resolve(path, methods)) for x in (r, f))

                def norm(e, runner):
                    ep, err = e
                    if ep:
                        m, kw, hooks = ep
                        return ('hit', m.route.pattern, runner._hid_of(m.handler), m.name, sorted(kw.items()),
                                norm_hooks(hooks, tainted_ids))
                    return (err[0], err[2] if err[0] == 405 else None)
                na, nb = norm(ea, run), norm(eb, fresh)
                if na[:5] != nb[:5]:
                    bad.append(('resolve', f'path {path!r} {methods}: edited router {na!r}, rebuilt {nb!r}'))
                elif na != nb:
                    bad.append(('resolve-hooks', f'path {path!r}: hooks delivered {na[5]!r}, rebuilt router {nb[5]!r}'))
            # through WSGI: which hooks ran, in which order, with which argument
            sa = run.serve_raw('GET', '/' + path)
            sb = fresh.serve_raw('GET', '/' + path)
            ep, err = r.resolve(path, ['GET', 'ANY'])
            collected = ep[2] if ep else (err[2]['hooks'] if err[0] == 404 else [])
            touched = any(getattr(h, 'hid', None) in tainted_ids for _, p in collected for h in p)
            if touched:
                continue
            if spec.tainted and not (sa[2] and sb[2]) and 405 not in (sa[0], sb[0]):
                # a wildcard node kept alive by an unspecified hook changes the walk that ends in
                # a 404 (values bound on the way, backtracking past a 404 hook): which 404 hook
                # answers, and with what, is compared only when no such hook can be around
                self._bump('oracle-404-skipped-unspecified-hooks')
                continue
            if sa != sb:
                bad.append(('wsgi', f'GET /{path}: edited app {sa!r}, rebuilt app {sb!r}'))
            # the property's own description of which hooks fire
            if ep:
                pat = ep[0].route.pattern
                p = path.strip('/')
                exp = []
                for q, (hrule, s, _) in sorted(spec.hooks.items(), key=lambda kv: len(kv[0])):
                    if s is None or not pat.startswith(q):
                        continue
                    n = prefix_len(q, spec.parse(hrule)[1], p)
                    if n is None:
                        exp = None
                        break
                    exp.append(('s', s, '/' + p[:n]))
                if exp is not None and [h[:3] for h in sa[3]] != exp:
                    bad.append(('hooks-fired', f'GET /{path} matched {pat!r}: hooks ran {sa[3]!r}, expected {exp!r}'))
                if exp is not None and sb[2] and [h[:3] for h in sb[3]] != exp:
                    bad.append(('hooks-fired-fresh', f'GET /{path} matched {pat!r} on the rebuilt router: hooks ran '
                                                     f'{sb[3]!r}, expected {exp!r}'))
        return bad

    def _check_listing(self, run, spec, paths, rules=()):
        """enumeration and key forms against the dict spec (nothing of the model is used): the
        enumerated patterns are the survivors, each exactly once, with the survivor's own Route
        object; `startswith` selects by pattern prefix; `yield_hooks` adds exactly the hook-only
        survivors; every key form returns the Route object `resolve` dispatches on; malformed keys
        are refused with TypeError as the docstring of `__getitem__` says"""
        from ombott.router.radirouter import RouteKey
        from ombott.router.radidict import DATA, HOOKS
        bad = []
        r = run.router
        rd = r.radidict
        # a rotating third of the prefixes / paths / rules per call (the oracle runs after every edit)
        self._lc = getattr(self, '_lc', 0) + 1
        rot = self._lc % 3
        paths = list(paths)[rot::3]
        rules = list(rules)[rot::3]

        def listed(**kw):
            return [(run.observe_path(p), p) for p in core.with_timeout(lambda: list(rd._routes_iter(**kw)))]
        full = listed()
        pats = [o[0] for o, _ in full]
        if sorted(pats) != sorted(spec.routes):
            bad.append(('listing', f'_routes_iter() lists {pats!r}, survivors {sorted(spec.routes)!r}'))
        for (pat, flt, keys, data, hooks), _ in full:
            rt = r.routes.get(pat)
            if data is None or data is not rt:
                bad.append(('listing-object', f'_routes_iter() yields {pat!r} with data '
                                              f'{getattr(data, "rule", data)!r}, the routes index holds '
                                              f'{getattr(rt, "rule", rt)!r}'))
            elif [f for f in flt] != list(rt.filters) or keys != list(rt.params):
                bad.append(('listing-params', f'_routes_iter() yields {pat!r} with params {keys!r} / filters that '
                                              f'differ from the route\'s {rt.params!r}'))
        both = listed(yield_hooks=True)
        hook_only = [o[0] for o, _ in both if o[3] is None]
        with_data = [o[0] for o, _ in both if o[3] is not None]
        if with_data != pats:
            bad.append(('listing-yield-hooks', f'routes listed with yield_hooks {with_data!r}, without {pats!r}'))
        exp_hooks = sorted(q for q in spec.hooks if q not in spec.routes)
        got_hooks = sorted(q for q in hook_only if q not in spec.tainted)
        if got_hooks != exp_hooks:
            bad.append(('listing-hooks', f'hook-only nodes listed {got_hooks!r}, surviving hook-only patterns {exp_hooks!r}'))
        seen = set()
        cands = []
        for pat in pats[:4] + ['a', 'zz']:
            for cut in sorted({0, len(pat) // 2, len(pat)}):
                cands += [pat[:cut], pat[:cut] + 'q', pat[:max(cut - 1, 0)] + 'q' + pat[cut:cut + 1]]
        for sw in cands[rot::3]:
            if True:
                if not sw or sw in seen:
                    continue
                seen.add(sw)
                sub = [o[0] for o, _ in listed(startswith=sw)]
                exp = [q for q in pats if q.startswith(sw)]
                if sub != exp:
                    bad.append(('listing-startswith', f'_routes_iter(startswith={sw!r}) lists {sub!r}, expected {exp!r}'))
        # key forms: the Route object resolve() dispatches on
        for path in paths:
            rt = core.with_timeout(lambda: r.resolve(path))
            if rt is None:
                continue
            if rt is not r.routes.get(rt.pattern):
                bad.append(('resolve-object', f'resolve({path!r}) returns a route that is not routes[{rt.pattern!r}]'))
                continue
            for what, mk in (('{rule}', lambda: {rt.rule}), ("{'rule': rule}", lambda: {'rule': rt.rule}),
                             ('RouteKey(rule)', lambda: RouteKey(rt.rule)),
                             ("{'pattern': pattern}", lambda: {'pattern': rt.pattern}),
                             ('RouteKey(pattern=pattern)', lambda: RouteKey(pattern=rt.pattern))):
                try:
                    got = r[mk()]
                except Exception as e:
                    got = type(e).__name__
                if got is not rt:
                    bad.append(('getitem-object', f'router[{what}] for the route resolve({path!r}) dispatches on '
                                                  f'({rt.rule!r}) gives {getattr(got, "rule", got)!r}'))
        # lookups by rule: the survivor registered under exactly this pattern and filters, else None
        for rule in rules:
            try:
                pat, flt = spec.parse(rule)
            except E.Outside:
                continue
            except Exception:
                continue
            if pat.startswith('/') or (spec.tainted and pat not in spec.routes):
                continue
            same = pat in spec.routes and len(flt) == len(spec.filters[pat]) and all(
                a is b for a, b in zip(flt, spec.filters[pat]))
            exp = r.routes.get(pat) if same else None
            for what, mk in (('{rule}', lambda: {rule}), ('RouteKey(rule)', lambda: RouteKey(rule))):
                try:
                    got = r[mk()]
                except Exception as e:
                    got = type(e).__name__
                if got is not exp:
                    bad.append(('getitem-by-rule', f'router[{what}] with rule {rule!r} gives '
                                                   f'{getattr(got, "rule", got)!r}, the survivors say '
                                                   f'{getattr(exp, "rule", exp)!r}'))
        for name, pat in spec.names.items():
            try:
                got = r[{'pattern': pat}]
            except Exception as e:
                got = type(e).__name__
            if r[name] is not got:
                bad.append(('getitem-name-vs-pattern', f'router[{name!r}] and router[{{"pattern": {pat!r}}}] differ'))
        some = sorted(spec.routes)[:2] + ['zz', 'zy']
        for what, mk in (('a two-item set', lambda: {'/' + some[0], '/' + some[1]}),
                         ('a two-item dict', lambda: {'rule': '/' + some[0], 'pattern': some[0]}),
                         ('RouteKey(rule, pattern=…)', lambda: RouteKey('/' + some[0], pattern=some[0])),
                         ('a tuple', lambda: ('/' + some[0],)), ('a list', lambda: ['/' + some[0]]),
                         ('a frozenset', lambda: frozenset(['/' + some[0]]))):
            try:
                got = r[mk()]
                bad.append(('getitem-malformed-accepted', f'router[{what}] is answered ({getattr(got, "rule", got)!r}) '
                                                          f'instead of raising TypeError'))
            except TypeError:
                pass
            except Exception as e:
                bad.append(('getitem-malformed-error', f'router[{what}] raises {type(e).__name__}, not TypeError'))
        return bad

    def oracle(self, ops, every=True):
        """plays the edits on the real code next to the dict spec; after every edit (or at the
        probe ops) compares with the rebuilt router.  Returns [(key, what)]"""
        run = E.EditRunner()
        spec = E.Spec()
        bad = []
        paths, rules = [], []
        for op in ops:
            if op[0] in ('P',):
                paths.append(op[1])
            elif op[0] == 'V':
                paths.append(op[2])
            elif op[0] in ('A', 'H', 'X', 'XH', 'IR', 'K') and not op[1].endswith('*'):
                rules.append(op[1])
        paths = sorted(set(p.strip('/') for p in paths))[:14]
        rules = sorted(set(rules))[:14]
        try:
            for op in ops:
                k = op[0]
                if k not in E.EDIT_KINDS:
                    continue
                idx = len(run.ops)
                E.play(run, [op])
                out = run.answers[-1]
                out = 'ok' if out.startswith('ok') else out[4:]
                if k == 'A':
                    pred = spec.add(op[1], op[2], op[3], op[4], idx, out)
                    if pred is not None and pred != out:
                        bad.append(('add-outcome', f'{op!r} answered {out}, survivors say {pred}'))
                        return bad
                elif k == 'X':
                    spec.remove_rule(op[1], out)
                elif k == 'XN':
                    pred = spec.remove_name(op[1], out)
                    if pred != out:
                        bad.append(('remove-name-outcome', f'{op!r} answered {out}, survivors say {pred}'))
                        return bad
                elif k == 'H':
                    pred = spec.predict_hook(op[1])
                    if pred is not None and pred != out and out in ('ok', 'RadiDictKeyError'):
                        bad.append(('add-hook-outcome', f'{op!r} answered {out}, survivors say {pred}'))
                        return bad
                    spec.add_hook(op[1], op[2], idx, out)
                elif k == 'XH':
                    spec.remove_hook(op[1], out)
                elif k == 'WX':
                    if op[1] is not None:
                        spec.remove_rule(op[1], out)
                    elif op[2] is not None:
                        pred = spec.remove_name(op[2], out)
                        if pred != out:
                            bad.append(('remove-name-outcome', f'{op!r} answered {out}, survivors say {pred}'))
                            return bad
                    elif op[3] is not None:
                        spec.remove_pattern(op[3], out)
                if every:
                    bad += self._check_point(run, spec, paths, rules, None)
                    if bad:
                        return bad
            if not every:
                bad += self._check_point(run, spec, paths, rules, None)
        except E.Outside:
            self._bump('oracle-outside-domain')
        return bad

    def search(self, rng, n, seeds):
        findings, evals = [], 0
        cases = [s['ops'] for s in seeds if 'ops' in s]
        # the two historical defects (#12, #13 of DESIGN section 7), always
        cases.append([['A', '/a/b', ['GET'], None, False], ['H', '/a', False], ['XH', '/a'], ['V', 'GET', '/a/b']])
        cases.append([['A', '/a/b', ['GET'], None, False], ['A', '/a/b/c', ['GET'], None, False], ['H', '/a/b', False],
                      ['X', '/a/b'], ['V', 'GET', '/a/b/c']])
        # a hook-only prefix at a branch point with two children, one of which goes (by rule / name / prefix*)
        for rm in (['X', '/ab/c'], ['XN', 'n3'], ['X', '/ab/c*']):
            cases.append([['A', '/ab/c', ['GET'], 'n3', False], ['A', '/ab/<y>', ['GET'], None, False], ['H', '/ab/', False],
                          rm, ['V', 'GET', '/ab/q'], ['K', '/ab/'], ['P', 'ab/q', ['GET']]])
        # a hooked literal child that dead-ends next to a wildcard sibling: its hook must not fire
        cases.append([['A', '/docs/intro/x', ['GET'], None, False], ['A', '/docs/<page>/view', ['GET'], None, False],
                      ['H', '/docs/intro', False], ['H', '/docs', False], ['V', 'GET', '/docs/intro/view'],
                      ['P', 'docs/intro/view', ['GET']]])
        # a second name for a route, then removal by the first (fixed by 10700d6)
        cases.append([['A', '/a', ['GET'], 'n1', False], ['A', '/a', ['POST'], 'n2', False], ['XN', 'n1'], ['I', 'n2']])
        for _ in range(n):
            cases.append(E.gen_history(rng, max_edits=25)[0])
        # every state of the exhaustive small scope (one history each), checked at its end
        if not getattr(self, 'exh_hists', None):
            self.exhaustive(5 if n >= 2000 else 4)
        small = [h + self.SMALL_PROBES for h in self.exh_hists if len(h) <= 5]
        self._bump('search-exhaustive-states', len(small))
        per_key = {}
        for ops in small + cases:
            evals += 1
            try:
                bad = self.oracle(ops, every=len(ops) > 0 and ops[-1] is not self.SMALL_PROBES[-1])
            except core.Hang:
                bad = [('hang', 'an edit or lookup did not return within the watchdog')]
            except E.Outside:
                bad = []
            except Exception as e:
                bad = [('exception', f'{type(e).__name__}: {e}')]
            for key, what in bad:
                per_key[key] = per_key.get(key, 0) + 1
                if per_key[key] > 1:
                    continue                     # one replay per failing site is enough
                small = self._shrink(ops, key)
                what2 = [w for k, w in self._safe_oracle(small) if k == key]
                findings.append(Finding(f'C11:{key}', what2[0] if what2 else what, dict(ops=small)))
            if len(per_key) >= 6 or (per_key and evals >= max(250, n // 4)):
                break                            # the job of the search is to produce a replay
        for key, cnt in per_key.items():
            self._bump('finding-' + key, cnt)
        return evals, findings

    def _safe_oracle(self, ops):
        try:
            return self.oracle(ops)
        except Exception:
            return []

    def _shrink(self, ops, key):
        """drop ops while the same finding class stays (greedy, bounded)"""
        edits = [op for op in ops if op[0] in E.EDIT_KINDS]
        probes = [op for op in ops if op[0] not in E.EDIT_KINDS]
        cur = edits
        budget = 80

        def fails(cand):
            return any(k == key for k, _ in self._safe_oracle(cand + probes))
        i = 0
        while i < len(cur) and budget > 0:
            cand = cur[:i] + cur[i + 1:]
            budget -= 1
            if fails(cand):
                cur = cand
            else:
                i += 1
        return cur + probes

    def replay(self, data):
        ops = data['input']['ops']
        run = E.EditRunner()
        E.play(run, ops)
        return dict(ops=ops, implementation=list(zip(run.ops, run.answers)) if len(run.ops) < 60 else run.answers,
                    oracle=self.oracle(ops))
