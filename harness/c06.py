"""C06 - multipart parsing is independent of how the body is split into reads."""
import io
import itertools

from harness import core
from harness.core import hb, hbl, Check, Finding, SchedStream

CRLF = b'\r\n'


# --------------------------------------------------------------------------------------
# bodies from part lists (mirror of Spec.encodeBody)

def delim(boundary):
    return CRLF + b'--' + boundary


def encode(boundary, parts, epilogue):
    out = [b'--', boundary]
    for lines, data in parts:
        out += [CRLF, b''.join(l + CRLF for l in lines), CRLF, data, delim(boundary)]
    out += [b'--', epilogue]
    return b''.join(out)


def zones(boundary, parts, epilogue):
    """[(start, end, name)] of the grammar zones of encode(...)"""
    z, pos = [], 0

    def add(n, name):
        nonlocal pos
        if n:
            z.append((pos, pos + n, name))
        pos += n
    add(2 + len(boundary), 'first-boundary')
    for lines, data in parts:
        add(2, 'delimiter-line-crlf')
        hl = sum(len(l) + 2 for l in lines)
        add(hl - 2, 'headers')
        add(4, 'headers-end')
        add(len(data), 'data')
        add(len(delim(boundary)), 'delimiter')
    add(2, 'closing-hyphens')
    add(len(epilogue), 'epilogue')
    return z


def zone_of_cut(zs, c):
    for s, e, name in zs:
        if s < c < e:
            return name
    before = [name for s, e, name in zs if e == c]
    after = [name for s, e, name in zs if s == c]
    return 'between:%s/%s' % (before[0] if before else 'start', after[0] if after else 'end')


BOUNDARY_POOL = [b'-', b'--', b'b', b'---', b'-b', b'b-', b'--b', b'bnd', b'b--', b'ab', b'aXb-']


def gen_boundary(rng, wsgi_safe=False):
    k = rng.random()
    if k < .45:
        return rng.choice(BOUNDARY_POOL)
    n = rng.choice([1, 2, 3, 4, 5, 8, 13, 27, 39, 40]) if k < .9 else rng.randint(1, 40)
    alpha = b'-abAB01' if wsgi_safe or rng.random() < .8 else b'-ab\n:= "'
    return bytes(rng.choice(alpha) for _ in range(n))


def gen_data(rng, boundary, maxlen=24):
    t = delim(boundary)
    atoms = [b'\r', b'\n', b'-', b'x', CRLF, b'--', boundary[:1], b'\r\n--', b'\r\n-']
    atoms += [t[:rng.randint(1, len(t) - 1)] for _ in range(3)]
    atoms += [t[:-1], t[1:], boundary]
    n = rng.choice([0, 0, 1, 2, 3, 5, 8, 13, maxlen])
    d = b''
    while len(d) < n:
        d += rng.choice(atoms)
    d = d[:max(n, 0)] if rng.random() < .5 else d
    while t in d:
        d = d.replace(t, t[:-1] + b'x')
    return d


HEADER_LINES = [b'X: y', b'Content-Disposition: form-data; name="a"', b'A:b', b'--', b'-', b'x', b'Content-Type: text/plain',
                b'Content-Disposition: form-data; name="f"; filename="f.txt"']


def gen_lines(rng, boundary):
    n = rng.choice([1, 1, 1, 2, 2, 3])
    lines = []
    for _ in range(n):
        k = rng.random()
        if k < .6:
            lines.append(rng.choice(HEADER_LINES))
        elif k < .8:
            lines.append(b'--' + boundary + rng.choice([b'', b'--', b': v']))
        else:
            lines.append(bytes(rng.choice(b'-ab: x') for _ in range(rng.randint(1, 6))))
    return lines


def gen_body(rng, small=False, wsgi_safe=False):
    b = gen_boundary(rng, wsgi_safe)
    if small:
        b = rng.choice([b'-', b'b', b'--', b'-b', b'ab'])
    np_ = rng.choice([0, 1, 1, 2]) if small else rng.choice([0, 1, 1, 2, 2, 3, 4])
    parts = []
    for _ in range(np_):
        lines = [rng.choice([b'X: y', b'A:b', b'--', b'x'])] if small else gen_lines(rng, b)
        parts.append((lines, gen_data(rng, b, 8 if small else 24)))
    epi = rng.choice([b'', b'', CRLF, CRLF, CRLF + b'junk', b'--', b'\r', delim(b) + CRLF, b'x' * 7])
    return b, parts, epi


MUT_ALPHA = b'\r\n-xb'


def mutate(rng, boundary, body):
    """malformed stream: grammar mutations of a well-formed body"""
    body = bytearray(body)
    for _ in range(rng.choice([1, 1, 2, 3])):
        k = rng.randrange(7)
        i = rng.randrange(len(body) + 1)
        if k == 0 and body:
            del body[min(i, len(body) - 1)]
        elif k == 1:
            body[i:i] = bytes([rng.choice(MUT_ALPHA)])
        elif k == 2 and body:
            body[min(i, len(body) - 1)] = rng.choice(MUT_ALPHA)
        elif k == 3:
            body[i:i] = delim(boundary) + rng.choice([b'', CRLF, b'--', b'\r', b'-', b'x', b'xy', b'\rx'])
        elif k == 4:
            j = bytes(body).find(CRLF)
            if j >= 0:
                body[j:j + 2] = rng.choice([b'\n', b'\r', b'\r\r\n', b'\r\n\n'])
        elif k == 5:
            body[0:0] = rng.choice([b'\r\n', b'\r', b'pre\r\n', b'\rx', b'-', b'x'])
        else:
            body[i:i] = rng.choice([b'\r\n\r', b'\r\n\n', b'\r\n\r\n', b'\r\r', b'\n\n'])
    return bytes(body)


def cut(body, cuts):
    out, last = [], 0
    for c in cuts:
        c = max(c, last)
        out.append(body[last:c])
        last = c
    out.append(body[last:])
    return out


def stride_cuts(n, k):
    return list(range(k, n, k)) if k > 0 else []


def random_cuts(rng, n):
    k = rng.choice([1, 2, 3, 4, 6])
    return sorted(rng.randint(0, n) for _ in range(k))


# --------------------------------------------------------------------------------------
# the real code

def show(mm):
    ms = ''.join('(%s:%d:%d)' % (m[0][0], m[1][0], m[1][1]) for m in mm.markups) or '-'
    e = '-' if mm.error is None else type(mm.error).__name__
    return 'm=%s e=%s s=%d' % (ms, e, 1 if mm._markuper.stopped else 0)


def real_parse(boundary, chunks, each=False):
    from ombott.request_pkg.multipart import MultipartMarkup
    try:
        mm = MultipartMarkup(boundary)
    except Exception as e:
        return 'init-error ' + type(e).__name__
    steps = []
    for c in chunks:
        mm.parse(c)
        if each:
            steps.append('%d:%s:%d' % (len(mm.markups), '-' if mm.error is None else type(mm.error).__name__,
                                       1 if mm._markuper.stopped else 0))
    r = show(mm)
    return 'steps=%s %s' % (','.join(steps), r) if each else r


def compress(res):
    out, prev = [], None
    for r in res:
        out.append('=' if r == prev else r)
        prev = r
    return '|'.join(out)


def cutsets_str(sets):
    return ';'.join('.'.join(map(str, s)) if s else '-' for s in sets)


class WsgiRig:
    """one Ombott() application whose handler reads forms/files and reports the markup"""

    def __init__(self):
        from ombott.ombott import Ombott
        self.app = app = Ombott(dict(max_memfile_size=1 << 20))
        self.seen = {}

        def handler():
            rq, seen = app.request, self.seen
            body = rq.body
            mk = body.ombott_markup
            seen['markup'] = show(mk) if mk is not None else 'no-markup'
            rq.setup(dict(max_memfile_size=1 << 20, errors_map=app.config.errors_map))
            forms, files = rq.forms, rq.files
            seen['forms'] = sorted((k, repr(forms[k])) for k in forms)
            seen['files'] = sorted((k, repr([(f.filename, f.file.read()) for f in
                                             (files[k] if isinstance(files[k], list) else [files[k]])])) for k in files)
            return 'ok'
        app.route('/u', method='POST', callback=handler)

    def post(self, boundary, body, buf, sched):
        """returns (status, seen dict, chunks as read)"""
        app = self.app
        self.seen = {}
        parts = []
        st = SchedStream(body, sched)

        def read(n):
            r = st.read(n)
            if r:
                parts.append(r)
            return r
        st_read = type('R', (), {'read': staticmethod(read)})()
        env = {'REQUEST_METHOD': 'POST', 'PATH_INFO': '/u', 'SERVER_NAME': 'x', 'SERVER_PORT': '80',
               'wsgi.url_scheme': 'http', 'CONTENT_TYPE': 'multipart/form-data; boundary=' + boundary.decode('latin1'),
               'CONTENT_LENGTH': str(len(body)), 'wsgi.input': st_read, 'wsgi.errors': io.StringIO()}
        status = []
        app.setup(dict(max_memfile_size=buf))
        try:
            out = app(env, lambda s, h, e=None: status.append(s))
            b''.join(out)
            if hasattr(out, 'close'):
                out.close()
        finally:
            app.setup(dict(max_memfile_size=1 << 20))
        return status[0].split()[0], dict(self.seen), parts


# --------------------------------------------------------------------------------------

class C06(Check):
    pid = 'C06'
    props_mod = 'OmbottModel.Props.C06'
    tables = ['multipart']
    design_ref = '6/C06'
    level_text = ('Lean theorems over a line-by-line model of MatchTail/HeadersEaeter/BodyMarkuper/MultipartMarkup: '
                  'parse_refines_R (every chunking of an input gives the markups/error/stopped of a byte-at-a-time '
                  'reference machine wherever that machine is defined), markup_split_independent (every prefix of every '
                  'well-formed body, every division into chunks = one piece; full strength, no partial), feed_append, '
                  'eatData_refines_R / eatData_first_occurrence (delimiter scanner = first occurrence, arbitrary data), '
                  'eater_refines_R, section_ranges_exact / section_contents_exact, markup_total (arbitrary input: no loop '
                  'bound reached, only the three multipart error classes). Model tied to the code by a differential run '
                  'over all prefixes x single/double/stride cuts, a malformed stream and WSGI posts on every run.')
    level_note_extra = 're (end_headers_patt) is re-expressed as a direct function and probed exhaustively on short strings'
    anchors = ['ombott/request_pkg/multipart.py', 'ombott/request_pkg/body_mixin.py']
    rule = ('bodies from part lists (boundaries of length 1-40 incl. "-", "--", letters; data over CR, LF, "-", delimiter '
            'prefixes, x; 0-4 parts; epilogue variants) x every prefix x cut sets: every single cut, every pair (small '
            'bodies), byte-at-a-time, strides 1-16 and tlen+-1, random; plus grammar-mutated bodies with random cuts; '
            'plus WSGI posts with buffer/short-read schedules. non-trivial = at least one cut inside the prefix')
    assumptions = ['re.search for the one fixed pattern end_headers_patt behaves as the direct function endHeadersSearch '
                   '(probed table Gen/Multipart.lean, checked by decide)',
                   'the WSGI server hands the body to wsgi.input.read in arbitrary non-empty pieces (stream model of '
                   'DESIGN section 2)']

    def __init__(self):
        self.stats = {}

    def bump(self, k, n=1):
        self.stats[k] = self.stats.get(k, 0) + n

    def budget(self, tier, escalated):
        n = 36 if tier == 'quick' else 1200
        return n * (3 if escalated and tier == 'quick' else 1)

    def nontrivial(self, sample):
        return bool(sample.get('cuts'))

    # ------------------------------------------------------------------
    def _cutsets_for(self, rng, n, tlen, pairs):
        sets = [[]]
        sets += [[c] for c in range(1, n)]
        if pairs:
            sets += [[a, b] for a in range(1, n) for b in range(a, n)]
        else:
            sets.append(list(range(1, n)))                      # byte-at-a-time
            for k in sorted({2, 3, 4, 5, 7, 8, 16, tlen - 1, tlen, tlen + 1} | {rng.randint(2, 16)}):
                if 0 < k < n:
                    sets.append(stride_cuts(n, k))
            sets += [random_cuts(rng, n) for _ in range(3)]
        return sets

    def corr(self, rng, n):
        out = []
        # 1. well-formed bodies, every prefix, systematic cut sets
        for i in range(n):
            small = i % 6 == 0
            b, parts, epi = gen_body(rng, small=small)
            body = encode(b, parts, epi)
            if len(body) > (44 if small else 150):
                body_parts = parts[:1]
                body = encode(b, body_parts, epi)[:150]
            tlen = len(delim(b))
            self.bump('wf_bodies')
            self.bump('len<=%d' % (40 if len(body) <= 40 else 80 if len(body) <= 80 else 150))
            self.bump('parts=%d' % len(parts))
            pairs = small and len(body) <= 44
            zs = zones(b, parts, epi)
            for c in range(1, len(body)):
                self.bump('cut@' + zone_of_cut(zs, c))
            step = 1 if (len(body) <= 90 or n > 200) else 2
            for plen in sorted(set(range(0, len(body) + 1, step)) | {len(body)}):
                p = body[:plen]
                sets = self._cutsets_for(rng, plen, tlen, pairs)
                if plen == len(body):
                    sets += [stride_cuts(plen, k) for k in range(1, 17) if k < plen]
                res = [real_parse(b, cut(p, s)) for s in sets]
                self.bump('cutsets', len(sets))
                out.append((f'mp cuts {hb(b)} {hb(p)} {cutsets_str(sets)}', compress(res),
                            dict(kind='cuts', boundary=b.hex(), body=p.hex(), cuts=len(sets) - 1)))
                out.append((f'mp ref {hb(b)} {hb(p)}', res[0], dict(kind='ref', boundary=b.hex(), body=p.hex())))
        # 2. chunk-by-chunk view on random chunkings (markups / error / stopped after every chunk)
        for i in range(n * 6):
            b, parts, epi = gen_body(rng)
            body = encode(b, parts, epi)[:rng.choice([400, 400, 90])]
            if rng.random() < .5:
                body = body[:rng.randint(0, len(body))]
            cs = cut(body, random_cuts(rng, len(body)) if rng.random() < .7 else
                     stride_cuts(len(body), rng.choice([1, 2, 3, len(delim(b)) - 1, len(delim(b)) + 1, 16])))
            out.append((f'mp parse {hb(b)} {hbl(cs)} each', real_parse(b, cs, each=True),
                        dict(kind='each', boundary=b.hex(), chunks=[c.hex() for c in cs], cuts=len(cs) - 1)))
            self.bump('each_lines')
        # 3. malformed stream
        for i in range(n * 25):
            b, parts, epi = gen_body(rng, small=rng.random() < .4)
            body = mutate(rng, b, encode(b, parts, epi))[:200]
            if rng.random() < .3:
                body = body[:rng.randint(0, len(body))]
            k = rng.random()
            if k < .5:
                cs = cut(body, random_cuts(rng, len(body)))
            elif k < .75:
                cs = cut(body, stride_cuts(len(body), rng.choice([1, 1, 2, 3, 5, len(delim(b)) - 1, len(delim(b)) + 1])))
            else:
                cs = [body]
            ans = real_parse(b, cs, each=True)
            self.bump('malformed_lines')
            self.bump('malformed_err=' + ans.split(' e=')[1].split()[0])
            out.append((f'mp parse {hb(b)} {hbl(cs)} each', ans,
                        dict(kind='malformed', boundary=b.hex(), chunks=[c.hex() for c in cs], cuts=len(cs) - 1)))
            one = real_parse(b, [body])
            out.append((f'mp refchk {hb(b)} {hb(body)} {one}', 'ok', dict(kind='refchk', boundary=b.hex(), body=body.hex())))
        # 4. constructor
        for bnd in [b'', b'\r', b'a\rb', b'\n', b'-', b'x' * 40]:
            out.append((f'mp parse {hb(bnd)} {hbl([b"--" + bnd + b"--"])} end', real_parse(bnd, [b'--' + bnd + b'--']),
                        dict(kind='ctor', boundary=bnd.hex())))
        # 5. encoder agreement (the Lean `encodeBody` is the harness's encoder)
        for i in range(n):
            b, parts, epi = gen_body(rng, small=True)
            ps = ';'.join('%s:%s' % ('.'.join(hb(l) for l in lines) or '~', hb(d)) for lines, d in parts) or '~'
            out.append((f'mp enc {hb(b)} {ps} {hb(epi)}', f'{hb(encode(b, parts, epi))} wf=1',
                        dict(kind='enc', boundary=b.hex())))
        # 6. through WSGI: _body_read feeds exactly the parts it read
        rig = WsgiRig()
        for i in range(n * 4):
            b, parts, epi = gen_body(rng, wsgi_safe=True)
            if not b or any(c in b for c in b'\n;= "'):
                continue
            body = encode(b, parts, epi)
            if rng.random() < .4:
                body = body[:rng.randint(0, len(body))]
            buf = rng.choice([1, 2, 3, 5, 7, 8, 16, len(delim(b)) - 1, len(delim(b)) + 1, 64, 1 << 16])
            sched = core.gen_sched(rng, len(body))
            status, seen, chunks = core.with_timeout(lambda: rig.post(b, body, buf, sched), 10)
            self.bump('wsgi_posts')
            self.bump('wsgi_status=' + status)
            if 'markup' not in seen:
                continue
            out.append((f'mp parse {hb(b)} {hbl(chunks)} end', seen['markup'],
                        dict(kind='wsgi', boundary=b.hex(), chunks=[c.hex() for c in chunks], buf=buf, cuts=len(chunks) - 1)))
        self.stats['corr_lines'] = len(out)
        return out

    # ------------------------------------------------------------------
    # independent oracle: "parse in one piece" on the real code
    def _key(self, b, parts, epi, plen, cuts, one, pieces):
        zs = zones(b, parts, epi) if parts is not None else []
        p_zone = None
        body = encode(b, parts, epi)[:plen] if parts is not None else None
        single = None
        if body is not None:
            for c in cuts:
                if real_parse(b, cut(body, [c])) != one:
                    single = c
                    break
        if single is not None:
            p_zone = zone_of_cut(zs, single)
        else:
            p_zone = 'multi:' + '+'.join(sorted({zone_of_cut(zs, c) for c in cuts}))[:80] if zs else 'unstructured'
        e1 = one.split(' e=')[1].split()[0]
        e2 = pieces.split(' e=')[1].split()[0]
        what = 'error' if e1 != e2 else ('stopped' if one.split(' s=')[1] != pieces.split(' s=')[1] else 'markups')
        return f'C06:cut@{p_zone}:{what}:{e2}'

    @staticmethod
    def _ctx_key(body, cuts, one, pieces):
        """site fingerprint when the part structure is not known: the classes of the two bytes on
        either side of the (first) cut"""
        cls = lambda x: {13: 'CR', 10: 'LF', 45: 'HY'}.get(x, 'x')
        c = cuts[0] if cuts else 0
        ctx = '.'.join(cls(x) for x in body[max(0, c - 2):c]) + '|' + '.'.join(cls(x) for x in body[c:c + 2])
        e2 = pieces.split(' e=')[1].split()[0]
        return 'C06:cut-context:%s:%s%s' % (ctx, e2, '' if len(cuts) == 1 else ':multi')

    def _try(self, findings, b, parts, epi, plen, cuts):
        body = encode(b, parts, epi)[:plen]
        one = real_parse(b, [body])
        pieces = real_parse(b, cut(body, cuts))
        if one != pieces:
            key = self._key(b, parts, epi, plen, cuts, one, pieces)
            findings.append(Finding(key, f'one piece: {one} / cut at {cuts}: {pieces}',
                                    dict(kind='unit', boundary=b.hex(), body=body.hex(), cuts=list(cuts))))
            return False
        return True

    def search(self, rng, n, seeds):
        findings, evals = [], 0
        # seeds: disagreeing correspondence inputs are re-examined as property inputs
        for s in seeds:
            try:
                b = bytes.fromhex(s['boundary'])
                if 'chunks' in s:
                    cs = [bytes.fromhex(c) for c in s['chunks']]
                    body = b''.join(cs)
                    cuts = list(itertools.accumulate(len(c) for c in cs))[:-1]
                elif 'body' in s:
                    body, cuts = bytes.fromhex(s['body']), list(range(1, len(bytes.fromhex(s['body']))))
                else:
                    continue
                if s.get('kind') in ('malformed', 'refchk'):
                    continue       # not a prefix of a well-formed body: outside the property
                one, pieces = real_parse(b, [body]), real_parse(b, cut(body, cuts))
                evals += 1
                if one != pieces:
                    single = [c for c in cuts if real_parse(b, cut(body, [c])) != one]
                    if single:
                        cuts = single[:1]
                        pieces = real_parse(b, cut(body, cuts))
                    findings.append(Finding(self._ctx_key(body, cuts, one, pieces),
                                            f'one piece: {one} / cut at {cuts}: {pieces}',
                                            dict(kind='unit', boundary=b.hex(), body=body.hex(), cuts=cuts)))
            except Exception:
                pass
        # exhaustive single + double cuts on all prefixes of small bodies, strides on larger ones
        for i in range(n):
            small = i % 3 != 2
            medium = n > 200 and i % 100 == 7       # thorough tier: pairs on bodies up to 120 bytes
            b, parts, epi = gen_body(rng, small=small)
            body = encode(b, parts, epi)
            tlen = len(delim(b))
            L = min(len(body), 120 if medium else 60 if small else 300)
            for plen in range(0, L + 1):
                p = body[:plen]
                one = real_parse(b, [p])
                sets = [[c] for c in range(1, plen)]
                if (small and plen <= 48) or medium:
                    sets += [[a, c] for a in range(1, plen) for c in range(a + 1, plen)]
                sets.append(list(range(1, plen)))
                sets += [stride_cuts(plen, k) for k in (2, 3, 4, 5, 7, 8, 16, tlen - 1, tlen, tlen + 1) if 0 < k < plen]
                if plen == L:
                    sets += [stride_cuts(plen, k) for k in range(1, 17) if k < plen]
                sets.append(random_cuts(rng, plen))
                for s in sets:
                    evals += 1
                    if real_parse(b, cut(p, s)) != one:
                        self._try(findings, b, parts, epi, plen, s)
                        if len(findings) > 40:
                            return evals, findings
        # through WSGI: forms/files/markup with small buffers and short reads equal the one-piece result
        rig = WsgiRig()
        for i in range(n * 3):
            b, parts, epi = gen_body(rng, wsgi_safe=True)
            if not b or any(c in b for c in b'\n;= "'):
                continue
            parts = [([b'Content-Disposition: form-data; name="n%d"' % j + (b'; filename="f%d"' % j if j % 2 else b'')], d)
                     for j, (_, d) in enumerate(parts)]
            body = encode(b, parts, epi)
            if rng.random() < .3:
                body = body[:rng.randint(0, len(body))]
            ref = core.with_timeout(lambda: rig.post(b, body, 1 << 20, []), 10)
            for buf, sched in [(rng.choice([1, 2, 3, 5, 7, 16]), []), (1 << 20, [1] * 400),
                               (rng.choice([4, 9, len(delim(b)) + 1]), core.gen_sched(rng, len(body)))]:
                got = core.with_timeout(lambda: rig.post(b, body, buf, sched), 10)
                evals += 1
                if (got[0], got[1]) != (ref[0], ref[1]):
                    cuts = list(itertools.accumulate(len(c) for c in got[2]))[:-1]
                    key = self._key(b, parts, epi, len(body), cuts, ref[1].get('markup', 'm=- e=? s=0'),
                                    got[1].get('markup', 'm=- e=? s=0')).replace('C06:', 'C06:wsgi:')
                    findings.append(Finding(key, f'one piece: {ref[0]} {ref[1]} / buf={buf} sched={sched[:6]}: {got[0]} {got[1]}',
                                            dict(kind='wsgi', boundary=b.hex(), body=body.hex(), buf=buf, sched=sched)))
        return evals, findings

    def replay(self, data):
        i = data['input']
        b, body = bytes.fromhex(i['boundary']), bytes.fromhex(i['body'])
        if i.get('kind') == 'wsgi':
            rig = WsgiRig()
            ref = rig.post(b, body, 1 << 20, [])
            got = rig.post(b, body, i['buf'], i['sched'])
            return dict(input=i, one_piece=[ref[0], ref[1]], pieces=[got[0], got[1]],
                        chunks=[c.hex() for c in got[2]], same=(ref[0], ref[1]) == (got[0], got[1]))
        one = real_parse(b, [body])
        pieces = real_parse(b, cut(body, i['cuts']))
        return dict(input=i, body=repr(body), chunks=[repr(c) for c in cut(body, i['cuts'])],
                    one_piece=one, pieces=pieces, same=one == pieces)
