"""writes /verif/MANIFEST.json from the check classes (run after adding a check):
    PYTHONPATH=/verif /venv/bin/python -m harness.mkmanifest"""
import importlib
import json
import os

HERE = os.path.dirname(os.path.dirname(os.path.abspath(__file__)))
TITLES = {}
for l in open(os.path.join(HERE, 'properties.jsonl')):
    p = json.loads(l)
    TITLES[p['id']] = p['title']

COMMON_NOTE = ('Trusted: Lean 4.33 kernel; axioms propext/Classical.choice/Quot.sound only (audited each run); the '
               'hand-written model; the table extractor and the differential correspondence harness that tie the model '
               'to /repo; CPython semantics of the mirrored constructs; library calls listed in DESIGN.md section 5.')

PENDING_REASON = ('check not built yet; design in DESIGN.md section 6 (to be claimed once its model, theorems and '
                  'correspondence exist)')

# property id -> reason, for properties that stay unclaimed for a reason other than "not built yet"
NOT_APPLICABLE = {}


def main():
    checks, claimed = [], []
    for pid in sorted(TITLES):
        if not os.path.exists(os.path.join(HERE, 'harness', pid.lower() + '.py')):
            continue
        cls = getattr(importlib.import_module('harness.' + pid.lower()), pid)
        if not getattr(cls, 'claimed', True):
            continue
        claimed.append(pid)
        checks.append(dict(
            property_id=pid,
            quick_cmd=f'./check {pid} --tier quick',
            thorough_cmd=f'./check {pid} --tier thorough',
            evidence_file=f'evidence/{pid}.json',
            replay_cmd_template=f'./check {pid} --replay {{path}}',
            engine='lean4-model',
            level_claimed=dict(category=cls.level_category, text=cls.level_text, design_ref=cls.design_ref),
            level_note=(COMMON_NOTE + ' ' + cls.level_note_extra).strip(),
            technique=cls.technique,
        ))
    old = {}
    mp = os.path.join(HERE, 'MANIFEST.json')
    if os.path.exists(mp):
        old = json.load(open(mp))
    man = dict(
        version=1,
        setup_cmd='cd lean && lake build',
        hooks=old.get('hooks') or dict(
            guard='VALQ7711_OMBOTT_VERIF',
            enable='no source hooks are needed: the harness wraps wsgi.input, open, pickle.loads and uses sys.settrace; the guard variable is set by ./check for future hooks',
            baseline_off_cmd='cd /repo && env -u VALQ7711_OMBOTT_VERIF /venv/bin/python -m pytest -ra -q -p no:cacheprovider --timeout=900 --continue-on-collection-errors',
            source_commits=[], add_only=True),
        engines=[dict(name='lean4-model', path='lean/', serves_properties=claimed,
                      kind_free_text='hand-written executable Lean 4 models + theorems (lake project OmbottModel), tied to /repo by regenerated tables (harness/extract_tables.py, harness/tables/) and a line-protocol differential correspondence (harness/core.py, Driver.lean); independent Python search oracles produce replays')],
        checks=checks,
        notes='See DESIGN.md. Exit 2 = infrastructure failure (never a VIOLATION).',
        not_applicable=[dict(property_id=pid, reason=NOT_APPLICABLE.get(pid, PENDING_REASON))
                        for pid in sorted(TITLES) if pid not in claimed],
    )
    with open(mp, 'w') as f:
        json.dump(man, f, indent=1)
    print('checks', len(checks), 'pending', len(man['not_applicable']))


if __name__ == '__main__':
    main()
