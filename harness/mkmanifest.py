"""writes /verif/MANIFEST.json from the table below (run after adding a check)"""
import json
import os
import sys

HERE = os.path.dirname(os.path.dirname(os.path.abspath(__file__)))
TITLES = {}
for l in open(os.path.join(HERE, 'properties.jsonl')):
    p = json.loads(l)
    TITLES[p['id']] = p['title']

COMMON_NOTE = ('Trusted: Lean 4.33 kernel; axioms propext/Classical.choice/Quot.sound only (audited each run); the '
               'hand-written model; the table extractor and the differential correspondence harness that tie the model '
               'to /repo; CPython semantics of the mirrored constructs; library calls listed in DESIGN.md section 5.')

# pid -> (design_ref, level text, technique, extra note)
CHECKS = {
    'C17': ('6/C17', 'Lean theorems over the model of get_first_range/_file_iter_range/static_file for all headers, '
            'lengths, schedules and buffers (bounds, 206 self-consistency, RFC 7233 clipping of the first range-spec, '
            '304/HEAD); model tied to the code by a differential run on real files every time.',
            'Lean 4 proof + differential correspondence', 'date parsing, stat and file stability are assumed'),
}

PENDING_REASON = 'check not built yet in this round; design in DESIGN.md section 6 (to be claimed once its model, theorems and correspondence exist)'


def main():
    checks = []
    for pid in sorted(CHECKS):
        ref, text, tech, note = CHECKS[pid]
        checks.append(dict(
            property_id=pid,
            quick_cmd=f'./check {pid} --tier quick',
            thorough_cmd=f'./check {pid} --tier thorough',
            evidence_file=f'evidence/{pid}.json',
            replay_cmd_template=f'./check {pid} --replay {{path}}',
            engine='lean4-model',
            level_claimed=dict(category='proof', text=text, design_ref=ref),
            level_note=COMMON_NOTE + ' ' + note,
            technique=tech,
        ))
    man = dict(
        version=1,
        setup_cmd='cd lean && lake build',
        hooks=dict(guard='VALQ7711_OMBOTT_VERIF',
                   enable='no source hooks are needed: the harness wraps wsgi.input, open, pickle.loads and uses sys.settrace; the guard variable is set by ./check for future hooks',
                   baseline_off_cmd='cd /repo && env -u VALQ7711_OMBOTT_VERIF /venv/bin/python -m pytest -ra -q -p no:cacheprovider --timeout=900 --continue-on-collection-errors',
                   source_commits=[], add_only=True),
        engines=[dict(name='lean4-model', path='lean/', serves_properties=sorted(CHECKS),
                      kind_free_text='hand-written executable Lean 4 models + theorems (lake project OmbottModel), tied to /repo by regenerated tables (harness/extract_tables.py) and a line-protocol differential correspondence (harness/core.py, Driver.lean); independent Python search oracles produce replays')],
        checks=checks,
        notes='See DESIGN.md. Exit 2 = infrastructure failure (never a VIOLATION).',
        not_applicable=[dict(property_id=pid, reason=PENDING_REASON) for pid in sorted(TITLES) if pid not in CHECKS],
    )
    with open(os.path.join(HERE, 'MANIFEST.json'), 'w') as f:
        json.dump(man, f, indent=1)
    print('checks', len(checks), 'pending', len(man['not_applicable']))


if __name__ == '__main__':
    main()
