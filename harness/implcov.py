"""Which lines of the implementation did the correspondence (and the oracle) actually execute?

The theorems are about the model; the tie to /repo is the differential correspondence, and that tie is only as wide as the
code the generated cases drive.  This module measures it: while stage 3 (correspondence) and stage 4 (search) run the real
code in-process, every line of /repo's package that executes is recorded (PEP 669 `sys.monitoring`, one callback per line
*location*, which is then switched off, so the cost is a constant per line and nothing per iteration).  The evidence file
reports, per anchored file and per function named in the property's anchors, how many executable lines ran under the
correspondence alone and under correspondence + search, and lists the anchored functions of which no line ran -- those
are modelled (or not) without any run-time tie in this run.

Nothing here decides anything: it is a measurement of the tie, written into evidence/<id>.json under
coverage.impl_line_coverage.  Forked children (the sharded schedules and reference runs of C08/C09/C10) append what they hit
to a scratch file that the parent merges; other sub-processes are not seen.  Python < 3.12 (no sys.monitoring): the measurement is skipped and says so."""
import ast
import json
import os
import sys

TOOL = 3          # a free tool id (0 debugger, 1 coverage, 2 profiler, 5 optimizer are reserved by convention)
_state = dict(on=False, pkg=None, hit=set(), marks={})


def _pkg_dir(repo):
    return os.path.join(os.path.realpath(repo), 'ombott') + os.sep


def start(repo):
    mon = getattr(sys, 'monitoring', None)
    if mon is None or _state['on']:
        return False
    try:
        mon.use_tool_id(TOOL, 'ombott-verif-implcov')
    except ValueError:
        return False
    pkg = _pkg_dir(repo)
    hit = _state['hit'] = set()
    _state['pkg'] = pkg
    DISABLE = mon.DISABLE
    cache = {}
    # forked children (the reference runs and schedule shards of C08 / C09 / C10) inherit the measurement; what they hit
    # is appended to a file of their own in a scratch directory that the parent merges in report()
    import tempfile
    spool = _state['spool'] = tempfile.mkdtemp(prefix='implcov_', dir=os.environ.get('VERIF_TMP') or None)
    child = _state['child'] = [None]

    def in_child():
        try:
            child[0] = os.open(os.path.join(spool, f'{os.getpid()}.hits'), os.O_WRONLY | os.O_CREAT | os.O_APPEND, 0o600)
        except OSError:
            child[0] = None
    if not _state.get('fork_hook'):
        os.register_at_fork(after_in_child=lambda: _state.get('child_hook', lambda: None)())
        _state['fork_hook'] = True
    _state['child_hook'] = in_child

    def on_line(code, lineno):
        fn = code.co_filename
        ok = cache.get(fn)
        if ok is None:
            try:
                ok = cache[fn] = os.path.realpath(fn).startswith(pkg)
            except Exception:
                ok = cache[fn] = False
        if ok:
            hit.add((fn, lineno))
            fd = child[0]
            if fd is not None:
                try:
                    os.write(fd, f'{fn}\t{lineno}\n'.encode())
                except OSError:
                    pass
        return DISABLE

    mon.register_callback(TOOL, mon.events.LINE, on_line)
    mon.set_events(TOOL, mon.events.LINE)
    _state['on'] = True
    return True


def mark(name):
    """remember what has been hit so far under `name` (e.g. 'corr')"""
    if _state['on']:
        _state['marks'][name] = set(_state['hit'])


def stop():
    mon = getattr(sys, 'monitoring', None)
    if mon is None or not _state['on']:
        return
    mon.set_events(TOOL, 0)
    mon.register_callback(TOOL, mon.events.LINE, None)
    mon.free_tool_id(TOOL)
    _state['on'] = False
    _state['child_hook'] = lambda: None
    # merge what forked children recorded
    spool = _state.get('spool')
    n_children = 0
    if spool and os.path.isdir(spool):
        for f in os.listdir(spool):
            n_children += 1
            try:
                for ln in open(os.path.join(spool, f), errors='replace'):
                    fn, _, no = ln.rstrip('\n').rpartition('\t')
                    if fn and no.isdigit():
                        _state['hit'].add((fn, int(no)))
            except OSError:
                pass
        import shutil
        shutil.rmtree(spool, ignore_errors=True)
    _state['children'] = n_children


def _functions(path):
    """qualified name -> sorted executable line numbers (from the compiled code objects), module level under '<module>'"""
    src = open(path).read()
    try:
        top = compile(src, path, 'exec')
    except SyntaxError:
        return {}
    out = {}

    def lines_of(code):
        own = {ln for _, _, ln in code.co_lines() if ln is not None and ln > 0}
        return own

    def walk(code, qual):
        own = lines_of(code)
        for c in code.co_consts:
            if hasattr(c, 'co_code'):
                name = c.co_name
                sub = f'{qual}.{name}' if qual else name
                if name.startswith('<') and name != '<lambda>':      # comprehensions belong to their function
                    own |= walk_inline(c)
                else:
                    walk(c, sub)
        # the `def` line of a nested function belongs to the parent; a function's own first line (its def) is executable
        # only at definition time: drop it so that "0 lines ran" means the BODY never ran
        first = code.co_firstlineno
        body = sorted(l for l in own if l != first) if qual else sorted(own)
        out[qual or '<module>'] = body

    def walk_inline(code):
        own = lines_of(code)
        for c in code.co_consts:
            if hasattr(c, 'co_code'):
                own |= walk_inline(c)
        return own

    walk(top, '')
    # class bodies are code objects too (they run at import time, before the measurement starts): drop them, keep methods
    classes = set()

    def cls_walk(node, qual):
        for ch in ast.iter_child_nodes(node):
            if isinstance(ch, ast.ClassDef):
                q = f'{qual}.{ch.name}' if qual else ch.name
                classes.add(q)
                cls_walk(ch, q)
            elif isinstance(ch, (ast.FunctionDef, ast.AsyncFunctionDef)):
                cls_walk(ch, f'{qual}.{ch.name}' if qual else ch.name)
            else:
                cls_walk(ch, qual)
    try:
        cls_walk(ast.parse(src), '')
    except SyntaxError:
        pass
    for q in classes:
        out.pop(q, None)
    return out


def _anchor_functions(pid, verif):
    """(file, function) pairs named by the property's anchors in properties.jsonl ('file.py:func; file.py:Class.meth')"""
    pairs = []
    try:
        for l in open(os.path.join(verif, 'properties.jsonl')):
            d = json.loads(l)
            if d['id'] != pid:
                continue
            for grp in ('state', 'mechanism'):
                for it in d.get('anchors', {}).get(grp, []):
                    for part in str(it.get('where', '')).split(';'):
                        part = part.strip()
                        if ':' in part:
                            f, fn = part.split(':', 1)
                            pairs.append((f.strip(), fn.strip()))
    except Exception:
        pass
    return pairs


def report(pid, repo, verif, anchors):
    """the dict that goes into the evidence file"""
    if getattr(sys, 'monitoring', None) is None:
        return dict(measured=False, why='sys.monitoring needs Python >= 3.12')
    repo_r = os.path.realpath(repo)
    total = _state['hit']
    corr = _state['marks'].get('corr', set())

    def rel_hits(hs):
        by = {}
        for fn, ln in hs:
            r = os.path.relpath(os.path.realpath(fn), repo_r)
            by.setdefault(r, set()).add(ln)
        return by
    hc, ht = rel_hits(corr), rel_hits(total)
    files = {}
    funcs_all = {}
    for a in anchors:
        p = os.path.join(repo_r, a)
        if not (a.endswith('.py') and os.path.exists(p)):
            continue
        fl = _functions(p)
        funcs_all[a] = fl
        ex = set()
        for q, ls in fl.items():
            if q != '<module>':
                ex |= set(ls)
        files[a] = dict(executable_lines_in_functions=len(ex),
                        ran_under_correspondence=len(ex & hc.get(a, set())),
                        ran_under_correspondence_or_search=len(ex & ht.get(a, set())))
    named = {}
    for f, fn in _anchor_functions(pid, verif):
        fl = funcs_all.get(f)
        if fl is None:
            p = os.path.join(repo_r, f)
            if not os.path.exists(p):
                continue
            fl = funcs_all[f] = _functions(p)
        cands = [q for q in fl if q == fn or q.endswith('.' + fn) or q.startswith(fn + '.') or ('.' + fn + '.') in q]
        for q in cands:
            ls = set(fl[q])
            if not ls:
                continue
            named[f'{f}:{q}'] = dict(lines=len(ls), corr=len(ls & hc.get(f, set())), total=len(ls & ht.get(f, set())),
                                     not_run=sorted(ls - ht.get(f, set()))[:25])
    never = []
    for a, fl in funcs_all.items():
        for q, ls in fl.items():
            if q != '<module>' and ls and not (set(ls) & ht.get(a, set())):
                never.append(f'{a}:{q}')
    tot_ex = sum(v['executable_lines_in_functions'] for v in files.values())
    return dict(
        measured=True,
        method='sys.monitoring LINE events on /repo/ombott while stages 3 and 4 run the real code in this process '
               '(forked children - reference runs, schedule shards - report what they hit through a scratch file; other '
               'sub-processes are not seen); executable lines = line table of each function body',
        forked_children_merged=_state.get('children', 0),
        files=files,
        anchored_lines=tot_ex,
        anchored_lines_ran_corr=sum(v['ran_under_correspondence'] for v in files.values()),
        anchored_lines_ran_total=sum(v['ran_under_correspondence_or_search'] for v in files.values()),
        functions_named_by_the_property=named,
        functions_in_anchored_files_never_run=sorted(never),
    )
