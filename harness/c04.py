"""C04 - Content-Length bodies arrive byte-exact under any read fragmentation."""
from harness import core, bodylib as bl
from harness.core import Check, Finding

BUFS = [1, 2, 3, 4, 7, 8, 64, 1000]
LENS = [0, 1, 2, 3, 4, 5, 7, 8, 9, 15, 16, 17, 31, 33, 63, 64, 65, 100, 200, 300]


def gen_case(rng):
    L = rng.choice(LENS) if rng.random() < .7 else rng.randint(0, 300)
    data = bl.gen_payload(rng, L)
    k = rng.randrange(10)
    if k < 3:
        cl = L
    elif k == 3:
        cl = max(0, L - 1)
    elif k == 4:
        cl = L + 1                       # early EOF by one
    elif k == 5:
        cl = rng.randint(0, L + 5)
    elif k == 6:
        cl = L + rng.choice([2, 10, 100])
    elif k == 7:
        cl = rng.choice([0, -1, -1, -7])
    else:
        cl = rng.randint(0, max(0, L))
    buf = rng.choice(BUFS)
    sched = bl.gen_sched(rng, max(L, 1))
    return data, cl, buf, sched


def cl_spelling(rng, cl):
    """CONTENT_LENGTH header text for an integer (None = header absent)"""
    if cl < 0 and rng.random() < .6:
        return rng.choice([None, ''])
    k = rng.randrange(8)
    if k == 0:
        return f' {cl} '
    if k == 1 and cl >= 0:
        return f'+{cl}'
    if k == 2 and cl >= 0:
        return f'00{cl}'
    if k == 3 and cl >= 10:
        s = str(cl)
        return s[0] + '_' + s[1:]
    return str(cl)


class C04(Check):
    pid = 'C04'
    props_mod = 'OmbottModel.Props.C04'
    tables = ['body']
    design_ref = '6/C04'
    anchors = ['ombott/request_pkg/body_mixin.py']
    level_text = ('Lean theorems over the model of _iter_body/_body_read/BodyMixin._body/body for all data, '
                  'Content-Length values, buffer sizes and read schedules (byte-exact body, every read request '
                  'stays inside Content-Length - also over any sequence of later accesses by handler and hooks -, '
                  'repeatable access, negative length = no read); model tied to the '
                  'code by a differential run through _body_read and through Request.body in a WSGI call.')
    level_note_extra = 'tempfile.TemporaryFile is trusted to behave as a byte buffer; buffer size 0 is a stated degenerate branch'
    rule = ('body lengths 0..300 x Content-Length below/equal/above/zero/negative x buffer {1,2,3,4,7,8,64,1000} x '
            'schedules (full, all-ones, random short, early EOF) through _body_read and through Request.body in a '
            'WSGI call with CONTENT_LENGTH spellings; overlap axis (another request decoded inside the read callback / '
            'generators advanced alternately: results equal the solo results); non-trivial = non-empty data and positive Content-Length')
    assumptions = ['wsgi.input.read(n) returns at most n bytes and returns b"" only at end of data (the stream model)',
                   'tempfile.TemporaryFile behaves as a byte buffer',
                   'CONTENT_LENGTH with non-ASCII decimal digits is outside the model',
                   'max_memfile_size = 0 (nothing can be read) is excluded from the oracle; the model states it as an explicit branch']

    def __init__(self):
        self.stats = {}

    def budget(self, tier, escalated):
        n = 3000 if tier == "quick" else 240000
        return n * (4 if escalated and tier == 'quick' else 1)

    def nontrivial(self, sample):
        return sample.get('len', 0) > 0 and sample.get('cl', 0) > 0

    # ------------------------------------------------------------------
    def corr(self, rng, n):
        out, st = [], self.stats
        for i in range(n):
            data, cl, buf, sched = gen_case(rng)
            if rng.random() < .05:
                buf = 0
            maxb = None
            hook, ov = None, None
            if buf > 0 and rng.random() < .15:      # overlap axis: another request decoded inside read()
                b = bl.gen_overlap_b(rng, rng.random() < .5)
                mode = rng.choice(['unit', 'unit', 'thread-unit'])
                spec = bl.gen_spec(rng, 12)
                hook = (bl.when_of(spec), bl.b_runner(mode, b, []))
                ov = dict(mode=mode, spec=spec, b=bl.pack_req(b))
                bl.bump(st, 'overlap:' + mode)
            res = bl.run_read(data, sched, buf, cl, False, maxb, hook=hook)
            out.append((bl.line_read(data, sched, buf, cl, False, maxb), bl.ans_read(res),
                        dict(kind='read', len=len(data), cl=cl, buf=buf, max=maxb, sched=sched[:8],
                             data=data.hex(), full_sched=sched, overlap=ov)))
            bl.bump(st, 'unit:' + ('ok' if res['ok'] else res['err']))
            bl.bump(st, 'unit:len' + bl.size_bucket(len(data)))
            bl.bump(st, 'unit:cl-' + ('neg' if cl < 0 else 'short' if cl < len(data) else 'eq' if cl == len(data) else 'long'))
            if res['ok'] and res['spill']:
                bl.bump(st, 'unit:spilled')
        for i in range(n // 2):
            data, cl, buf, sched = gen_case(rng)
            hdr = cl_spelling(rng, cl)
            if rng.random() < .03:
                hdr = rng.choice(['abc', '1x', '-', '1 2', '0x10'])
            te = rng.choice([None, None, None, 'identity', 'gzip', ''])
            ops = rng.choice([['B'], ['B'], ['B', 'B'], ['P3', 'B'], ['B', 'I'], ['I', 'B'], ['C', 'B'], ['B', 'S'],
                              ['P0', 'P2', 'B', 'P1', 'I'], ['S', 'B'], [], ['?B', 'B'], ['?S', 'B', 'I'],
                              ['?B', '?B', 'I'], ['P1', '?S', 'P2', 'B'], ['?C', '?B', '?S']])
            maxb = None
            if rng.random() < .25:      # the application replaces wsgi.input through the request's item assignment
                nd = bl.gen_payload(rng, max(0, rng.choice([0, cl - 1, cl, cl + 3, rng.randint(0, 40)])))
                r1 = bl.rop(nd, bl.gen_sched(rng, max(1, len(nd)))[:30])
                r2 = bl.rop(bl.gen_payload(rng, rng.randint(0, 12)), [1] * rng.randint(0, 3))
                lo = bl.lop(cl_spelling(rng, max(0, cl + rng.choice([-2, -1, 0, 1, 3]))) or '')
                ops = rng.choice([['B', r1, 'B'], ['?S', r1, 'B', 'I'], ['?B', r1, 'B'], ['B', 'K', r1, 'B', 'O', 'B'],
                                  ['P2', r1, 'P3', 'B'], [r1, 'B'], ['B', r1, r2, 'B', 'I'], ['K', r1, '?B', 'O', 'B'],
                                  ['?B', 'K', r1, 'B', 'O', '?B'], ['B', r1, 'P1', r2, '?S'],
                                  ['B', lo, r1, 'B'], [r1, lo, 'C', 'B'], ['C', lo, 'C', '?B'], ['B', r1, lo, 'B', 'I']])
                if rng.random() < .3:
                    maxb = rng.randint(0, len(data) + 2)       # so that the first access can be a 413
                bl.bump(st, 'wsgi:replace-input')
            mk = '@' if rng.random() < .8 else rng.choice(list(bl.MAPS))
            hook, ov = None, None
            if rng.random() < .15:
                b = bl.gen_overlap_b(rng, rng.random() < .5)
                mode = rng.choice(['wsgi', 'thread-wsgi'])
                spec = bl.gen_spec(rng, 12)
                hook = (bl.when_of(spec), bl.b_runner(mode, b, []))
                ov = dict(mode=mode, spec=spec, b=bl.pack_req(b))
                bl.bump(st, 'overlap:' + mode)
            res = bl.run_wsgi(mk, buf, maxb, hdr, te, data, sched, ops, hook=hook)
            out.append((bl.line_wsgi(mk, buf, maxb, hdr, te, data, sched, ops), bl.ans_wsgi(res),
                        dict(kind='wsgi', len=len(data), cl=cl, cl_header=hdr, te=te, buf=buf, max=maxb, map=mk,
                             ops=ops, sched=sched[:8], data=data.hex(), full_sched=sched, overlap=ov)))
            bl.bump(st, f'wsgi:status{res["status"]}')
        return out

    # ------------------------------------------------------------------
    def _oracle(self, data, cl, buf, sched):
        """the property, checked on the real code only; returns None or (key, what)"""
        want = data[:max(cl, 0)]
        lim = max(cl, 0)
        r = bl.run_read(data, sched, buf, cl, False, None)
        if not r['ok']:
            return 'unit:exception', f'_body_read raised {r["err"]}'
        if r['bytes'] != want:
            return 'unit:body-differs', (f'_body_read returned {len(r["bytes"])} bytes, the first Content-Length bytes '
                                         f'of the stream are {len(want)}')
        for pos, n in r['calls']:
            if pos + n > lim:
                return 'unit:read-beyond-content-length', f'read({n}) issued at offset {pos} with Content-Length {cl}'
        if cl <= 0 and r['calls']:
            return 'unit:read-without-content-length', 'stream touched although Content-Length is not positive'
        w = bl.run_wsgi('@', buf, None, str(cl) if cl >= 0 else None, None, data, sched, ['B', 'P2', 'B', 'I'])
        if w['status'] != 200:
            return 'wsgi:status', f'Request.body answered {w["status"]}'
        bodies = w['info'].get('bodies', [])
        if len(bodies) != 2 or bodies[0] != want:
            return 'wsgi:body-differs', f'Request.body gave {len(bodies[0]) if bodies else None} bytes, expected {len(want)}'
        if bodies[1] != want:
            return 'wsgi:second-access-differs', 'second access to Request.body returned other bytes'
        if not w['info'].get('replaced'):
            return 'wsgi:input-not-replaced', 'wsgi.input is not the buffered copy after the body was read'
        for pos, n in w['calls']:
            if pos + n > lim:
                return 'wsgi:read-beyond-content-length', f'read({n}) issued at offset {pos} with Content-Length {cl}'
        w1 = bl.run_wsgi('@', buf, None, str(cl) if cl >= 0 else None, None, data, sched, ['B'])
        if w['calls'] != w1['calls']:
            return 'wsgi:extra-reads', 'later accesses touched the original stream again'
        # a size limit below Content-Length, the handler catches the 413 and asks again: still no read past it
        if lim >= 2:
            w3 = bl.run_wsgi('@', buf, lim - 1, str(cl), None, data, sched, ['?B', '?B', '?S'])
            for pos, n in w3['calls']:
                if pos + n > lim:
                    return ('wsgi:read-beyond-content-length',
                            f'read({n}) issued at offset {pos} with Content-Length {cl} (repeated access after a 413)')
        bad = self._replace_oracle(data, cl, buf, sched, want, lim)
        if bad:
            return bad
        bad = self._copy_oracle(data, cl, buf, sched, want, lim, w1['calls'])
        if bad:
            return bad
        # other accessors first (they may refuse the body as form text), then the body: same bytes
        for ctype, ops in (('application/json', ['?J', 'B']), ('application/x-www-form-urlencoded', ['?F', 'B']),
                           (None, ['?S', 'P1', 'B'])):
            w2 = bl.run_wsgi('@', buf, None, str(cl) if cl >= 0 else None, None, data, sched, ops, ctype=ctype)
            if w2['status'] != 200 or w2['info'].get('bodies') != [want]:
                return 'wsgi:body-after-other-accessor', f'Request.body after {ops[0][1:]} differs from the first Content-Length bytes'
            for pos, n in w2['calls']:
                if pos + n > lim:
                    return 'wsgi:read-beyond-content-length', f'read({n}) issued at offset {pos} with Content-Length {cl}'
        return None

    def _copy_oracle(self, data, cl, buf, sched, want, lim, solo_calls):
        """request.copy() taken at any point of the buffered body's life (after a full read, after a partial read
        that left the buffered copy's cursor anywhere, after a form / JSON accessor) is a request
        on the same stream: it presents the same first Content-Length bytes, so does the original afterwards, in
        any order of accesses on the two, and the server stream sees the reads of one buffering, not more"""
        clh = str(cl) if cl >= 0 else None
        ks = sorted({1, max(0, lim - 1), lim + 3, lim // 2})
        # every sequence buffers the body on the original first: a copy made BEFORE the first access is a second
        # reader of the one unbuffered server stream (nothing in the property's mechanism covers that), so there
        # only the copy's own first access is checked
        seqs = [(None, ['K', 'B']), (None, ['B', 'K', 'B', 'O', 'B']), (None, ['B', 'K', 'P2', 'B', 'K', 'B']),
                (None, ['P1', 'K', 'P1', 'O', 'P2', 'K', 'B', 'O', 'B']), ('application/json', ['?J', 'P1', 'K', 'B']),
                ('application/x-www-form-urlencoded', ['?F', 'P0', 'K', 'B', 'O', 'B']), (None, ['?S', 'P3', 'K', 'B'])]
        seqs += [(None, [f'P{k}', 'K', 'B', 'O', 'B']) for k in ks]
        seqs += [(None, ['B', f'P{k}', 'K', f'P{k + 1}', 'B']) for k in ks[1:2]]
        for ctype, ops in seqs:
            w = bl.run_wsgi('@', buf, None, clh, None, data, sched, ops, ctype=ctype)
            shown = ''.join(o[0].lstrip('?') for o in ops)
            if w['status'] != 200:
                return 'copy:status', f'request.copy() in the access sequence {",".join(ops)}: status {w["status"]}'
            nb = sum(o == 'B' for o in ops)
            bodies = w['info'].get('bodies', [])
            if len(bodies) != nb or any(b != want for b in bodies):
                i = next((j for j, b in enumerate(bodies) if b != want), len(bodies))
                return 'copy:body-differs', (f'access sequence {",".join(ops)} (K = continue on request.copy(), O = back on the '
                                             f'original): body access {i + 1} of {nb} gave {len(bodies[i]) if i < len(bodies) else None} '
                                             f'bytes ({bodies[i]!r:.30}), the first Content-Length bytes of the stream are {len(want)}')
            # partial reads start at the beginning of the body on whichever object they are made
            for op, tok in zip([o.lstrip('?') for o in ops], w['outs']):
                if op[0] == 'P' and tok != 'p:' + core.hb(want[:int(op[1:])]):
                    return 'copy:partial-read-differs', (f'access sequence {",".join(ops)}: body.read({op[1:]}) gave {tok[2:]!r:.40}, '
                                                         f'expected the first {op[1:]} of the first Content-Length bytes')
            if w['calls'] != solo_calls:
                beyond = any(pos + n > lim for pos, n in w['calls'])
                return ('copy:read-beyond-content-length' if beyond else 'copy:extra-reads',
                        f'access sequence {",".join(ops)}: the server stream saw read calls {w["calls"][:12]}, '
                        f'one buffering of the body makes {solo_calls[:12]}')
        return None

    def _replace_oracle(self, data, cl, buf, sched, want, lim):
        """the application replaces wsgi.input (item assignment on the request, also on a copy): the next read
        presents the first Content-Length bytes of the NEW stream, read within its Content-Length"""
        if cl < 0:
            return None
        clh = str(cl)
        new = bytes(reversed(data)) + b'NEW'
        nsched = [1, 2] * 8
        rp = bl.rop(new, nsched)

        def within(w, k, limit):
            return all(pos + n <= limit for pos, n in w['streams'][k].calls) if len(w['streams']) > k else False
        for ctype, ops, firsts in ((None, ['B', rp, 'B', 'I'], [want]), ('application/json', ['?J', rp, 'B'], []),
                                   (None, [rp, 'B'], []), (None, ['P1', rp, 'P2', 'B'], [])):
            w = bl.run_wsgi('@', buf, None, clh, None, data, sched, ops, ctype=ctype)
            if w['status'] != 200 or w['info'].get('bodies') != firsts + [new[:lim]]:
                got = w['info'].get('bodies', [None])[-1]
                key = 'replace:old-body-presented' if got == want and want != new[:lim] else 'replace:body-differs'
                return key, (f'after request["wsgi.input"] = new stream ({"".join(o[0] for o in ops)}): status {w["status"]}, '
                             f'body {got!r:.40}, expected the first {lim} bytes of the new stream')
            if not within(w, 1, lim):
                return 'replace:read-beyond-content-length', 'the new stream was read beyond Content-Length'
        # on a copy of the request; the original keeps its buffered body
        w = bl.run_wsgi('@', buf, None, clh, None, data, sched, ['B', 'K', rp, 'B', 'O', 'B'])
        if w['status'] != 200 or w['info'].get('bodies') != [want, new[:lim], want]:
            return 'replace:copy', f'request.copy() with a replaced stream: bodies {w["info"].get("bodies")!r:.80}'
        # a rejected first read (size limit), then a new stream that fits
        if lim >= 2 and len(want) == lim:
            small = bytes(reversed(data[:lim - 1]))
            w = bl.run_wsgi('@', buf, lim - 1, clh, None, data, sched, ['?B', bl.rop(small, [1]), 'B'])
            if w['status'] != 200 or w['outs'][:1] != ['e:HTTP413'] or w['info'].get('bodies') != [small]:
                return 'replace:after-rejected-read', (f'413, then a new stream of {len(small)} bytes: status {w["status"]}, '
                                                       f'outs {w["outs"]}')
        # Content-Length reassigned together with the stream (either order)
        for cl2 in {cl + 2, max(0, cl - 2)} - {cl}:
            for ops in (['B', bl.lop(str(cl2)), rp, 'B'], [rp, bl.lop(str(cl2)), 'B']):
                w = bl.run_wsgi('@', buf, None, clh, None, data, sched, ops)
                if w['status'] != 200 or w['info'].get('bodies', [None])[-1] != new[:cl2] or not within(w, 1, cl2):
                    got = w['info'].get('bodies', [None])[-1]
                    return 'setitem:stale-content-length', (
                        f'request["CONTENT_LENGTH"] = "{cl2}" (was {cl}) and a new stream: body of {len(got) if got is not None else None} '
                        f'bytes presented, the new Content-Length says {min(cl2, len(new))}')
        return None

    def search(self, rng, n, seeds):
        findings, evals = [], 0
        cases = []
        for s in seeds:
            if 'data' in s and s.get('buf', 0) > 0:
                cases.append((bytes.fromhex(s['data']), s['cl'], s['buf'], s['full_sched']))
        # small exhaustive scope: every schedule over {1,2,3} of length <= 3
        data = bytes(range(65, 75))
        for cl in (0, 3, 9, 10, 11, 12):
            for buf in (1, 3, 4):
                for a in (1, 2, 3):
                    for b in (1, 2, 3):
                        cases.append((data, cl, buf, [a, b]))
                        cases.append((data, cl, buf, [a, b, 1, 1, 1, 1, 1, 1, 1, 1, 1, 1, 1]))
        for _ in range(max(0, n // 3)):
            cases.append(gen_case(rng))
        for c in cases:
            evals += 1
            try:
                bad = self._oracle(*c)
            except Exception as e:
                bad = ('oracle-exception', f'{type(e).__name__}: {e}')
            if bad:
                findings.append(Finding(f'C04:{bad[0]}', bad[1],
                                        dict(data=c[0].hex(), cl=c[1], buf=c[2], sched=c[3])))
        # overlap axis: another request's body (either framing) decoded completely at every read call of A
        ocases = []
        for s in seeds:
            if s.get('overlap') and s.get('buf', 0) > 0:
                o = s['overlap']
                ocases.append(dict(a=dict(raw=s['data'], sched=s['full_sched'], buf=s['buf'], cl=s['cl'], chunked=False),
                                   b=o['b'], mode=o['mode'], spec=o['spec']))
        modes = ['unit', 'wsgi', 'thread-unit', 'thread-wsgi']
        k = 0
        for cl, buf, sched in ((10, 3, []), (10, 4, [1] * 12), (7, 8, [2, 1])):
            a = dict(raw=bytes(range(65, 77)), sched=sched, buf=buf, cl=cl, chunked=False)
            for j in range(bl.solo_calls(a) + 1):
                ocases.append(dict(a=bl.pack_req(a), b=bl.pack_req(bl.gen_overlap_b(rng, j % 2 == 0)), mode=modes[k % 4],
                                   spec=['at', j]))
                k += 1
            for order in ('ab', 'aab', 'abb', 'ba'):
                ocases.append(dict(a=bl.pack_req(a), b=bl.pack_req(bl.gen_overlap_b(rng, False)), mode='alternate', spec=order))
        for _ in range(max(6, n // 40)):
            data, cl, buf, sched = gen_case(rng)
            a = dict(raw=data, sched=sched, buf=buf, cl=cl, chunked=False)
            ocases.append(dict(a=bl.pack_req(a), b=bl.pack_req(bl.gen_overlap_b(rng, rng.random() < .5)),
                               mode=rng.choice(modes + ['alternate']), spec=bl.gen_spec(rng, 12)))
            if ocases[-1]['mode'] == 'alternate':
                ocases[-1]['spec'] = rng.choice(['ab', 'aab', 'abb', 'abab', 'ba'])
        for c in ocases:
            evals += 1
            try:
                bad = bl.overlap_check(bl.unpack_req(c['a']), bl.unpack_req(c['b']), c['mode'], c['spec'])
            except Exception as e:
                bad = f'oracle-exception {type(e).__name__}: {e}'
            bl.bump(self.stats, 'search:overlap:' + c['mode'])
            if bad:
                findings.append(Finding('C04:overlap:result-differs-from-solo', bad, dict(probe='overlap', **c)))
        return evals, findings

    def replay(self, data):
        if data.get('kind') == 'proof':
            return dict(note='proof obligation replay: rebuild the Props module', theorem=data.get('theorem'))
        if data.get('kind') == 'correspondence':
            return bl.replay_correspondence(data)
        i = data['input']
        if i.get('probe') == 'overlap':
            return dict(input=i, oracle=bl.overlap_check(bl.unpack_req(i['a']), bl.unpack_req(i['b']), i['mode'], i['spec']))
        sched = i.get('sched', i.get('full_sched', []))
        return dict(input=i, oracle=self._oracle(bytes.fromhex(i['data']), i['cl'], i['buf'], sched))


# the cache layer of the request object (cache_in / __setitem__ / __delitem__ / _on_env_changed / copy): an extra
# correspondence stream and oracle shared with the other two checks that serve `cache_unobservable`
from harness import envcachelib as _envcache  # noqa: E402
_envcache.install(C04)
