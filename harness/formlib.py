"""Shared by C07 and C12: form encoder (mirror of Lean `encodeForm`), generators, the WSGI rig that
posts a body to a real `Ombott()` application with Content-Length or chunked framing and reads the
request's accessors, and the canonical printing that matches `lean/OmbottModel/Drv/Forms.lean`."""
import io
import json as _json

from harness import core
from harness.core import hb, hs, hbl, SchedStream

CRLF = b'\r\n'

# ----------------------------------------------------------------------------------------
# encoder (what a client sends)


def delim(boundary):
    return CRLF + b'--' + boundary.encode('utf8')


def disp_line(name, filename=None):
    s = 'Content-Disposition: form-data; name="%s"' % name
    if filename is not None:
        s += '; filename="%s"' % filename
    return s


def field_lines(f):
    if f[0] == 't':
        return [disp_line(f[1])]
    lines = [disp_line(f[1], f[2])]
    if f[3] is not None:
        lines.append('Content-Type: ' + f[3])
    return lines


def field_data(f):
    return f[2].encode('utf8') if f[0] == 't' else f[4]


def encode_form(boundary, fields, epilogue=CRLF):
    """fields: ('t', name, value) | ('f', name, filename, ctype|None, content)"""
    b = boundary.encode('utf8')
    out = [b'--', b]
    for f in fields:
        out += [CRLF, b''.join(l.encode('utf8') + CRLF for l in field_lines(f)), CRLF, field_data(f), CRLF, b'--', b]
    out += [b'--', epilogue]
    return b''.join(out)


def content_type_for(boundary, quote):
    return 'multipart/form-data; boundary=' + ('"%s"' % boundary if quote else boundary)


def fields_arg(fields):
    """the `<fields>` argument of `forms enc`"""
    if not fields:
        return '~'
    out = []
    for f in fields:
        if f[0] == 't':
            out.append('t:%s:%s' % (hs(f[1]), hs(f[2])))
        else:
            out.append('f:%s:%s:%s:%s' % (hs(f[1]), hs(f[2]), '~' if f[3] is None else hs(f[3]), hb(f[4])))
    return ';'.join(out)


def chunked_encode(body, sizes, ext=False):
    """body as chunked transfer coding with the given chunk sizes (the rest in one chunk)"""
    out, pos = [], 0
    sizes = list(sizes)
    while pos < len(body):
        n = sizes.pop(0) if sizes else len(body) - pos
        n = max(1, min(n, len(body) - pos))
        out.append(b'%x' % n + (b';x=y' if ext else b'') + CRLF + body[pos:pos + n] + CRLF)
        pos += n
    out.append(b'0' + CRLF + CRLF)
    return b''.join(out)


# ----------------------------------------------------------------------------------------
# generators (C07 domain: no `"` and none of the characters str.splitlines breaks at)

LINEBREAKS = '\n\r\x0b\x0c\x1c\x1d\x1e\x85\u2028\u2029'
NAME_ATOMS = ['a', 'b', 'n', ';', '=', ' ', '\\', 'é', '中', '\U0001f600', "'", ',', ':', '(', ')', '/', '?', '+', '-', '.', '_',
              '%', '&', '\t', 'name', 'filename', '; filename=', 'x=y', 'K', 'İ', '\x7f', '\xa0', 'ß', '*', '<', '>', '[', ']',
              '\\\\', '\x01', '\u200b']
NAME_POOL = ['a', 'b', 'a', 'b', 'a\\\\b', '\\\\srv\\x', 'n\\', '\\\\', 'f;x=y', 'q;z=1.txt', 'a b', 'a\\b', 'é', '', ' ', 'name', 'a; filename=b', 'a=', '=a', ';', 'a;',
             'a\\', ' a ', 'x=y;z', 'ключ', "a'b", 'A', 'a=b=c', 'a;;b', 'a ;b= c']
FILENAME_POOL = ['\\\\server\\share\\x.bin', 'a\\\\b', 'dir\\', 'f.txt', 'q;z=1.txt', 'a b.bin', 'C:\\dir\\f.txt', 'é.txt', 'f', 'a=b', ';', ' x ', '..\\..\\etc', 'ф.dat',
                 'a;name=b', "it's", 'x\\', '=.=']
CTYPE_POOL = [None, 'text/plain', 'application/octet-stream', 'image/png', 'x/y+z', 'a/b.c-d', 'text/x_y']
BOUNDARY_SIMPLE = '-_.+\'0123456789abcXYZ'
BOUNDARY_QUOTE_ONLY = ' ():,/=?'
BOUNDARY_POOL = ['b', 'bnd', '-', '--', 'x-', '-x', '----WebKitFormBoundary7MA4YWxkTrZu0gW', 'a b', 'a=b', '(x)', 'a/b:c', 'a,b?',
                 'boundary=x', "'", '=']


def gen_name(rng, pool=NAME_POOL):
    if rng.random() < .6:
        return rng.choice(pool)
    return ''.join(rng.choice(NAME_ATOMS) for _ in range(rng.randint(0, 5)))


def gen_boundary(rng):
    k = rng.random()
    if k < .5:
        return rng.choice(BOUNDARY_POOL)
    n = rng.choice([1, 2, 3, 5, 8, 27, 40, 69, 70])
    alpha = BOUNDARY_SIMPLE if k < .75 else BOUNDARY_SIMPLE + BOUNDARY_QUOTE_ONLY
    b = ''.join(rng.choice(alpha) for _ in range(n))
    return b.rstrip(' ') or 'b'


def needs_quote(boundary):
    return any(c in BOUNDARY_QUOTE_ONLY for c in boundary)


def gen_bytes(rng, boundary, maxlen=24, binary=True):
    """adversarial data: CR, LF, dashes, delimiter prefixes, high bytes; never the delimiter itself"""
    t = delim(boundary)
    atoms = [b'\r', b'\n', b'-', b'x', CRLF, b'--', b'\r\n--', b'\r\n-', t[:-1], t[1:], boundary.encode('utf8'), b'\r\n\r\n']
    atoms += [t[:rng.randint(1, len(t) - 1)] for _ in range(3)]
    if binary:
        atoms += [b'\x00', b'\xff', b'\x80\xfe', bytes([rng.randrange(256)])]
    n = rng.choice([0, 0, 1, 2, 3, 5, 8, 13, maxlen])
    d = b''
    while len(d) < n:
        d += rng.choice(atoms)
    if rng.random() < .5:
        d = d[:n]
    while t in d:
        d = d.replace(t, t[:-1] + (b'y' if t.endswith(b'x') else b'x'))
    return d


TEXT_ATOMS = ['', 'x', 'é', '中', '\U0001f600', '\r', '\n', '\r\n', '-', '--', ' ', ';', '=', '"', '\x00', '\u2028', 'value']


def gen_text(rng, boundary, maxlen=12):
    t = delim(boundary).decode('utf8')
    atoms = TEXT_ATOMS + [t[:rng.randint(1, len(t) - 1)], t[:-1], t[1:], boundary]
    n = rng.choice([0, 0, 1, 2, 3, 5, maxlen])
    s = ''.join(rng.choice(atoms) for _ in range(n))
    while t in s:
        s = s.replace(t, t[:-1] + ('y' if t.endswith('x') else 'x'))
    return s


def gen_fields(rng, boundary, maxn=5, big_file=0):
    n = rng.choice([0, 1, 1, 2, 2, 3, 4, maxn])
    names = [gen_name(rng) for _ in range(max(1, n // 2 + 1))]
    fields = []
    for _ in range(n):
        nm = rng.choice(names) if rng.random() < .5 else gen_name(rng)
        if rng.random() < .5:
            fields.append(('t', nm, gen_text(rng, boundary)))
        else:
            content = gen_bytes(rng, boundary, maxlen=big_file or 24)
            fields.append(('f', nm, gen_name(rng, FILENAME_POOL) or 'f', rng.choice(CTYPE_POOL), content))
    return fields


def in_c07_domain(fields, boundary=None):
    """names/filenames free of `"` and of line breaks (the str.splitlines set), filenames non-empty,
    content types plain `type/subtype` tokens, the delimiter in no value"""
    for f in fields:
        if boundary is not None and delim(boundary) in field_data(f):
            return False
        strs = [f[1]] + ([f[2]] if f[0] == 'f' else [])
        if any(c in s for s in strs for c in '"' + LINEBREAKS):
            return False
        if f[0] == 'f' and (not f[2] or (f[3] is not None and any(c in f[3] for c in ';="\r\n '))):
            return False
    return True


def mixed_kind_names(fields):
    """names used both by a text field and by an upload"""
    t = {f[1] for f in fields if f[0] == 't'}
    return sorted(t & {f[1] for f in fields if f[0] == 'f'})


def text_budget(fields):
    """what FieldStorage.read counts against max_memfile_size: every header section, plus the data of
    text parts"""
    tot = 0
    for f in fields:
        tot += len(CRLF.join(l.encode('utf8') for l in field_lines(f)))
        if f[0] == 't':
            tot += len(f[2].encode('utf8'))
    return tot


# ----------------------------------------------------------------------------------------
# canonical printing (mirror of Drv/Forms.lean)

def show_opt(s):
    return '~' if s is None else hs(s)


def show_item(v):
    from ombott.request_pkg.helpers import FileUpload
    if isinstance(v, FileUpload):
        ct = v.content_type
        ct = None if ct == '' else getattr(ct, 'value', ct)
        try:
            v.file.seek(0)
            content = hb(v.file.read())
        except Exception as e:
            content = 'err:' + type(e).__name__
        return 'f:%s:%s:%s:%s' % (hs(v.name), hs(v.raw_filename), show_opt(ct), content)
    if v is None or isinstance(v, str):
        return 't:' + show_opt(v)
    return 'unexpected:' + type(v).__name__


def show_dict(d, multipart):
    if not multipart:
        return 'dict'
    out = []
    for k in d:
        v = d[k]
        out.append(hs(k) + '=' + ('[' + ' '.join(show_item(x) for x in v) + ']' if isinstance(v, list) else show_item(v)))
    return '{' + ';'.join(out) + '}'


ACC_ATTR = {'b': 'body', 'j': 'json', 'p': 'POST', 'f': 'forms', 'F': 'files', 'P': 'params'}   # 'P': oracle only
BASES = ['ValueError', 'KeyError', 'RuntimeError', 'TypeError', 'IndexError', 'AssertionError', 'AttributeError']


def exc_name(e):
    """class name as the model prints it: subclasses of the modelled built-ins by their modelled base"""
    n = type(e).__name__
    if isinstance(e, UnicodeError):
        return 'UnicodeError'
    return n


# ----------------------------------------------------------------------------------------
# the rig

class Rig:
    """one Ombott() application; the handler reads the given accessors in order, catching what each
    raises, and finally lets the first error through (so the WSGI status is the framework's)"""

    def __init__(self):
        from ombott.ombott import Ombott
        from ombott.response import HTTPResponse
        from ombott.request_pkg import body_mixin
        self.bm = body_mixin
        self.HTTPResponse = HTTPResponse
        self.app = app = Ombott()
        self.accs = []
        self.catch = True
        self.rec = None
        rig = self

        def handler():
            rq = app.request
            outs, first = [], None
            multipart = rq.content_type.startswith('multipart/')
            for a in rig.accs:
                try:
                    v = getattr(rq, ACC_ATTR[a])
                    if a == 'b':
                        outs.append('ok body:' + hb(v.read()))
                    elif a == 'j':
                        outs.append('ok json:' + ('null' if v is None else 'object' if isinstance(v, dict) else 'other'))
                    else:
                        outs.append('ok ' + show_dict(v, multipart))
                    rig.values.append((a, v))
                except core.Hang:        # the watchdog fired inside this access: give up at once
                    rig.hung = True
                    raise
                except HTTPResponse as r:
                    outs.append('http %d' % r.status_code)
                    first = first or r
                    if not rig.catch:
                        rig.outs = outs
                        raise
                except Exception as e:
                    outs.append('raise ' + exc_name(e))
                    first = first or e
                    if not rig.catch:
                        rig.outs = outs
                        raise
            rig.outs = outs
            if first is not None:
                raise first
            return 'ok'
        app.route('/u', method='POST', callback=handler)

    # recording wrappers around the body readers and json.loads (installed for one call)
    def _install(self):
        bm, rec = self.bm, self.rec
        orig = dict(ib=bm._iter_body, ic=bm._iter_chunked, br=bm._body_read, js=bm.json_mod)

        def wrap_iter(fn):
            def w(*a, **kw):
                for part in fn(*a, **kw):
                    rec['parts'].append(part)
                    yield part
            return w

        def body_read(*a, **kw):
            rec['parts'] = []
            try:
                r = orig['br'](*a, **kw)
                rec['framing'] = 'ok'
                return r
            except Exception as e:
                rec['framing'] = type(e).__name__
                raise

        def loads(b, *a, **kw):
            try:
                v = _json.loads(b, *a, **kw)
                rec['json'] = 'N' if v is None else 'D' if isinstance(v, dict) else 'O'
                return v
            except ValueError:
                rec['json'] = 'V'
                raise
            except RecursionError:
                rec['json'] = 'R'
                raise
            except TypeError:
                rec['json'] = 'T'
                raise
        import types
        J = types.SimpleNamespace(**{k: v for k, v in vars(_json).items() if not k.startswith('__')})
        J.loads = loads
        bm._iter_body, bm._iter_chunked, bm._body_read, bm.json_mod = wrap_iter(orig['ib']), wrap_iter(orig['ic']), body_read, J
        return orig

    def _restore(self, orig):
        bm = self.bm
        bm._iter_body, bm._iter_chunked, bm._body_read, bm.json_mod = orig['ib'], orig['ic'], orig['br'], orig['js']

    def post(self, ct, wire, accs, *, cl=None, chunked=False, max_memfile=102400, sched=(), catch=True, record=True,
             max_body=None):
        """wire = the bytes on wsgi.input; returns dict(status, outs, errors, rec, values)"""
        app = self.app
        self.accs, self.catch, self.outs, self.values, self.hung = list(accs), catch, [], [], False
        self.rec = rec = dict(parts=[], framing=None, json='N')
        env = {'REQUEST_METHOD': 'POST', 'PATH_INFO': '/u', 'SERVER_NAME': 'x', 'SERVER_PORT': '80',
               'wsgi.url_scheme': 'http', 'wsgi.input': SchedStream(wire, sched), 'wsgi.errors': io.StringIO()}
        if ct is not None:
            env['CONTENT_TYPE'] = ct
        if cl is not None:
            env['CONTENT_LENGTH'] = str(cl)
        if chunked:
            env['HTTP_TRANSFER_ENCODING'] = 'chunked'
        status = []
        app.setup(dict(max_memfile_size=max_memfile, max_body_size=max_body))
        orig = self._install() if record else None
        escaped = None
        try:
            out = app(env, lambda s, h, e=None: status.append(s))
            b''.join(out)
            if hasattr(out, 'close'):
                out.close()
        except Exception as e:      # an exception escaping the framework
            escaped = type(e).__name__
        finally:
            if orig:
                self._restore(orig)
        if self.hung or escaped == 'Hang':
            raise core.Hang()        # the framework's catch-all swallowed the watchdog's exception
        return dict(status=int(status[0].split()[0]) if status else None, outs=list(self.outs),
                    errors=env['wsgi.errors'].getvalue(), rec=rec, values=list(self.values), escaped=escaped)


def req_line(ct, cl, max_memfile, rec, accs):
    """the `forms req` line for what the rig observed of the framing"""
    if rec['framing'] == 'ok':
        fr = 'c:' + hbl(rec['parts'])
    elif rec['framing'] == 'BodySizeError':
        fr = 'e:size'
    elif rec['framing'] == 'BodyParsingError':
        fr = 'e:parsing'
    elif rec['framing'] is None:
        fr = 'c:~'          # the reader never ran: the model must not consult its result either
    else:
        return None
    return 'forms req %s %d %d %s %s %s' % ('~' if ct is None else hs(ct), cl, max_memfile, fr, rec['json'], ','.join(accs))


def req_answer(res):
    return ' | '.join(res['outs']) + ' final=%s' % res['status']
