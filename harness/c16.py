"""C16 - static_file never serves a file outside its root."""
import itertools
import os
import shutil
import tempfile

from harness import core
from harness.core import hs, hsl, Check, Finding

DECOY = b'DECOY: this file lies outside the root\n'
FUTURE = 'Fri, 01 Jan 2100 00:00:00 GMT'

# the tree, relative to its top directory {T}; the root under test is normally {T}/root
TREE_FILES = {
    'secret_above.txt': DECOY,
    'root/index.html': b'<p>index</p>',
    'root/a.txt': b'inside a',
    'root/noaccess.txt': b'inside, unreadable',          # os.access is answered False for this name
    'root/sub/b.txt': b'inside sub b',
    'root/sub/deep/c.txt': b'inside deep c',
    'root/we ird.txt': b'inside weird',
    'root/bs\\name.txt': b'inside, backslash in the name',
    'root/..hidden': b'inside dotdot-prefixed name',
    'root/a..b': b'inside a..b',
    'root/\xe9 \u20ac.txt': b'inside, non-ASCII name',
    'root/root2/inner.txt': b'inside root/root2',
    'root/\u2025/lookalike.txt': b'inside, in a directory whose NAME is U+2025 TWO DOT LEADER',
    'root/\uff0e\uff0e/lookalike.txt': b'inside, in a directory named with two FULLWIDTH FULL STOPs',
    'root/%2e%2e/lookalike.txt': b'inside, in a directory named %2e%2e',
    'root2/secret.txt': DECOY,
    'root2/a.txt': DECOY,
    'rootx/secret.txt': DECOY,
    'root.bak/secret.txt': DECOY,
    'root/../other/secret.txt': DECOY,
    'other/a.txt': DECOY,
    'work/a.txt': DECOY,
    # decoy directories that differ from the root (or from one of its ancestors) only in letter case: on a
    # case-sensitive file system they are other directories
    'Root/secret.txt': DECOY,
    'ROOT/a.txt': DECOY,
    'rOOt/index.html': DECOY,
    'base/Public/index.txt': b'inside base/Public',
    'base/Public/sub/x.txt': b'inside base/Public/sub',
    'base/public/secret.txt': DECOY,
    'base/public/index.txt': DECOY,
    'base/PUBLIC/secret.txt': DECOY,
    'base/PUBLIc/index.txt': DECOY,
    'Base/Public/secret.txt': DECOY,
    'Base/Public/index.txt': DECOY,
    'BASE/public/secret.txt': DECOY,
    # a second tree of the same shape: the same relative root strings mean other directories from here
    'alt/secret_above.txt': b'ALT above',
    'alt/root/index.html': b'ALT index',
    'alt/root/a.txt': b'ALT inside a',
    'alt/root/sub/b.txt': b'ALT inside sub b',
    'alt/root/sub/deep/c.txt': b'ALT inside deep c',
    'alt/root2/secret.txt': b'ALT root2 secret',
    'alt/root2/a.txt': b'ALT root2 a',
    'alt/work/a.txt': b'ALT work a',
}
TREE_DIRS = ['root/dir.d', 'root/sub/empty', 'work/nested', 'alt/work/nested', 'alt/root/sub/empty']

# (cwd relative to {T}, root spelling); '{T}' is replaced by the absolute top directory
ROOTS = [
    ('', '{T}/root'), ('', '{T}/root/'), ('', '{T}/root//'), ('', '{T}/./root'), ('', '{T}/other/../root'),
    ('', '{T}//root'), ('', '{T}/root/.'), ('', '{T}/root/sub/..'),
    ('', 'root'), ('', 'root/'), ('', './root'), ('', 'root/.'), ('', 'other/../root/'),
    ('root', '.'), ('root', ''), ('root', './'), ('root/sub', '..'), ('root/sub', '../'), ('root/sub/deep', '../..'),
    ('work', '../root'), ('work/nested', '../../root/'), ('root2', '../root'),
    # other roots, so that "root" is itself a sibling / a parent / missing
    ('', '{T}/root2'), ('', 'root2/'), ('', '{T}/root/sub'), ('root', 'sub'), ('', '{T}'), ('', '{T}/'),
    ('alt', 'root'), ('alt', 'root/'), ('alt/root', '.'), ('alt/root/sub', '..'), ('alt/work', '../root'), ('alt', '../root'),
    ('alt', '{T}/root'), ('', '{T}/alt/root'),
    ('', '{T}/base/Public'), ('', '{T}/base/Public/'), ('base', 'Public'), ('base', './Public/'), ('base/Public', '.'),
    ('base/public', '../Public'), ('Base', '../base/Public'), ('', 'base/Public'), ('', '{T}/base/public'), ('', '{T}/Base/Public'),
    ('', '{T}/missing'), ('', 'missing/'), ('', '/'), ('', '//'), ('', '{T}/root/a.txt'), ('root', 'a.txt/'),
]

NAMES = ['index.txt', 'x.txt', 'a.txt', '\xe9 \u20ac.txt', 'index.html', 'sub', 'b.txt', 'deep', 'c.txt', 'noaccess.txt', 'dir.d', 'missing.txt', 'we ird.txt',
         'bs\\name.txt', '..hidden', 'a..b', 'secret.txt', 'secret_above.txt', 'inner.txt', 'empty']
SIBLINGS = ['root', 'root2', 'rootx', 'root.bak', 'other', 'work', 'Root', 'ROOT', 'rOOt', 'public', 'PUBLIC', 'Public', 'PUBLIc',
            'base', 'Base', 'BASE']
SEGS = NAMES + SIBLINGS + ['.', '..', '..', '..', '', '...', ' ', '.. ', ' ..']
SEPS = ['/', '/', '/', '\\', '//', '\\\\', '/\\', '\\/', '///']
ABS_PREFIXES = ['/', '//', '///', '{T}/', '{T}/root/', '{T}/root2/', '{T}//root2/', '/etc/', '\\', '\\/', '/\\',
                '/../', '/./', '//../', '\\..\\', '\\../']

# hand-picked names: every class the property lists
NAMED = [
    'a.txt', '/a.txt', '//a.txt', '\\a.txt', 'a.txt/', 'a.txt\\', '\\/a.txt/\\', './a.txt', 'sub/b.txt', 'sub//b.txt',
    'sub/./b.txt', 'sub/deep/../b.txt', 'sub/../a.txt', 'sub\\b.txt', 'dir.d', 'dir.d/', 'missing.txt', 'noaccess.txt',
    '', '.', '..', '/', '\\', '../', '..\\', '../secret_above.txt', '/../secret_above.txt', '\\../secret_above.txt',
    '..\\secret_above.txt', 'sub/../../secret_above.txt', 'sub/deep/../../../secret_above.txt',
    '../root2/secret.txt', '/../root2/secret.txt', '../root2/a.txt', '../rootx/secret.txt', '../root.bak/secret.txt',
    '../other/secret.txt', '../root/a.txt', '../root/../root2/secret.txt', '../rootx/../root/a.txt',
    '{T}/root2/secret.txt', '{T}/secret_above.txt', '{T}/root/a.txt', '/{T}/root/a.txt', '//{T}/root2/secret.txt',
    '{T}/root/../root2/secret.txt', '/etc/passwd', '//etc/passwd', '../../../../../../../../etc/passwd',
    '....//....//etc/passwd', '..hidden', 'a..b', '..hidden/..', 'root2/inner.txt', 'root2/../../root2/secret.txt',
    '2/secret.txt', '../root2', '..//root2//secret.txt', './../root2/secret.txt', 'sub/..\\../root2/secret.txt',
    '../Root/secret.txt', '../ROOT/a.txt', '../rOOt/index.html', '{T}/Root/secret.txt', 'index.txt', 'sub/x.txt',
    '../public/secret.txt', '../public/index.txt', '../PUBLIC/secret.txt', '../PUBLIc/index.txt', '../Public/index.txt',
    '../../Base/Public/secret.txt', '../../Base/Public/index.txt', '../../BASE/public/secret.txt', '{T}/base/public/secret.txt',
    '{T}/Base/Public/index.txt', '{T}/base/Public/index.txt', '..\\public\\secret.txt', 'sub/../../public/secret.txt',
    'we ird.txt', 'bs\\name.txt', '\xe9 \u20ac.txt', 'sub/../\xe9 \u20ac.txt', 'a.txt\x00', 'a\x00.txt', '../root2/secret.txt\x00',
]


# ---- LOOK-ALIKE SPELLINGS of the path syntax (class: text that is not '.', '..', '/' or '\\' but that SOME folding step
# turns into them).  For abspath + prefix test such a name is a harmless, non-existent name inside the root; any later
# re-spelling of the already validated path (Unicode normalisation, percent-decoding, a lenient decoder) that is not
# followed by a new containment test leaves the root.  The families are computed, not listed: every code point whose
# NFKC / NFKD form consists of dots and separators only (TWO DOT LEADER, ONE DOT LEADER, the FULLWIDTH and SMALL forms
# ...), the ideographic full stops that IDNA maps to '.', percent-encodings (single, upper case, double), and the
# overlong UTF-8 forms read as Latin-1.
def _unicode_folds():
    import unicodedata
    folds = {}
    for cp in range(0x80, 0x30000):
        c = chr(cp)
        for form in ('NFKC', 'NFKD'):
            n = unicodedata.normalize(form, c)
            if n != c and n and set(n) <= set('./\\') and c not in folds.get(n, []):
                folds.setdefault(n, []).append(c)
    return folds


UNI_FOLDS = _unicode_folds()            # {'.': [...], '..': ['\u2025'], '...': [...], '/': ['\uff0f'], '\\': [...]}
FOLD_FAMILIES = {
    'unicode-compat': {k: v for k, v in UNI_FOLDS.items()},
    'ideographic-stop': {'.': ['\u3002', '\uff61']},
    'percent': {'.': ['%2e', '%2E'], '/': ['%2f', '%2F'], '\\': ['%5c', '%5C']},
    'percent-twice': {'.': ['%252e'], '/': ['%252f'], '\\': ['%255c']},
    'overlong-utf8': {'.': ['\xc0\xae'], '/': ['\xc0\xaf'], '\\': ['\xc1\x9c']},
}
TRAVERSALS = [n for n in NAMED if '..' in n and '\x00' not in n] + [
    '../other/a.txt', '../work/a.txt', 'sub/../../root2/a.txt', '../base/public/secret.txt', '../../secret_above.txt']


def respell(rng, name, family=None, what=None):
    """`name` with its dot-dot segments (what='dots'), its separators ('seps') or both ('all') re-spelled in one of the
    look-alike families; rng=None: deterministic, first member everywhere"""
    fam = FOLD_FAMILIES[family or rng.choice(sorted(FOLD_FAMILIES))]
    what = what or rng.choice(['dots', 'dots', 'seps', 'all', 'some'])
    pick = (lambda l: l[0]) if rng is None else rng.choice
    out, i = [], 0
    while i < len(name):
        c = name[i]
        skip = what == 'some' and rng is not None and rng.random() < .5
        if name.startswith('..', i) and (i + 2 == len(name) or name[i + 2] in '/\\') and (i == 0 or name[i - 1] in '/\\'):
            if what in ('dots', 'all', 'some') and not skip and ('..' in fam or '.' in fam):
                two = fam.get('..', []) + ([pick(fam['.']) + pick(fam['.'])] if '.' in fam else [])
                if '.' in fam and rng is not None and rng.random() < .2:
                    two.append('.' + pick(fam['.']))            # half re-spelled
                out.append(pick(two))
            else:
                out.append('..')
            i += 2
            continue
        if c in '/\\' and what in ('seps', 'all', 'some') and not skip and c in fam:
            out.append(pick(fam[c]))
        else:
            out.append(c)
        i += 1
    return ''.join(out)


def gen_filename(rng):
    k = rng.randrange(9)
    if k == 0:
        return rng.choice(NAMED)
    if k == 8:          # a traversal (or any generated name) in a look-alike spelling
        base = rng.choice(TRAVERSALS) if rng.random() < .7 else gen_filename(rng)
        return respell(rng, base)
    n = rng.choice([1, 2, 2, 3, 3, 4, 5, 6])
    parts = []
    for i in range(n):
        parts.append(rng.choice(SEGS))
        if i < n - 1:
            parts.append(rng.choice(SEPS))
    s = ''.join(parts)
    if k == 1:
        s = rng.choice(ABS_PREFIXES) + s
    if k == 2:
        s = s + rng.choice(SEPS)
    if k == 3:   # climb out and come back in / go to a sibling
        s = '../' * rng.randint(1, 3) + rng.choice(SIBLINGS) + '/' + s
    return s


PATH_SEGS = ['a', 'b', '.', '..', '', '...', 'a.b', ' ', '\\', '\xe9', '..a', 'a..', '. ', '\x00']


def gen_path(rng):
    k = rng.randrange(5)
    if k == 0:
        return ''.join(rng.choice('a./') for _ in range(rng.randint(0, 14)))
    n = rng.randint(0, 7)
    s = ''.join(rng.choice(PATH_SEGS) + rng.choice(['/', '/', '//', '///']) for _ in range(n)) + rng.choice(PATH_SEGS)
    if k == 1:
        s = rng.choice(['/', '//', '///', '////']) + s
    return s


# ---- call SEQUENCES on one process: whatever static_file (or anything below it) remembers between calls must
# not change an answer.  Families built to collide: the same (root string, name) under different working
# directories; the same name under different roots (sub-root, sibling, the second tree); the same resolved file
# reached through different roots (inside for one, outside for another).
SAME_ROOT_STRING = [
    ('root', ['', 'alt']), ('root/', ['', 'alt']), ('./root', ['', 'alt']),
    ('.', ['root', 'alt/root', 'root2', 'root/sub', 'alt/root2']), ('', ['root', 'alt/root', 'root2']),
    ('..', ['root/sub', 'alt/root/sub', 'root/sub/deep', 'root/dir.d']),
    ('../root', ['work', 'alt/work', 'root2', 'alt', 'alt/root2']), ('sub', ['root', 'alt/root']),
    ('../root2', ['root', 'alt/root', 'work']), ('../..', ['root/sub/deep', 'alt/root/sub/deep', 'work/nested']),
]
SEQ_NAMES = ['index.txt', 'x.txt', 'a.txt', 'index.html', 'sub/b.txt', 'b.txt', 'secret.txt', 'deep/c.txt', '../a.txt', '../sub/b.txt',
             '../root2/secret.txt', '../root2/a.txt', '../secret_above.txt', '../root/a.txt', 'root/a.txt', 'root2/secret.txt',
             'sub/../a.txt', '../b.txt', 'missing.txt', 'noaccess.txt']
SEQ_ROOTS = ['{T}/base/Public', '{T}/base/public', '{T}/Base/Public', '{T}/Root', '{T}/root', '{T}/root/', '{T}/root/sub', '{T}/root/sub/deep', '{T}/root2', '{T}/rootx', '{T}/alt/root', '{T}/alt/root2',
             '{T}/alt', '{T}', '{T}/root/root2', '{T}/work']


def gen_sequence(rng):
    """a list of calls (cwd_rel, root, filename, method, ims)"""
    k = rng.randrange(4)
    meth = lambda: rng.choice(['GET', 'GET', 'GET', 'HEAD'])
    if k == 0:      # one root STRING, one name, the working directory changes between the calls
        root, cwds = rng.choice(SAME_ROOT_STRING)
        if rng.random() < .7:        # a spelling of the same root that no earlier sequence has used
            root = '{N}/../' + root
        fn = rng.choice(SEQ_NAMES)
        order = [rng.choice(cwds) for _ in range(rng.randint(2, 5))]
        if len(set(order)) == 1:
            order.append(rng.choice([c for c in cwds if c != order[0]]))
        return [(c, root, fn, meth(), False) for c in order]
    if k == 1:      # one name, several roots (warm with one root, ask through another)
        fn = rng.choice(SEQ_NAMES)
        return [('', rng.choice(SEQ_ROOTS), fn, meth(), False) for _ in range(rng.randint(2, 5))]
    if k == 2:      # one file, reached through roots for which it is inside / outside
        reach = rng.choice([
            [('{T}/root', 'sub/b.txt'), ('{T}/root/sub', 'b.txt'), ('{T}/root/sub/deep', '../b.txt'), ('{T}/root2', '../root/sub/b.txt'),
             ('{T}', 'root/sub/b.txt'), ('{T}/alt/root', '../../root/sub/b.txt'), ('{T}/root/sub/empty', '../b.txt')],
            [('{T}/root', 'a.txt'), ('{T}/root/sub', '../a.txt'), ('{T}/root2', '../root/a.txt'), ('{T}', 'root/a.txt'),
             ('{T}/root/root2', '../a.txt'), ('{T}/rootx', '../root/a.txt')],
            [('{T}/root2', 'secret.txt'), ('{T}/root', '../root2/secret.txt'), ('{T}', 'root2/secret.txt'),
             ('{T}/root/root2', '../../root2/secret.txt'), ('{T}/alt/root2', '../../root2/secret.txt')],
        ])
        return [('',) + rng.choice(reach) + (meth(), False) for _ in range(rng.randint(2, 5))]
    # anything after anything
    out = []
    for _ in range(rng.randint(2, 4)):
        c, r = rng.choice(ROOTS)
        out.append((c, r, rng.choice(SEQ_NAMES + NAMED[:20]), meth(), rng.random() < .15))
    return out


class _PathProxy:
    def __init__(self, rec):
        self._rec = rec

    def __getattr__(self, name):
        return getattr(os.path, name)

    def exists(self, p):
        r = os.path.exists(p)
        self._rec.probe('exists', p, r)
        return r

    def isfile(self, p):
        r = os.path.isfile(p)
        self._rec.probe('isfile', p, r)
        return r


class _OsProxy:
    """what static_stream sees as `os`: records the file-system questions and simulates a file that
    is not readable (the harness may run as root, for whom os.access is always true)"""

    def __init__(self, rec):
        self._rec = rec
        self.path = _PathProxy(rec)

    def __getattr__(self, name):
        return getattr(os, name)

    def access(self, p, mode):
        try:
            r = os.access(p, mode) and not os.path.basename(p).startswith('noaccess')
        except ValueError:
            r = False
        self._rec.probe('access', p, r)
        return r

    def stat(self, p, *a, **kw):
        self._rec.touched.append(p)
        return os.stat(p, *a, **kw)


class _Rec:
    def __init__(self):
        self.opened, self.touched, self.probes = [], [], {}
        self.probed_paths = []

    def probe(self, kind, p, r):
        self.probes[kind] = r
        if p not in self.probed_paths:
            self.probed_paths.append(p)

    def open(self, p, *a, **kw):
        self.opened.append(p)
        return open(p, *a, **kw)


class C16(Check):
    pid = 'C16'
    props_mod = 'OmbottModel.Props.C16'
    tables = []
    design_ref = '6/C16'
    level_text = ('Lean theorems over the model of static_file\'s path handling (POSIX normpath/join/abspath, strip, '
                  'prefix test with trailing separator, exists/isfile/access as parameters): a path is opened only '
                  'after a positive decision, lies segment-wise below the normalised root, is normalised and free of '
                  '".."; everything else is 403/404 with nothing opened; model tied to os.path and to static_file on '
                  'a real directory tree with recorded open() on every run.')
    level_note_extra = 'containment is lexical (symbolic links are outside the property\'s "normalised location")'
    anchors = ['ombott/static_stream.py']
    rule = ('os.path.normpath/join/abspath/strip against the model on generated paths and exhaustively over the '
            'alphabet {a . /} (length <= 9 quick / 10 thorough) and over segment lists from {a . .. ""} with 0-3 '
            'leading slashes; static_file on a real temporary tree (decoys above and beside the root, siblings root2 rootx root.bak, directories that differ from the root or an ancestor only in letter case; '
            'rootx root.bak) for 52 root spellings (absolute/relative, trailing separators, dot segments, other '
            'working directories) x file names built from names, ".", "..", "", sibling names, absolute prefixes and '
            'separators / \\ repeated, and the same traversals in LOOK-ALIKE spellings (every code point whose NFKC/NFKD form is made of dots and separators, ideographic full stops, percent-encodings once and twice, overlong UTF-8; directories really carrying such names inside the root as positive controls); GET/HEAD, If-Modified-Since; call SEQUENCES on one process (same root string under '
            'other working directories, same name under sub-/sibling roots, same file through several roots); compared: status, every path handed to open(), '
            'the path probed; non-trivial = the name contains "..", a backslash or starts with a separator')
    assumptions = ['os.getcwd() returns an absolute path (hypothesis of the containment theorem)',
                   'os.path.exists/isfile, os.access, os.stat and open are the file system: parameters of the model; the '
                   'answers recorded from the real tree are shipped to the model',
                   'symbolic links are out of scope: containment is that of the normalised path, as in the property',
                   'POSIX path semantics (os.sep == "/"); on Windows os.path is ntpath and the model does not apply']

    def budget(self, tier, escalated):
        n = 2500 if tier == 'quick' else 25000
        return n * (3 if escalated and tier == 'quick' else 1)

    def nontrivial(self, sample):
        s = str(sample.get('filename', sample.get('path', '')))
        return '..' in s or '\\' in s or s.startswith('/')

    # ------------------------------------------------------------------
    def _setup(self):
        from ombott import static_stream
        self.ss = static_stream
        self.base = os.path.realpath(tempfile.mkdtemp(prefix='c16_', dir=os.environ.get('VERIF_TMP')))
        self.gen = 0
        self.top = os.path.join(self.base, 't0')
        self.nonce = 'q0'
        for rel, data in TREE_FILES.items():
            p = os.path.normpath(os.path.join(self.top, rel))
            os.makedirs(os.path.dirname(p), exist_ok=True)
            with open(p, 'wb') as f:
                f.write(data)
        for rel in TREE_DIRS:
            os.makedirs(os.path.join(self.top, rel), exist_ok=True)
        self.cwd0 = os.getcwd()

    def _teardown(self):
        os.chdir(self.cwd0)
        shutil.rmtree(self.base, ignore_errors=True)

    def _fresh(self):
        """start of a call sequence: the whole tree moves to a new absolute location and `{N}` (a redundant
        `name/..` prefix of relative root strings) changes, so nothing an earlier sequence may have left in the
        process can be keyed by a path or a root string of this one: every sequence is self-contained and its
        replay in a fresh process sees the same thing"""
        self.gen += 1
        new = os.path.join(self.base, f't{self.gen}')
        os.rename(self.top, new)
        self.top, self.nonce = new, f'q{self.gen}'

    def _sub(self, s):
        return s.replace('{T}', self.top).replace('{N}', self.nonce)

    def _static(self, cwd_rel, root, filename, method='GET', ims=False):
        """run the real static_file in working directory {T}/cwd_rel; returns (status, rec, body bytes|None, cwd)"""
        from ombott.ombott import Globals
        ss = self.ss
        rec = _Rec()
        env = {'REQUEST_METHOD': method, 'PATH_INFO': '/x'}
        if ims:
            env['HTTP_IF_MODIFIED_SINCE'] = FUTURE
        Globals.request.__init__(env)
        cwd = os.path.join(self.top, cwd_rel) if cwd_rel else self.top
        os.chdir(cwd)
        old_os = ss.os
        ss.os = _OsProxy(rec)
        ss.open = rec.open
        body = None
        try:
            try:
                r = ss.static_file(filename, root)
                status = r.status_code
                b = r.body
                if hasattr(b, 'read'):
                    body = b.read()
                    b.close()
            except Exception as e:  # noqa: observable = the class name
                status = 'err ' + type(e).__name__
        finally:
            ss.os = old_os
            del ss.open
            os.chdir(self.cwd0)
        return status, rec, body, cwd

    def _case(self, rng):
        cwd_rel, root = rng.choice(ROOTS)
        return (cwd_rel, root, gen_filename(rng), rng.choice(['GET', 'GET', 'GET', 'HEAD']), rng.random() < .25)

    def corr(self, rng, n):
        self.stats = st = {}
        out = []

        def bump(k, by=1):
            st[k] = st.get(k, 0) + by

        # (a) the path functions against os.path
        paths = [gen_path(rng) for _ in range(n * 4)]
        maxlen = 9 if n < 10000 else 10
        for L in range(0, maxlen + 1):
            paths += [''.join(t) for t in itertools.product('a./', repeat=L)]
        nseg = 5 if n < 10000 else 6
        for k in range(1, nseg + 1):
            for t in itertools.product(['a', '.', '..', ''], repeat=k):
                for lead in ('', '/', '//', '///'):
                    paths.append(lead + '/'.join(t))
        for p in paths:
            bump('normpath')
            out.append((f'static normpath {hs(p)}', hs(os.path.normpath(p)), dict(kind='normpath', path=p)))
        for _ in range(n * 2):
            a, b = gen_path(rng), gen_path(rng)
            bump('join')
            out.append((f'static join {hs(a)} {hs(b)}', hs(os.path.join(a, b)), dict(kind='join', path=a + ' | ' + b)))
        real_getcwd = os.getcwd
        try:
            for _ in range(n * 2):
                cwd = rng.choice(['/', '/w', '/w/d', '/w/d/', '//w', '/w/../d', '/a b/c']) if rng.random() < .7 \
                    else '/' + gen_path(rng)
                p = gen_path(rng)
                os.getcwd = lambda: cwd
                bump('abspath')
                out.append((f'static abspath {hs(cwd)} {hs(p)}', hs(os.path.abspath(p)),
                            dict(kind='abspath', path=cwd + ' | ' + p)))
        finally:
            os.getcwd = real_getcwd
        for _ in range(n):
            s = gen_filename(rng)
            bump('strip')
            out.append((f'static strip {hs(s)}', hs(s.strip('/\\')), dict(kind='strip', path=s)))

        # (b) static_file on the real tree
        self._setup()
        try:
            cases = [((c, r, f, 'GET', False), None) for (c, r) in ROOTS for f in NAMED]
            cases += [(self._case(rng), None) for _ in range(n * 2)]
            cases += [((c, r, respell(None, t, fam, w), 'GET', False), None) for (c, r) in (ROOTS[0], ROOTS[9], ('', '{T}/base/Public'))
                      for t in TRAVERSALS[::3] for fam in sorted(FOLD_FAMILIES) for w in ('dots', 'all')]
            # call sequences on this one process (warm, change directory / root, ask again)
            for _ in range(n):
                seq = gen_sequence(rng)
                bump('sequences')
                cases += [(c, seq[:i]) for i, c in enumerate(seq)]
            for (cwd_rel, root_t, fn_t, method, ims), before in cases:
                if not before:              # a single call, or the first call of a sequence
                    self._fresh()
                root, fn = self._sub(root_t), self._sub(fn_t)
                status, rec, body, cwd = self._static(cwd_rel, root, fn, method, ims)
                pr = rec.probes
                e, f, a = (int(bool(pr.get(k, False))) for k in ('exists', 'isfile', 'access'))
                probe = hsl(rec.probed_paths) if rec.probed_paths else '~'
                bump('static')
                bump(f'status_{status}')
                if rec.opened:
                    bump('opened')
                line = (f'static serve {hs(cwd)} {hs(root)} {hs(fn)} {e} {f} {a} '
                        f'{1 if method == "HEAD" else 0} {1 if ims else 0}')
                sample = dict(kind='static', cwd=cwd_rel, root=root_t, filename=fn_t, method=method, ims=ims)
                if before is not None:
                    bump('static_in_sequence')
                    sample['before'] = [list(b) for b in before]       # the calls made earlier in the same sequence
                out.append((line, f'{status} open={hsl(rec.opened)} probe={probe}', sample))
        finally:
            self._teardown()
        return out

    # ------------------------------------------------------------------
    # independent oracle, from the property text
    @staticmethod
    def _inside(q, root_abs):
        """q is a normalised absolute location strictly below root_abs, compared segment by segment"""
        if not q.startswith('/') or q != os.path.normpath(q):
            return False
        qs = [s for s in q.split('/') if s]
        rs = [s for s in root_abs.split('/') if s]
        return '..' not in qs and len(qs) > len(rs) and qs[:len(rs)] == rs

    def _oracle(self, cwd_rel, root_t, fn_t, method, ims):
        """returns None or (key, what)"""
        root, fn = self._sub(root_t), self._sub(fn_t)
        status, rec, body, cwd = self._static(cwd_rel, root, fn, method, ims)
        root_abs = os.path.normpath(os.path.join(cwd, root))      # where the root is, lexically
        for q in rec.opened:
            if not self._inside(q, root_abs):
                return 'opened-outside-root', f'open({q!r}) for name {fn!r} under root {root!r} (= {root_abs!r})'
        if body is not None and body.startswith(b'DECOY') and root_abs in (self.top + '/root', self.top + '/base/Public'):
            return 'decoy-content', f'name {fn!r} under root {root!r} delivered a file from outside the root'
        if body is not None and len(rec.opened) == 1 and os.path.isfile(rec.opened[0]):
            with open(rec.opened[0], 'rb') as f:
                if f.read() != body:
                    return 'stale-content', (f'name {fn!r} under root {root!r} (= {root_abs!r}): the delivered bytes are '
                                             f'not those of {rec.opened[0]!r}')
        if isinstance(status, str):
            return 'exception', f'static_file({fn!r}, {root!r}) raised {status[4:]}'
        if status in (200, 206, 304, 416):
            served = rec.touched + rec.opened
            if not served or not all(self._inside(q, root_abs) for q in served):
                return 'served-outside-root', (f'status {status} for name {fn!r} under root {root!r}: '
                                               f'location {served!r} is not inside {root_abs!r}')
            if status == 200 and method == 'GET' and not ims and len(rec.opened) != 1:
                return 'open-count', f'status 200 with {len(rec.opened)} files opened'
        elif status in (403, 404):
            if rec.opened:
                return 'denied-but-opened', f'status {status} but opened {rec.opened!r}'
        else:
            return 'status', f'name {fn!r} under root {root!r} answered {status}'
        return None

    def _oracle_seq(self, calls):
        """every call of a sequence is judged by itself, against the root as resolved when it is made;
        returns None or (key, what, index of the failing call)"""
        self._fresh()
        for i, c in enumerate(calls):
            bad = self._oracle(*c)
            if bad:
                if i:
                    return bad[0] + ':after-other-calls', bad[1] + f' -- call {i + 1} of {[list(x) for x in calls[:i + 1]]}', i
                return bad[0], bad[1], i
        return None

    def search(self, rng, n, seeds):
        self._setup()
        findings, evals = [], 0
        self.stats = getattr(self, 'stats', {})
        try:
            cases = []
            for s in seeds:
                if s.get('kind') == 'static':
                    c = (s['cwd'], s['root'], s['filename'], s['method'], s['ims'])
                    cases.append([tuple(b) for b in s.get('before') or []] + [c])
            cases += [[(c, r, f, m, False)] for (c, r) in ROOTS for f in NAMED for m in ('GET',)]
            cases += [[(c, r, f, 'HEAD', False)] for (c, r) in ROOTS[:6] for f in NAMED]
            # every traversal in every look-alike family: dot-dot segments, separators, both re-spelled (+ the positive
            # controls: directories that really carry such a name, inside the root)
            look = sorted({respell(None, t, fam, w) for t in TRAVERSALS for fam in sorted(FOLD_FAMILIES) for w in ('dots', 'seps', 'all')}
                          | {u + t[2:] for t in TRAVERSALS if t.startswith('../') for u in UNI_FOLDS.get('..', [])}
                          | {'\u2025/lookalike.txt', '\uff0e\uff0e/lookalike.txt', '%2e%2e/lookalike.txt', '\u2025/../a.txt'})
            self.stats['lookalike_names'] = len(look)
            cases += [[(c, r, f, 'GET', False)] for (c, r) in ROOTS[:4] + [('root', '.'), ('', '{T}/base/Public')] for f in look]
            cases += [[self._case(rng)] for _ in range(n)]
            # sequences: every collision family systematically (warm A, ask B, ask A again), then random ones
            for root, cwds in SAME_ROOT_STRING:
                for fn in SEQ_NAMES[:10]:
                    for a in cwds[:3]:
                        for b in cwds[:3]:
                            if a != b:
                                r = '{N}/../' + root
                                cases.append([(a, r, fn, 'GET', False), (b, r, fn, 'GET', False), (a, r, fn, 'GET', False)])
            for fn in SEQ_NAMES:
                for ra in SEQ_ROOTS[:8]:
                    for rb in SEQ_ROOTS[:8]:
                        if ra != rb:
                            cases.append([('', ra, fn, 'GET', False), ('', rb, fn, 'GET', False)])
            cases += [gen_sequence(rng) for _ in range(n)]
            for calls in cases:
                evals += len(calls)
                try:
                    bad = self._oracle_seq(calls)
                except Exception as e:  # noqa
                    bad = ('oracle-exception', f'{type(e).__name__}: {e}', len(calls) - 1)
                if bad:
                    c = calls[bad[2]]
                    findings.append(Finding(f'C16:{bad[0]}', bad[1],
                                            dict(cwd=c[0], root=c[1], filename=c[2], method=c[3], ims=c[4],
                                                 before=[list(x) for x in calls[:bad[2]]])))
        finally:
            self._teardown()
        findings.sort(key=lambda f: (len(f.replay.get('before') or []), len(f.replay['filename']) + len(f.replay['root'])))
        return evals, findings

    def replay(self, data):
        """input-level replays and correspondence samples of kind `static` carry {cwd, root, filename, method,
        ims}; samples of the path functions carry {kind, path}; proof replays carry no input"""
        i = data.get('input')
        if not isinstance(i, dict):
            return dict(note='no input in this replay file (proof obligation): see "theorem" / "build_log" in it')
        out = dict(input=i)
        if data.get('line'):
            out.update(line=data['line'], recorded_impl=data.get('observed_impl'), recorded_model=data.get('observed_model'))
        if 'filename' not in i:
            parts = str(i.get('path', '')).split(' | ')
            out['os_path_now'] = dict(normpath=os.path.normpath(parts[-1]), join=os.path.join(*parts),
                                      strip=parts[-1].strip('/\\'))
            return out
        self._setup()
        try:
            earlier = []
            for b in i.get('before') or []:          # the earlier calls of the sequence, in this process
                st0, rec0, _, _ = self._static(b[0], self._sub(b[1]), self._sub(b[2]), b[3], b[4])
                earlier.append(dict(call=list(b), status=st0, opened=rec0.opened))
            if earlier:
                out['earlier_calls'] = earlier
            status, rec, body, cwd = self._static(i['cwd'], self._sub(i['root']), self._sub(i['filename']),
                                                  i['method'], i['ims'])
            out.update(tree_top=self.top, nonce=self.nonce, cwd=cwd, status=status, opened=rec.opened, stat=rec.touched,
                       probed=rec.probed_paths, body=None if body is None else body[:60].decode('latin1'),
                       oracle=self._oracle(i['cwd'], i['root'], i['filename'], i['method'], i['ims']))
            return out
        finally:
            self._teardown()
