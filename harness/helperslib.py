"""The request helper classes of ombott/request_pkg/helpers.py (WSGIHeaderDict, FormsDict, CookieDict) and the small
accessors of props_mixin.py (auth / parse_auth, remote_route, remote_addr, is_xhr, is_ajax), as an extra stream of
C15 (header view, CookieDict, auth, remote_route, is_xhr) and C18 (FormsDict).

* correspondence: one self-contained `helpers ...` line per case - a whole accessor sequence on one real object
  (built through `Request`), the answers joined by `;` - against Model/{WsgiHeaders,FormsDict,ReqProps}.lean and
  Py/Base64Lenient.lean (Drv/Helpers.lean).
* oracles, written from what the accessors promise (no model involved):
  C18 - a key of `Request.query` / `forms` / `params` read by item, `get`, `in`, attribute returns the value(s)
        that were sent: a string for one value, the list in submission order for a repeated key; a missing key is
        `KeyError` / the default / `None`; no accessor raises anything else, on any raw string.
  C15 - every header a WSGI server put into the environ is read back under any spelling of its name, listed once,
        under its title-cased name, nothing else is listed, every mutator raises and leaves the environ alone;
        an ASCII cookie set on a response is read back through attribute access / `getunicode`, a raw UTF-8 cookie is
        recoded; `auth` of `Basic b64(user:pass)` is `(user, pass)`, of anything else `None` or the REMOTE_USER pair,
        never an exception; `remote_route` is the list that was joined; `is_xhr` is the case-insensitive comparison.
"""
import base64
import io

from harness import core
from harness.core import hb, hs, Finding


# --------------------------------------------------------------------------------------
# canonical forms (mirror of Drv/Helpers.lean)

def opt_s(x):
    return '~' if x is None else hs(x)


def show_opt_s(x):
    return 'n' if x is None else 's' + hs(x)


def show_kv(items):
    return '+'.join(f'{hs(k)}={hs(v)}' for k, v in items) if items else '~'


def hsl(l):
    return ','.join(hs(x) for x in l) if l else '~'


def exc(e):
    if isinstance(e, UnicodeError):
        return 'eUnicodeError'
    return 'e' + type(e).__name__


def show_val(v):
    if isinstance(v, list) and all(isinstance(x, str) for x in v):
        return 'l:' + '/'.join(hs(x) for x in v)
    if isinstance(v, str):
        return 's:' + hs(v)
    return 'x:' + type(v).__name__


def bump(stats, key, n=1):
    stats[key] = stats.get(key, 0) + n


def is_err(a):
    """an answer that is an exception class (`eKeyError`, `eTypeError!same`), not hex text starting with `e`"""
    return len(a) > 1 and a[0] == 'e' and a[1].isupper()


def mods():
    from ombott.request_pkg import helpers
    from ombott.request_pkg.request import Request
    return helpers, Request


# --------------------------------------------------------------------------------------
# pools

ASCII_VALUES = ['', 'v', '1', 'text/html', 'a b', 'x;y=z', '"q"', 'A,B', '0', 'keep-alive', ' lead', 'trail ', 'a\tb']
LATIN_VALUES = ['\xe9', 'caf\xe9', '\xff\x80', '\xa0x', 'Ã©', 'â\x82¬']
WIDE_VALUES = ['\u20ac', '\u0100x', '\U0001f600', '中文']
BYTES_VALUES = [b'', b'abc', b'\xe9', b'\xc3\xa9', b'\xff\xfe\x00', b'a b']
HDR_NAMES = ['Host', 'User-Agent', 'Accept', 'X-A', 'X-B', 'X-Forwarded-For', 'Content-Type', 'Content-Length', 'Cookie',
             'Authorization', 'X-1', '1x', 'A1b2-C3', 'ETag', 'TE', 'DNT', 'X--Y', 'WWW-Authenticate', 'X', 'x-requested-with',
             'Content-Md5', 'Content', 'X-Content-Type', 'If-None-Match', 'a', 'Z9', '9', '-', 'X-', '-X']
ODD_NAMES = ['', 'x_a', 'X_A', 'x.y', 'x y', 'x:y', 'content_type', 'CONTENT_LENGTH', 'http-x', 'HTTP_X_A', '_', 'x-_a', '€', '中-a',
             'a中b', 'x\t']
NOISE_KEYS = ['REQUEST_METHOD', 'PATH_INFO', 'QUERY_STRING', 'SERVER_NAME', 'wsgi.url_scheme', 'REMOTE_ADDR', 'X_A', 'http_x_a',
              'Http_X', 'HTTP', 'XHTTP_Y', 'content_type', 'CONTENT-TYPE', 'CONTENT_MD5', 'CONTENT_TYPES', '', 'REMOTE_USER']
ODD_ENV_KEYS = ['HTTP_x_low', 'HTTP_X-DASH', 'HTTP_', 'HTTP_CONTENT_TYPE', 'HTTP_CONTENT_LENGTH', 'HTTP_X__A', 'HTTP_a', 'HTTP_X.Y',
                'HTTP_X Y', 'HTTP__', 'HTTP_mIxEd_Case', 'HTTP_中', 'HTTP_1']


def spell(rng, name):
    """another spelling of a header name: case and `_` for `-`"""
    k = rng.randrange(7)
    if k == 0:
        return name.lower()
    if k == 1:
        return name.upper()
    if k == 2:
        return name.title()
    if k == 3:
        return name.replace('-', '_')
    if k == 4:
        return ''.join(c.upper() if rng.random() < .5 else c.lower() for c in name)
    if k == 5:
        return name.upper().replace('-', '_')
    return name


def server_key(name):
    """what a WSGI server does with a request header name (PEP 3333 / CGI)"""
    k = name.upper().replace('-', '_')
    return k if k in ('CONTENT_TYPE', 'CONTENT_LENGTH') else 'HTTP_' + k


def gen_value(rng, with_bytes=True):
    k = rng.randrange(10)
    if k < 5:
        return rng.choice(ASCII_VALUES)
    if k < 7:
        return rng.choice(LATIN_VALUES)
    if k < 8:
        return rng.choice(WIDE_VALUES)
    if k < 9 and with_bytes:
        return rng.choice(BYTES_VALUES)
    return ''.join(rng.choice('abz019-_ ;=\xe9\xff') for _ in range(rng.randint(0, 6)))


def gen_name(rng):
    k = rng.randrange(10)
    if k < 6:
        return rng.choice(HDR_NAMES)
    if k < 8:
        return ''.join(rng.choice('abxyzABXYZ019--') for _ in range(rng.randint(1, 8)))
    return rng.choice(ODD_NAMES)


# --------------------------------------------------------------------------------------
# the header view

def gen_env(rng):
    env = {}
    for _ in range(rng.choice([0, 1, 2, 3, 3, 4, 5, 7])):
        k = rng.randrange(10)
        if k < 6:
            key = server_key(gen_name(rng))
        elif k < 8:
            key = rng.choice(NOISE_KEYS)
        else:
            key = rng.choice(ODD_ENV_KEYS)
        env[key] = gen_value(rng)
    return env


def env_token(env):
    if not env:
        return '~'
    return ','.join(f'{hs(k)}:b:{hb(v)}' if isinstance(v, bytes) else f'{hs(k)}:s:{hs(v)}' for k, v in env.items())


def lookup_names(rng, env):
    """names to look up: spellings of what is there, near misses, things that are not there"""
    out = []
    for k in env:
        if k.startswith('HTTP_'):
            out.append(spell(rng, k[5:].replace('_', '-')))
        else:
            out.append(spell(rng, k.replace('_', '-')))
    out += [gen_name(rng) for _ in range(2)]
    return out


def gen_hdr_ops(rng, env):
    names = lookup_names(rng, env)
    ops = []
    for _ in range(rng.randint(1, 7)):
        n = rng.choice(names)
        k = rng.randrange(20)
        if k < 4:
            ops.append(('g', n))
        elif k < 5:
            ops.append(('r', n))
        elif k < 7:
            ops.append(('c', n))
        elif k < 8:
            ops.append(('G', n, rng.choice([None, 'dflt', ''])))
        elif k < 9:
            ops.append(('k',))
        elif k < 10:
            ops.append(('l',))
        elif k < 11:
            ops.append(('i',))
        elif k < 12:
            ops.append(('e', n))
        elif k < 13:
            ops.append(('S', n, rng.choice(ASCII_VALUES)))
        elif k < 14:
            ops.append(('D', n))
        elif k < 15:
            ops.append(('P', n, rng.choice([None, None, 'd'])))
        elif k < 16:
            ops.append(('I',))
        elif k < 17:
            ops.append(('C',))
        elif k < 18:
            ops.append(('U', [(rng.choice(names), 'u') for _ in range(rng.choice([0, 1, 2]))]))
        else:
            ops.append(('T', n, rng.choice(['d', ''])))
    return ops


def hdr_op_token(op):
    t = op[0]
    if t in 'grceD':
        return f'{t}/{hs(op[1])}'
    if t in 'GP':
        return f'{t}/{hs(op[1])}/{opt_s(op[2])}'
    if t in 'ST':
        return f'{t}/{hs(op[1])}/{hs(op[2])}'
    if t == 'U':
        return 'U/' + show_kv(op[1])
    return t


MUTATORS = 'SDPICUT'


def run_hdr(env, ops, via_request):
    """the real view on a copy of `env`; returns the answers"""
    helpers, Request = mods()
    env = dict(env)
    h = Request(env).headers if via_request else helpers.WSGIHeaderDict(env)
    outs = []
    for op in ops:
        t = op[0]
        before = (list(env.items()))
        try:
            if t == 'g':
                a = 's' + hs(h[op[1]])
            elif t == 'r':
                v = h.raw(op[1])
                a = 'n' if v is None else ('b' + hb(v) if isinstance(v, bytes) else 's' + hs(v))
            elif t == 'c':
                a = '1' if op[1] in h else '0'
            elif t == 'G':
                a = show_opt_s(h.get(op[1], op[2]))
            elif t == 'k':
                a = hsl(h.keys())
            elif t == 'l':
                a = str(len(h))
            elif t == 'i':
                a = show_kv(list(h.items()))
            elif t == 'e':
                a = hs(h._ekey(op[1]))
            else:
                if t == 'S':
                    h[op[1]] = op[2]
                    r = None
                elif t == 'D':
                    del h[op[1]]
                    r = None
                elif t == 'P':
                    r = h.pop(op[1]) if op[2] is None else h.pop(op[1], op[2])
                elif t == 'I':
                    r = h.popitem()
                elif t == 'C':
                    r = h.clear()
                elif t == 'U':
                    r = h.update(op[1])
                elif t == 'T':
                    r = h.setdefault(op[1], op[2])
                else:
                    raise AssertionError(op)
                a = 'ok:n' if r is None else ('ok:s' + hs(r) if isinstance(r, str) else f'ok:p{hs(r[0])}={hs(r[1])}')
        except Exception as e:  # noqa: the class is the observable
            a = exc(e)
        if t in MUTATORS:
            a += '!same' if list(env.items()) == before else '!changed'
        outs.append(a)
    return outs


def hdr_case(rng, stats):
    env = gen_env(rng)
    ops = gen_hdr_ops(rng, env)
    via = rng.random() < .5
    outs = run_hdr(env, ops, via)
    bump(stats, 'helpers:hdr-cases')
    for o, a in zip(ops, outs):
        bump(stats, 'helpers:hdr-op-' + o[0])
        if is_err(a):
            bump(stats, 'helpers:hdr-' + a.split('!')[0])
    if any(isinstance(v, bytes) for v in env.values()):
        bump(stats, 'helpers:hdr-bytes-value')
    line = f'helpers hdr {env_token(env)} ' + (','.join(hdr_op_token(o) for o in ops) or '~')
    return line, ';'.join(outs), dict(kind='helpers', sub='hdr', env=[[k, v if isinstance(v, str) else ['b', v.hex()]]
                                                                     for k, v in env.items()], ops=[list(o) for o in ops])


# --------------------------------------------------------------------------------------
# FormsDict

FD_KEYS = ['a', 'b', 'name', 'x_1', 'keys', 'copy', 'get', 'items', 'pop', 'update', 'values', 'clear', 'fromkeys', 'setdefault',
           'popitem', '__len__', '__x__', '__', '___', '__class__', '__dict__', '__doc__', '__getattr__', '__missing__', '_fix',
           'getall', 'getunicode', 'decode', 'input_encoding', 'a b', 'é', '€', '', '1', 'A', '__a', 'a__', '_', '__init__', '__weakref__']


def gen_fd_pairs(rng):
    n = rng.choice([0, 1, 2, 3, 3, 4, 6])
    pool = [rng.choice(FD_KEYS) for _ in range(max(1, rng.randint(1, 3)))]
    return [(rng.choice(pool) or 'k', rng.choice(['', '1', 'v', 'a b', '&=', 'é', '€', '+%', 'x' * 5])) for _ in range(n)]


def gen_fd_src(rng):
    import urllib.parse
    from harness import c18 as _c18
    k = rng.randrange(10)
    if k < 6:
        pairs = gen_fd_pairs(rng)
        qs = urllib.parse.urlencode(pairs)
    elif k < 8:
        pairs = None
        qs = _c18.gen_raw(rng)
    else:
        pairs = _c18.gen_pairs(rng)
        qs = urllib.parse.urlencode(pairs)
    where = rng.choice(['q', 'q', 'f', 'p', 'p2'])
    try:
        body = qs.encode('latin1')
    except UnicodeEncodeError:
        body = qs.encode('utf8')
    if where == 'q':
        return ('q', qs, b''), pairs
    if where == 'f':
        return ('f', '', body), pairs
    if where == 'p':
        return ('p', qs, b''), pairs
    extra = urllib.parse.urlencode(gen_fd_pairs(rng))
    return ('p', extra, body), None


def fd_src_token(src):
    w, qs, body = src
    if w == 'q':
        return f'q/{hs(qs)}'
    if w == 'f':
        return f'f/{hb(body)}'
    return f'p/{hs(qs)}/{hb(body)}'


def real_fd(src):
    _, Request = mods()
    w, qs, body = src
    env = {'REQUEST_METHOD': 'POST', 'PATH_INFO': '/', 'QUERY_STRING': qs, 'CONTENT_LENGTH': str(len(body)),
           'CONTENT_TYPE': 'application/x-www-form-urlencoded', 'wsgi.input': io.BytesIO(body)}
    rq = Request(env)
    return rq.query if w == 'q' else rq.forms if w == 'f' else rq.params


def gen_fd_ops(rng, d):
    keys = list(d.keys()) if d is not None else []
    ops = []
    for _ in range(rng.randint(1, 7)):
        k = rng.choice(keys) if keys and rng.random() < .55 else rng.choice(FD_KEYS)
        r = rng.randrange(12)
        if r < 3:
            ops.append(('g', k))
        elif r < 5:
            ops.append(('G', k, rng.choice([None, 'dflt', ''])))
        elif r < 6:
            ops.append(('c', k))
        elif r < 7:
            ops.append(('k',))
        elif r < 8:
            ops.append(('l',))
        elif r < 11:
            ops.append(('a', k))
        else:
            ops.append(('y',))
    return ops


def fd_op_token(op):
    t = op[0]
    if t in 'gca':
        return f'{t}/{hs(op[1])}'
    if t == 'G':
        return f'G/{hs(op[1])}/{opt_s(op[2])}'
    return t


def plain_lookup(obj, name):
    """(found, value) of normal attribute lookup, `__getattr__` not consulted"""
    try:
        return True, object.__getattribute__(obj, name)
    except AttributeError:
        return False, None


def show_dict_v(d):
    return ','.join(f'{hs(k)}:{show_val(v)}' for k, v in d.items()) if d else '~'


def run_fd(d, ops):
    outs = []
    for op in ops:
        t = op[0]
        try:
            if t == 'g':
                a = show_val(d[op[1]])
            elif t == 'G':
                v = d.get(op[1], op[2])
                a = 'n' if v is None else show_val(v)
            elif t == 'c':
                a = '1' if op[1] in d else '0'
            elif t == 'k':
                a = hsl(list(d.keys()))
            elif t == 'l':
                a = str(len(d))
            elif t == 'a':
                found, _ = plain_lookup(d, op[1])
                v = getattr(d, op[1])
                a = 'm' if found else ('v:n' if v is None else 'v:' + show_val(v))
            elif t == 'y':
                c = d.copy()
                a = show_dict_v(c) if type(c) is type(d) and c is not d else 'x:' + type(c).__name__
            else:
                raise AssertionError(op)
        except Exception as e:  # noqa
            a = exc(e)
        outs.append(a)
    return outs


def fd_case(rng, stats):
    src, pairs = gen_fd_src(rng)
    try:
        d = real_fd(src)
    except Exception as e:  # noqa
        bump(stats, 'helpers:fd-src-error')
        return f'helpers fd {fd_src_token(src)} ~', 'err ' + type(e).__name__, dict(kind='helpers', sub='fd', src=[src[0], src[1], src[2].hex()], ops=[])
    ops = gen_fd_ops(rng, d)
    outs = run_fd(d, ops)
    bump(stats, 'helpers:fd-cases')
    bump(stats, 'helpers:fd-src-' + src[0])
    for o, a in zip(ops, outs):
        bump(stats, 'helpers:fd-op-' + o[0])
        if o[0] == 'a':
            bump(stats, 'helpers:fd-attr-' + ('method' if a == 'm' else 'error' if is_err(a) else 'none' if a == 'v:n' else 'value'))
        elif is_err(a):
            bump(stats, 'helpers:fd-' + a)
        if a.startswith('l:') or a.startswith('v:l:'):
            bump(stats, 'helpers:fd-list-value')
    line = f'helpers fd {fd_src_token(src)} ' + (','.join(fd_op_token(o) for o in ops) or '~')
    return line, ';'.join(outs), dict(kind='helpers', sub='fd', src=[src[0], src[1], src[2].hex()], ops=[list(o) for o in ops],
                                      pairs=pairs)


# --------------------------------------------------------------------------------------
# CookieDict

CD_KEYS = ['a', 'sid', 'n', 'keys', 'get', 'copy', 'decode', 'getunicode', '_fix', 'input_encoding', '_decoded', '__x__', '__', 'b',
           'é', 'Ã©', 'zz', 'x-y', '__len__', 'items']
CD_VALUES = ['', 'v', 'abc', 'a b', 'é', 'Ã©', 'â\x82¬', '\xff', '\xc3', 'aÃ©b', '€', '\u0100', 'Ã\x83Â©', '\xe2\x82', 'x;y', '\xa0']
ENCODINGS = [None, None, None, 'utf8', 'utf-8', 'UTF-8', 'latin1', 'latin-1', 'iso-8859-1', 'ascii', 'us-ascii', 'nonsense', '']
COOKIE_HEADERS = ['a=1', 'a=1; b=2', 'sid=abc; n="x y"', '', 'a=1; a=2', 'n="q\\"r"', 'bad cookie;;=', 'a="Ã©"', 'n="â\x82¬"; a=v',
                  'a="\\303\\251"', 'n=Ã©', 'keys=1; get=2', 'a=b=c', 'x=1;y', 'n="\\351"', 'a="\xff"', 'Secure; a=1', 'a=1; path=/']


def gen_cd_src(rng):
    if rng.random() < .5:
        n = rng.choice([0, 1, 2, 3, 4])
        return ('p', [(rng.choice(CD_KEYS), rng.choice(CD_VALUES)) for _ in range(n)])
    if rng.random() < .6:
        return ('h', rng.choice(COOKIE_HEADERS))
    parts = []
    for _ in range(rng.randint(1, 3)):
        v = rng.choice(CD_VALUES)
        try:
            v.encode('latin1')
        except UnicodeEncodeError:
            v = v.encode('utf8').decode('latin1')
        v = v.replace('"', '').replace('\\', '')
        parts.append(f'{rng.choice(["a", "sid", "n", "keys", "b"])}="{v}"')
    return ('h', '; '.join(parts))


def cd_src_token(src):
    return f'h/{hs(src[1])}' if src[0] == 'h' else 'p/' + show_kv(src[1])


def real_cd(src):
    helpers, Request = mods()
    if src[0] == 'h':
        return Request({'HTTP_COOKIE': src[1]}).cookies
    return helpers.CookieDict(src[1])


def gen_cd_ops(rng, c):
    keys = list(c.keys())
    ops = []
    for _ in range(rng.randint(1, 7)):
        k = rng.choice(keys) if keys and rng.random() < .6 else rng.choice(CD_KEYS)
        r = rng.randrange(12)
        if r < 2:
            ops.append(('g', k))
        elif r < 3:
            ops.append(('G', k, rng.choice([None, 'd'])))
        elif r < 6:
            ops.append(('u', k, rng.choice([None, None, 'dflt']), rng.choice(ENCODINGS)))
        elif r < 9:
            ops.append(('a', k))
        elif r < 11:
            ops.append(('d', rng.choice(ENCODINGS)))
        else:
            ops.append(('k',))
    return ops


def cd_op_token(op):
    t = op[0]
    if t in 'ga':
        return f'{t}/{hs(op[1])}'
    if t == 'G':
        return f'G/{hs(op[1])}/{opt_s(op[2])}'
    if t == 'u':
        return f'u/{hs(op[1])}/{opt_s(op[2])}/{opt_s(op[3])}'
    if t == 'd':
        return f'd/{opt_s(op[1])}'
    return t


def run_cd(c, ops):
    outs = []
    for op in ops:
        t = op[0]
        try:
            if t == 'g':
                a = 's' + hs(c[op[1]])
            elif t == 'G':
                a = show_opt_s(c.get(op[1], op[2]))
            elif t == 'u':
                kw = {} if op[3] is None else {'encoding': op[3]}
                a = show_opt_s(c.getunicode(op[1], op[2], **kw))
            elif t == 'a':
                found, _ = plain_lookup(c, op[1])
                v = getattr(c, op[1])
                a = 'm' if found else 'v:' + show_opt_s(v)
            elif t == 'd':
                c2 = c.decode() if op[1] is None else c.decode(op[1])
                a = 'ok:' + show_kv(list(c2.items())) + ':' + hs(c2.input_encoding)
                c = c2
            elif t == 'k':
                a = show_kv(list(c.items()))
            else:
                raise AssertionError(op)
        except Exception as e:  # noqa
            a = exc(e)
        outs.append(a)
    return outs


def cd_case(rng, stats):
    from http.cookies import CookieError
    src = gen_cd_src(rng)
    sample = dict(kind='helpers', sub='cd', src=[src[0], src[1]])
    try:
        c = real_cd(src)
    except CookieError:
        bump(stats, 'helpers:cd-src-CookieError')
        return f'helpers cd {cd_src_token(src)} ~', 'err CookieError', dict(sample, ops=[])
    ops = gen_cd_ops(rng, c)
    outs = run_cd(c, ops)
    bump(stats, 'helpers:cd-cases')
    for o, a in zip(ops, outs):
        bump(stats, 'helpers:cd-op-' + o[0])
        if is_err(a):
            bump(stats, 'helpers:cd-' + a)
        if o[0] in 'ua' and a.endswith('n'):
            bump(stats, 'helpers:cd-recode-default')
    line = f'helpers cd {cd_src_token(src)} ' + (','.join(cd_op_token(o) for o in ops) or '~')
    return line, ';'.join(outs), dict(sample, ops=[list(o) for o in ops])


# --------------------------------------------------------------------------------------
# auth, remote_route, is_xhr

USERS = ['u', 'user', '', 'Aladdin', 'a b', 'é', '€uro', '中', 'u@h', 'x' * 7, '\U0001f600', 'a\tb', ' u', 'u ']
PASSWORDS = ['p', '', 'open sesame', 'a:b', ':', '::', 'é', 'пароль', 'p\n', ' p ', 'x' * 9, '\u20ac', 'a=b']
SCHEMES = ['Basic', 'basic', 'BASIC', 'bAsIc', 'Digest', 'Bearer', 'Basi', 'Basicx', 'Negotiate', 'basıc', 'Bas\u212Ac']
SEPS = [' ', ' ', ' ', '  ', '\t', ' \t ', '\xa0', '\n', '\x1f', '\u2003', '\x0c']
B64A = 'ABCDEFGHIJKLMNOPQRSTUVWXYZabcdefghijklmnopqrstuvwxyz0123456789+/'


def damage_b64(rng, s):
    k = rng.randrange(12)
    if k == 0:
        return s.rstrip('=')
    if k == 1:
        return s + '='
    if k == 2:
        return s + '=='
    if k == 3 and s:
        p = rng.randrange(len(s))
        return s[:p] + rng.choice([' ', '\n', '-', '_', '.', '\xe9', '€', '=', '\t']) + s[p:]
    if k == 4 and s:
        return s[:rng.randrange(len(s))]
    if k == 5:
        return s + rng.choice(['A', 'AA', 'AAA', 'AAAA', ' ', ' x', '\n'])
    if k == 6:
        return s.replace('=', '') + rng.choice(['', '=', '==', '==='])
    if k == 7:
        return ''.join(rng.choice(B64A + '=== -') for _ in range(rng.randint(0, 9)))
    if k == 8 and s:
        p = rng.randrange(len(s))
        return s[:p] + rng.choice(B64A) + s[p + 1:]
    if k == 9:
        return '=' + s
    if k == 10:
        return s[:2] + '=' + s[2:]
    return s


def gen_auth_header(rng):
    """(header or None, (user, password) if a well-formed Basic header was produced)"""
    k = rng.randrange(20)
    if k == 0:
        return None, None
    if k == 1:
        return rng.choice(['', ' ', 'Basic', 'Basic ', ' Basic', 'x', 'Basic\t', '\xa0', 'Basic  ']), None
    user, pwd = rng.choice(USERS), rng.choice(PASSWORDS)
    if k == 2:
        raw = rng.choice([b'nocolon', b'', b'\xff:\xfe', b'\xe9:p', b'u:\xc3', b'\xc3\xa9:\xe2\x82\xac', b'a\x00:b', b':', b'::'])
    elif k == 3:
        raw = bytes(rng.randrange(256) for _ in range(rng.randint(0, 6)))
    elif k == 4:
        raw = (user.replace(':', '') + pwd.replace(':', '')).encode('utf8')          # no colon at all
    else:
        if k == 5:
            user = rng.choice(['a:b', ':u', 'u:'])                                    # a colon in the user
        raw = (user + ':' + pwd).encode('utf8')
    payload = base64.b64encode(raw).decode('ascii')
    clean = k >= 6 and ':' not in user
    if k in (6, 7, 8):
        payload = damage_b64(rng, payload)
        clean = False
    scheme = 'Basic' if k >= 12 else rng.choice(SCHEMES)
    sep = ' ' if k >= 14 else rng.choice(SEPS)
    lead = rng.choice(['', '', '', ' ', '\t'])
    trail = rng.choice(['', '', '', ' ', '\n'])
    header = lead + scheme + sep + payload + trail
    return header, ((user, pwd) if clean and scheme.lower() == 'basic' and not trail else None)


def run_auth(header, ruser):
    _, Request = mods()
    env = {}
    if header is not None:
        env['HTTP_AUTHORIZATION'] = header
    if ruser is not None:
        env['REMOTE_USER'] = ruser
    try:
        a = Request(env).auth
    except Exception as e:  # noqa
        return exc(e)
    if a is None:
        return 'n'
    if isinstance(a, tuple) and len(a) == 2 and isinstance(a[0], str) and (a[1] is None or isinstance(a[1], str)):
        return f't:{hs(a[0])}:{opt_s(a[1])}'
    return 'x:' + repr(a)[:40]


def auth_case(rng, stats):
    header, sent = gen_auth_header(rng)
    ruser = rng.choice([None, None, None, 'ruser', '', 'é', ' '])
    a = run_auth(header, ruser)
    bump(stats, 'helpers:auth-cases')
    bump(stats, 'helpers:auth-' + ('none' if a == 'n' else 'remote-user' if a.endswith(':~') else 'pair' if a.startswith('t:') else a))
    if sent is not None:
        bump(stats, 'helpers:auth-wellformed')
    return (f'helpers auth {opt_s(header)} {opt_s(ruser)}', a,
            dict(kind='helpers', sub='auth', header=header, remote_user=ruser, sent=list(sent) if sent else None))


IPS = ['1.1.1.1', '10.0.0.1', '::1', '2001:db8::1', 'unknown', 'a', '127.0.0.1', 'fe80::1%eth0', 'host.example', '', ' ', 'x y']
XFF_SEPS = [', ', ',', ' , ', ',  ', '\t,\t', ',\xa0', ' ,']


def rr_case(rng, stats):
    _, Request = mods()
    k = rng.randrange(10)
    if k == 0:
        xff = None
    elif k == 1:
        xff = rng.choice(['', ' ', ',', ',,', ' , '])
    else:
        ips = [rng.choice(IPS) for _ in range(rng.randint(1, 4))]
        sep = rng.choice(XFF_SEPS)
        xff = rng.choice(['', '', ' ']) + sep.join(ips) + rng.choice(['', '', ' ', ','])
    ra = rng.choice([None, '9.9.9.9', '', '::1', ' 7.7.7.7 '])
    env = {}
    if xff is not None:
        env['HTTP_X_FORWARDED_FOR'] = xff
    if ra is not None:
        env['REMOTE_ADDR'] = ra
    try:
        rq = Request(env)
        route = rq.remote_route
        addr = Request(dict(env)).remote_addr
        a = hsl(route) + '|' + opt_s(addr)
    except Exception as e:  # noqa
        a = exc(e)
    bump(stats, 'helpers:rr-cases')
    return f'helpers rr {opt_s(xff)} {opt_s(ra)}', a, dict(kind='helpers', sub='rr', xff=xff, remote_addr=ra)


XHR_VALUES = [None, '', 'XMLHttpRequest', 'xmlhttprequest', 'XMLHTTPREQUEST', 'XmlHttpRequest', 'XMLHttpRequest ', ' XMLHttpRequest',
              'XMLHttpRequestx', 'fetch', 'xml', 'XMLHttpRe\u212Auest', 'xmlhttprequ\u0130st', 'ＸMLHttpRequest', 'XMLHttpRequesT']


def xhr_case(rng, stats):
    _, Request = mods()
    v = rng.choice(XHR_VALUES)
    env = {} if v is None else {'HTTP_X_REQUESTED_WITH': v}
    try:
        a = ('1' if Request(env).is_xhr else '0') + ' ' + ('1' if Request(env).is_ajax else '0')
    except Exception as e:  # noqa
        a = exc(e)
    bump(stats, 'helpers:xhr-cases')
    return f'helpers xhr {opt_s(v)}', a, dict(kind='helpers', sub='xhr', value=v)


def b64_case(rng, stats):
    import binascii
    k = rng.randrange(4)
    if k == 0:
        s = base64.b64encode(bytes(rng.randrange(256) for _ in range(rng.randint(0, 7)))).decode()
        s = damage_b64(rng, s).encode('utf8')
    elif k == 1:
        s = bytes(rng.choice(list(B64A[:8].encode()) + [61, 61, 61, 32, 10, 45, 95, 200, 0, 43, 47]) for _ in range(rng.randint(0, 10)))
    elif k == 2:
        s = base64.b64encode(bytes(rng.randrange(256) for _ in range(rng.randint(0, 9))))
    else:
        s = bytes(rng.randrange(256) for _ in range(rng.randint(0, 8)))
    try:
        a = hb(base64.b64decode(s))
    except binascii.Error:
        a = 'err'
    bump(stats, 'helpers:b64-cases')
    bump(stats, 'helpers:b64-' + ('err' if a == 'err' else 'ok'))
    return f'helpers b64d {hb(s)}', a, dict(kind='helpers', sub='b64', data=s.hex())


def split_case(rng, stats):
    s = ''.join(rng.choice(['a', 'b', 'Basic', ' ', ' ', '\t', '\n', '\xa0', '\x1f', '\x1c', '\u2003', '\u200b', 'é', '\x85', '\x0b'])
                for _ in range(rng.randint(0, 7)))
    bump(stats, 'helpers:split-cases')
    return f'helpers split1 {hs(s)}', hsl(s.split(None, 1)), dict(kind='helpers', sub='split', text=s)


def enc_case(rng, stats):
    """the client side of the statements against the library: the Basic header of (user, password), `', '.join`"""
    if rng.random() < .6:
        u, p = rng.choice(USERS), rng.choice(PASSWORDS)
        sch, sep = rng.choice(['Basic', 'basic', 'BASIC']), rng.choice([' ', '  ', '\t'])
        a = hs(sch + sep + base64.b64encode((u + ':' + p).encode('utf8')).decode('ascii'))
        bump(stats, 'helpers:enc-basic')
        return f'helpers basic {hs(sch)} {hs(sep)} {hs(u)} {hs(p)}', a, dict(kind='helpers', sub='enc', user=u, password=p)
    ips = [rng.choice(IPS) for _ in range(rng.randint(0, 4))]
    bump(stats, 'helpers:enc-join')
    return f'helpers join {hsl(ips)}', hs(', '.join(ips)), dict(kind='helpers', sub='enc', ips=ips)


# --------------------------------------------------------------------------------------
# the correspondence stream

C15_MIX = [(hdr_case, 30), (cd_case, 18), (auth_case, 22), (rr_case, 8), (xhr_case, 3), (b64_case, 10), (split_case, 4),
           (enc_case, 5)]
C18_MIX = [(fd_case, 1)]


def corr_stream(rng, n, pid, stats):
    mix = C15_MIX if pid == 'C15' else C18_MIX
    fns, weights = [m[0] for m in mix], [m[1] for m in mix]
    out = []
    hangs = 0
    for _ in range(n):
        fn = rng.choices(fns, weights)[0]
        # the real code runs inside the case builders: a faulty tree that spins must not hang the check.  Such a case is
        # dropped here (the property's own streams / the oracle report the hang with an input); three of them end the stream
        try:
            out.append(core.with_timeout(lambda: fn(rng, stats), 3))
        except core.Hang:
            hangs += 1
            bump(stats, 'helpers:hangs')
            if hangs >= 3:
                break
    return out


# --------------------------------------------------------------------------------------
# oracles

def _fd_expected(pairs):
    d = {}
    for k, v in pairs:
        d.setdefault(k, []).append(v)
    return {k: (vs[0] if len(vs) == 1 else vs) for k, vs in d.items()}


DICT_NAMES = set(dir(dict)) | {'copy'}


def oracle_fd(pairs, extra_keys=()):
    """pairs with non-empty keys, sent as a query string, as an urlencoded body, and read through params"""
    import urllib.parse
    qs = urllib.parse.urlencode(pairs)
    exp = _fd_expected(pairs)
    bad = []
    for where, src in (('query', ('q', qs, b'')), ('forms', ('f', '', qs.encode('ascii'))), ('params', ('p', qs, b'')),
                       ('params', ('p', '', qs.encode('ascii')))):
        d = real_fd(src)
        missing = [k for k in list(extra_keys) + ['no_such_field', 'é-missing'] if k not in exp]
        for k, want in exp.items():
            got = _try(lambda: d[k])
            if got != ('ok', want):
                bad.append((f'formsdict:getitem:{_feat(want)}', f'{where}[{k!r}] = {got!r}, sent {want!r} ({qs!r})'))
            got = _try(lambda: d.get(k))
            if got != ('ok', want):
                bad.append((f'formsdict:get:{_feat(want)}', f'{where}.get({k!r}) = {got!r}, sent {want!r} ({qs!r})'))
            got = _try(lambda: d.get(k, 'dflt'))
            if got != ('ok', want):
                bad.append((f'formsdict:get-default:{_feat(want)}', f'{where}.get({k!r}, "dflt") = {got!r}, sent {want!r}'))
            if _try(lambda: k in d) != ('ok', True):
                bad.append(('formsdict:contains', f'{k!r} in {where} is not True ({qs!r})'))
            if k not in DICT_NAMES and not (k.startswith('__') and k.endswith('__')):
                got = _try(lambda: getattr(d, k))
                if got != ('ok', want):
                    bad.append((f'formsdict:attr:{_feat(want)}', f'getattr({where}, {k!r}) = {got!r}, sent {want!r} ({qs!r})'))
        for k in missing:
            got = _try(lambda: d[k])
            if got != ('err', 'KeyError'):
                bad.append(('formsdict:getitem-missing', f'{where}[{k!r}] = {got!r} for a key that was not sent ({qs!r})'))
            if _try(lambda: d.get(k)) != ('ok', None) or _try(lambda: d.get(k, 'dflt')) != ('ok', 'dflt'):
                bad.append(('formsdict:get-missing', f'{where}.get({k!r}[, default]) for a key that was not sent ({qs!r})'))
            if _try(lambda: k in d) != ('ok', False):
                bad.append(('formsdict:contains-missing', f'{k!r} in {where} for a key that was not sent ({qs!r})'))
            if k not in DICT_NAMES and not (k.startswith('__') and k.endswith('__')):
                got = _try(lambda: getattr(d, k))
                if got != ('ok', None):
                    bad.append(('formsdict:attr-missing', f'getattr({where}, {k!r}) = {got!r} for a field that was not sent ({qs!r})'))
        if _try(lambda: list(d.keys())) != ('ok', list(exp)) or _try(lambda: len(d)) != ('ok', len(exp)):
            bad.append(('formsdict:keys', f'{where}.keys() = {_try(lambda: list(d.keys()))!r}, sent {list(exp)!r}'))
        c = _try(lambda: d.copy())
        if c[0] != 'ok' or type(c[1]) is not type(d) or dict(c[1]) != exp or list(c[1]) != list(exp):
            bad.append(('formsdict:copy', f'{where}.copy() = {c!r}, expected {exp!r}'))
    return bad


def oracle_fd_total(qs):
    """any raw string: every accessor answers or raises the documented KeyError / AttributeError"""
    bad = []
    try:
        body = qs.encode('latin1')
    except UnicodeEncodeError:
        body = qs.encode('utf8')
    for where, src in (('query', ('q', qs, b'')), ('forms', ('f', '', body)), ('params', ('p', qs, body))):
        try:
            d = real_fd(src)
        except Exception as e:  # noqa
            bad.append((f'formsdict:raises:{type(e).__name__}', f'Request.{where} raises {type(e).__name__} on {qs!r}'))
            continue
        for k in list(d.keys())[:4] + ['zz', 'keys', '__x__', '', '__len__']:
            for what, fn, allowed in (('getitem', lambda: d[k], ('KeyError',)), ('get', lambda: d.get(k), ()),
                                      ('contains', lambda: k in d, ()), ('attr', lambda: getattr(d, k), ('AttributeError',)),
                                      ('copy', lambda: d.copy(), ())):
                r = _try(fn)
                if r[0] == 'err' and r[1] not in allowed:
                    bad.append((f'formsdict:raises:{r[1]}', f'{what} of {k!r} on Request.{where} of {qs!r} raises {r[1]}'))
            if k in d and _try(lambda: d[k])[0] != 'ok':
                bad.append(('formsdict:getitem', f'{k!r} is a key of Request.{where} of {qs!r} but cannot be read'))
        # protocol probes (`hasattr(x, '__html__')`, pickle, copy) must not be answered from the form data
        for name in ('__html__', '__x__', '__json__'):
            r = _try(lambda: getattr(d, name))
            if r != ('err', 'AttributeError'):
                bad.append(('formsdict:dunder-attr', f'getattr(Request.{where}, {name!r}) = {r!r} on {qs!r}: a dunder name that dict '
                                                     f'does not define must raise AttributeError'))
    return bad


def _feat(want):
    return 'list' if isinstance(want, list) else 'single'


def _try(fn):
    try:
        return ('ok', fn())
    except Exception as e:  # noqa
        return ('err', type(e).__name__)


def oracle_headers(headers, noise, via_request=True):
    """headers = [(name, value)] with names of letters / digits / hyphens, pairwise distinct after case folding;
    noise = other environ entries (no HTTP_ prefix, not a CGI header key)"""
    helpers, Request = mods()
    env = dict(noise)
    for n, v in headers:
        env[server_key(n)] = v
    snapshot = dict(env)
    h = Request(env).headers if via_request else helpers.WSGIHeaderDict(env)
    own = {k: v for k, v in env.items() if k not in snapshot}          # what Request itself put in (ombott.*)
    bad = []
    for n, v in headers:
        want = v.decode('latin1') if isinstance(v, bytes) else v
        for sp in {n, n.lower(), n.upper(), n.title(), n.replace('-', '_'), n.upper().replace('-', '_')}:
            if _try(lambda: h[sp]) != ('ok', want):
                bad.append(('headers:lookup', f'headers[{sp!r}] = {_try(lambda: h[sp])!r}; the request carried {n}: {v!r}'))
            if _try(lambda: sp in h) != ('ok', True):
                bad.append(('headers:contains', f'{sp!r} in headers is not True; the request carried {n}'))
            if _try(lambda: h.get(sp, 'dflt')) != ('ok', want):
                bad.append(('headers:get', f'headers.get({sp!r}) = {_try(lambda: h.get(sp))!r}; the request carried {n}: {v!r}'))
        if _try(lambda: h.raw(n)) != ('ok', v):
            bad.append(('headers:raw', f'headers.raw({n!r}) = {_try(lambda: h.raw(n))!r}; the environ holds {v!r}'))
    want_names = sorted(n.title() for n, _ in headers)
    got = _try(lambda: sorted(h.keys()))
    if got != ('ok', want_names):
        bad.append(('headers:keys', f'headers.keys() = {got!r}; the request carried {want_names!r}'))
    if _try(lambda: sorted(iter(h))) != ('ok', want_names):
        bad.append(('headers:iter', f'iter(headers) = {_try(lambda: sorted(iter(h)))!r}; the request carried {want_names!r}'))
    if _try(lambda: len(h)) != ('ok', len(headers)):
        bad.append(('headers:len', f'len(headers) = {_try(lambda: len(h))!r} for {len(headers)} headers'))
    want_items = sorted((n.title(), v.decode('latin1') if isinstance(v, bytes) else v) for n, v in headers)
    if _try(lambda: sorted(h.items())) != ('ok', want_items):
        bad.append(('headers:items', f'headers.items() = {_try(lambda: sorted(h.items()))!r}; expected {want_items!r}'))
    for k in list(noise) + ['X-Not-Sent', 'Not_Sent']:
        for sp in {k, k.replace('_', '-').title()}:
            if server_key(sp) in env:
                continue
            if _try(lambda: h[sp]) != ('err', 'KeyError') or _try(lambda: sp in h) != ('ok', False) or \
                    _try(lambda: h.get(sp, 'dflt')) != ('ok', 'dflt'):
                bad.append(('headers:not-sent-visible', f'{sp!r} was not sent as a header but headers[...] = {_try(lambda: h[sp])!r}'))
    before = list(env.items())
    name0 = headers[0][0] if headers else 'X-A'
    for what, fn, ok_allowed in (
            ('setitem', lambda: h.__setitem__('X-New', 'v'), False), ('setitem', lambda: h.__setitem__(name0, 'v'), False),
            ('delitem', lambda: h.__delitem__(name0), False), ('pop', lambda: h.pop(name0, None), not headers),
            ('popitem', lambda: h.popitem(), False), ('clear', lambda: h.clear(), not headers),
            ('update', lambda: h.update({'X-New': 'v'}), False), ('setdefault', lambda: h.setdefault('X-New', 'v'), False)):
        r = _try(fn)
        if list(env.items()) != before:
            bad.append(('headers:readonly', f'{what} through the header view changed the environ'))
            break
        if r[0] == 'ok' and not ok_allowed:
            bad.append(('headers:readonly', f'{what} through the header view did not raise'))
        if r[0] == 'err' and r[1] not in ('TypeError', 'KeyError'):
            bad.append((f'headers:raises:{r[1]}', f'{what} through the header view raises {r[1]}'))
    del own
    return bad


def _set_cookie_header(name, value):
    from ombott.response import Response
    r = Response()
    r.set_cookie(name, value)
    sc = [v for n, v in r.headerlist if n == 'Set-Cookie']
    return '; '.join(x.split(';')[0] for x in sc)


def oracle_cookie_attr(name, value):
    """an ASCII cookie set on a response and returned by the client, read through the CookieDict accessors"""
    _, Request = mods()
    bad = []
    hdr = _set_cookie_header(name, value)
    c = Request({'HTTP_COOKIE': hdr}).cookies
    for what, fn in (('getitem', lambda: c[name]), ('attr', lambda: getattr(c, name)), ('getunicode', lambda: c.getunicode(name)),
                     ('get', lambda: c.get(name)), ('getunicode-default', lambda: c.getunicode(name, 'dflt'))):
        r = _try(fn)
        if r != ('ok', value):
            bad.append((f'cookiedict:{what}', f'cookie {name}={value!r} set on a response reads back through {what} as {r!r} '
                                              f'(Cookie: {hdr!r})'))
    for what, fn, want in (('attr-missing', lambda: getattr(c, 'no_such_cookie'), None),
                           ('getunicode-missing', lambda: c.getunicode('no_such_cookie', 'dflt'), 'dflt')):
        r = _try(fn)
        if r != ('ok', want):
            bad.append((f'cookiedict:{what}', f'{what} = {r!r}, expected {want!r}'))
    return bad


def oracle_cookie_utf8(name, text):
    """a client that sends raw UTF-8 in a quoted cookie value (the server hands it over as Latin-1)"""
    _, Request = mods()
    hdr = f'{name}="' + text.encode('utf8').decode('latin1') + '"'
    c = Request({'HTTP_COOKIE': hdr}).cookies
    bad = []
    for what, fn in (('attr', lambda: getattr(c, name)), ('getunicode', lambda: c.getunicode(name))):
        r = _try(fn)
        if r != ('ok', text):
            bad.append((f'cookiedict:recode-{what}', f'raw UTF-8 cookie {text!r} reads through {what} as {r!r}'))
    r = _try(lambda: dict(c.decode()))
    if r != ('ok', {name: text}):
        bad.append(('cookiedict:decode', f'decode() of a raw UTF-8 cookie {text!r} = {r!r}'))
    return bad


def oracle_cookie_undecodable(name, text):
    """a cookie whose Latin-1 view is not valid UTF-8: `getunicode` returns "the value as a unicode string, or the
    default" - it does not raise - and attribute access gives None; item access still shows the raw value"""
    _, Request = mods()
    hdr = f'{name}="{text}"'
    c = Request({'HTTP_COOKIE': hdr}).cookies
    bad = []
    try:
        text.encode('latin1').decode('utf8')
        return bad                       # decodable after all: not this oracle's case
    except UnicodeError:
        pass
    for what, fn, want in (('attr', lambda: getattr(c, name), None), ('getunicode', lambda: c.getunicode(name, 'dflt'), 'dflt'),
                           ('getitem', lambda: c[name], text)):
        r = _try(fn)
        if r != ('ok', want):
            bad.append((f'cookiedict:undecodable-{what}', f'cookie {name}={text!r} (not UTF-8) read through {what}: {r!r}, expected {want!r}'))
    return bad


def oracle_auth(user, pwd, scheme='Basic', sep=' '):
    _, Request = mods()
    hdr = scheme + sep + base64.b64encode((user + ':' + pwd).encode('utf8')).decode('ascii')
    bad = []
    for ru in (None, 'someone'):
        env = {'HTTP_AUTHORIZATION': hdr}
        if ru:
            env['REMOTE_USER'] = ru
        r = _try(lambda: Request(env).auth)
        if r != ('ok', (user, pwd)):
            feat = 'colon-in-password' if ':' in pwd else 'non-ascii' if not (user + pwd).isascii() else 'empty' if not user or not pwd \
                else 'scheme-spelling' if (scheme, sep) != ('Basic', ' ') else 'plain'
            bad.append((f'auth:roundtrip:{feat}', f'auth of {hdr!r} (user {user!r}, password {pwd!r}) = {r!r}'))
    return bad


MALFORMED_AUTH = ['', ' ', 'Basic', 'Basic ', 'Basic !!!!', 'Basic QQ', 'Basic Q', 'Basic QUJD', 'Digest dTpw', 'Bearer abc', 'dTpw',
                  'Basic /w==', 'Basic dTpw extra', 'Basic\xa0dTpw', 'Basic dT\npw', 'Basic ====', 'Basic =dTpw', 'Basic €', 'Básic dTpw',
                  'Basic d', 'Basic dT', 'Basic dTp', 'Basic dTpw=', 'Basic  dTpw', 'NTLM', 'Basic: dTpw', 'Basic,dTpw']
DEFINITELY_NONE = ['', ' ', 'Basic', 'Basic ', 'Basic QUJD', 'Digest dTpw', 'Bearer abc', 'dTpw', 'Basic /w==', 'NTLM', 'Basic: dTpw',
                   'Basic,dTpw', 'Basic !!!!', 'Basic d', 'Basic dT', 'Basic dTp', 'Basic Q']


def oracle_auth_malformed(hdr, ruser):
    _, Request = mods()
    env = {}
    if hdr is not None:
        env['HTTP_AUTHORIZATION'] = hdr
    if ruser is not None:
        env['REMOTE_USER'] = ruser
    r = _try(lambda: Request(env).auth)
    bad = []
    if r[0] == 'err':
        bad.append((f'auth:raises:{r[1]}', f'auth raises {r[1]} for Authorization {hdr!r}'))
        return bad
    a = r[1]
    if not (a is None or (isinstance(a, tuple) and len(a) == 2 and isinstance(a[0], str) and (a[1] is None or isinstance(a[1], str)))):
        bad.append(('auth:shape', f'auth = {a!r} for Authorization {hdr!r}'))
    if hdr is None or hdr in DEFINITELY_NONE:
        want = (ruser, None) if ruser else None
        if a != want:
            bad.append(('auth:remote-user' if ruser else 'auth:malformed-not-none',
                        f'auth = {a!r} for Authorization {hdr!r}, REMOTE_USER {ruser!r}; expected {want!r}'))
    return bad


def oracle_route(ips, sep, ra):
    _, Request = mods()
    bad = []
    env = {'HTTP_X_FORWARDED_FOR': sep.join(ips)}
    if ra:
        env['REMOTE_ADDR'] = ra
    r = _try(lambda: Request(dict(env)).remote_route)
    if r != ('ok', ips):
        bad.append(('remote-route:split', f'remote_route of X-Forwarded-For {env["HTTP_X_FORWARDED_FOR"]!r} = {r!r}, expected {ips!r}'))
    r = _try(lambda: Request(dict(env)).remote_addr)
    if r != ('ok', ips[0]):
        bad.append(('remote-addr:first', f'remote_addr of X-Forwarded-For {env["HTTP_X_FORWARDED_FOR"]!r} = {r!r}, expected {ips[0]!r}'))
    for e2, want_r, want_a in (({'REMOTE_ADDR': ra} if ra else {}, [ra] if ra else [], ra or None),):
        if _try(lambda: Request(dict(e2)).remote_route) != ('ok', want_r) or _try(lambda: Request(dict(e2)).remote_addr) != ('ok', want_a):
            bad.append(('remote-route:fallback', f'without X-Forwarded-For, REMOTE_ADDR {ra!r}: remote_route = '
                                                 f'{_try(lambda: Request(dict(e2)).remote_route)!r}'))
    return bad


def oracle_xhr(value, want):
    _, Request = mods()
    env = {} if value is None else {'HTTP_X_REQUESTED_WITH': value}
    bad = []
    for attr in ('is_xhr', 'is_ajax'):
        r = _try(lambda: getattr(Request(dict(env)), attr))
        if r != ('ok', want):
            bad.append((f'{attr.replace("_", "-")}', f'{attr} for X-Requested-With {value!r} = {r!r}, expected {want!r}'))
    return bad


OR_NAMES = ['Host', 'User-Agent', 'Accept', 'X-A', 'X-B', 'X-Forwarded-For', 'Content-Type', 'Content-Length', 'Cookie', 'Authorization',
            'X-1', '1x', 'A1b2-C3', 'ETag', 'TE', 'X--Y', 'X', 'a', 'Z9', 'Content-Md5', 'Content', 'X-Content-Type', 'x-lower', 'UPPER-CASE']
OR_NOISE = {'REQUEST_METHOD': 'GET', 'PATH_INFO': '/', 'QUERY_STRING': 'a=1', 'SERVER_NAME': 's', 'REMOTE_ADDR': '1.2.3.4', 'X_A': 'noise',
            'http_x_b': 'noise', 'CONTENT_MD5': 'noise', 'wsgi.url_scheme': 'http', 'HTTP': 'noise'}
COOKIE_NAMES = ['sid', 'n', 'a', 'user_id', 'x1', 'Token', 'session']
ASCII_COOKIE_CHARS = 'abcXYZ019 ;,="\\/:-_.~!#$%&\'()*+<>?@[]^`{|}'


def gen_or_headers(rng):
    names, seen = [], set()
    for _ in range(rng.randint(0, 6)):
        n = rng.choice(OR_NAMES) if rng.random() < .8 else ''.join(rng.choice('abxyzABXYZ019-') for _ in range(rng.randint(1, 8)))
        k = n.upper()
        if k in seen or not n:
            continue
        seen.add(k)
        names.append(n)
    return [(n, gen_value(rng)) for n in names]


def search_stream(rng, n, pid, stats, seeds=()):
    """(evaluations, [Finding])"""
    cases = []
    if pid == 'C18':
        named = [[('a', '1')], [('a', '1'), ('a', '2')], [('a', '1'), ('b', 'x'), ('a', '2'), ('a', '3')], [('name', 'v'), ('keys', 'k')],
                 [('copy', 'c'), ('copy', 'd')], [('é', '€'), ('a b', 'c d')], [('_fix', '1'), ('getall', '2')], [('a', ''), ('a', '')],
                 [('__x__', '1'), ('x', '2')]]
        for p in named:
            cases.append(('fd', p))
        for s in seeds:
            if isinstance(s, dict) and s.get('sub') == 'fd':
                if s.get('pairs'):
                    cases.append(('fd', [tuple(p) for p in s['pairs'] if p[0]]))
                src = s.get('src') or ['q', '', '']
                cases.append(('fdraw', src[1] or bytes.fromhex(src[2]).decode('latin1')))
        from harness import c18 as _c18
        for _ in range(n // 2):
            cases.append(('fd', [(k, v) for k, v in (gen_fd_pairs(rng) if rng.random() < .6 else _c18.gen_pairs(rng)) if k]))
        for _ in range(n // 2):
            cases.append(('fdraw', _c18.gen_raw(rng)))
        for raw in ['', 'a', 'a=1&a=2', '&&=&a==', 'keys=1', '__x__=1', '%zz=%', 'a=1&b=2&a=3']:
            cases.append(('fdraw', raw))
    else:
        for s in seeds:
            if not isinstance(s, dict):
                continue
            if s.get('sub') == 'auth':
                if s.get('sent'):
                    cases.append(('auth', (s['sent'][0], s['sent'][1], 'Basic', ' ')))
                cases.append(('authbad', (s.get('header'), s.get('remote_user'))))
            if s.get('sub') == 'hdr':
                hs_ = [(k[5:].replace('_', '-'), v if isinstance(v, str) else bytes.fromhex(v[1])) for k, v in s.get('env', [])
                       if k.startswith('HTTP_') and k[5:] and k[5:].replace('_', '').isalnum() and k[5:].isupper()]
                cases.append(('hdr', (hs_, OR_NOISE, True)))
        for hs_ in ([], [('Host', 'h')], [('X-A', '1'), ('Content-Type', 't'), ('Content-Length', '3')], [('x-lower', 'v'), ('UPPER-CASE', b'\xe9')],
                    [('X-1', 'é'), ('1x', '€'), ('A1b2-C3', '')]):
            for via in (True, False):
                cases.append(('hdr', (hs_, OR_NOISE, via)))
        for u, p in [('u', 'p'), ('', 'p'), ('u', ''), ('', ''), ('u', 'a:b'), ('u', ':'), ('é', '€'), ('Aladdin', 'open sesame'), ('中', 'пароль'),
                     ('u', 'p\n'), (' u ', ' p ')]:
            for sch, sep in (('Basic', ' '), ('basic', ' '), ('BASIC', '  '), ('bAsIc', '\t')):
                cases.append(('auth', (u, p, sch, sep)))
        for h in MALFORMED_AUTH + [None]:
            for ru in (None, 'ruser', ''):
                cases.append(('authbad', (h, ru)))
        for ips, sep in [(['1.1.1.1'], ', '), (['1.1.1.1', '2.2.2.2'], ', '), (['::1', '10.0.0.1', 'unknown'], ','), (['a', 'b'], ' , ')]:
            for ra in ('9.9.9.9', None):
                cases.append(('rr', (ips, sep, ra)))
        for v, w in [('XMLHttpRequest', True), ('xmlhttprequest', True), ('XMLHTTPREQUEST', True), ('', False), (None, False), ('fetch', False),
                     ('XMLHttpRequest ', False), ('xXMLHttpRequest', False)]:
            cases.append(('xhr', (v, w)))
        for nm, v in [('sid', 'abc'), ('n', 'a b'), ('n', 'x;y=z'), ('a', '"q"'), ('a', 'back\\slash'), ('user_id', '42')]:
            cases.append(('ck', (nm, v)))
        for nm, t in [('n', 'é'), ('n', '€'), ('sid', 'aé€b'), ('a', '\U0001f600'), ('a', 'plain')]:
            cases.append(('cku', (nm, t)))
        for nm, t in [('n', 'é'), ('n', '\xff'), ('sid', 'a\xe9b'), ('a', '\xc3'), ('a', '\xe2\x82')]:
            cases.append(('ckx', (nm, t)))
        for _ in range(n):
            k = rng.randrange(10)
            if k < 3:
                cases.append(('hdr', (gen_or_headers(rng), OR_NOISE if rng.random() < .7 else {}, rng.random() < .5)))
            elif k < 5:
                sch, sep = (rng.choice(['Basic', 'basic', 'BASIC', 'bAsIc']), rng.choice([' ', '  ', '\t'])) if rng.random() < .3 else ('Basic', ' ')
                cases.append(('auth', (rng.choice(USERS).replace(':', ''), rng.choice(PASSWORDS), sch, sep)))
            elif k < 7:
                cases.append(('authbad', (gen_auth_header(rng)[0], rng.choice([None, 'ruser', '']))))
            elif k < 8:
                ips = [rng.choice([i for i in IPS if i.strip() and ',' not in i and i == i.strip()]) for _ in range(rng.randint(1, 4))]
                cases.append(('rr', (ips, rng.choice(XFF_SEPS), rng.choice([None, '9.9.9.9']))))
            elif k < 9:
                v = ''.join(rng.choice(ASCII_COOKIE_CHARS) for _ in range(rng.randint(1, 8)))
                cases.append(('ck', (rng.choice(COOKIE_NAMES), v)))
            elif rng.random() < .7:
                t = ''.join(rng.choice('abz019 é€中\U0001f600;=,') for _ in range(rng.randint(1, 6)))
                cases.append(('cku', (rng.choice(COOKIE_NAMES), t)))
            else:
                t = ''.join(rng.choice('ab \xe9\xff\xc3\xa9\x80;=') for _ in range(rng.randint(1, 5)))
                cases.append(('ckx', (rng.choice(COOKIE_NAMES), t)))
    findings, evals = [], 0
    for kind, x in cases:
        evals += 1
        try:
            if kind == 'fd':
                bad = oracle_fd(x)
            elif kind == 'fdraw':
                bad = oracle_fd_total(x)
            elif kind == 'hdr':
                bad = oracle_headers(*x)
            elif kind == 'auth':
                bad = oracle_auth(*x)
            elif kind == 'authbad':
                bad = oracle_auth_malformed(*x)
            elif kind == 'rr':
                bad = oracle_route(*x)
            elif kind == 'xhr':
                bad = oracle_xhr(*x)
            elif kind == 'ck':
                bad = oracle_cookie_attr(*x)
            elif kind == 'ckx':
                bad = oracle_cookie_undecodable(*x)
            else:
                bad = oracle_cookie_utf8(*x)
        except Exception as e:  # noqa: the oracle's own plumbing (Request construction, set_cookie) failed
            bad = [(f'helpers:{kind}:raises:{type(e).__name__}', f'{type(e).__name__}: {e} on {x!r}')]
        bump(stats, 'helpers:oracle-' + kind)
        for key, what in bad:
            findings.append(Finding(f'{pid}:{key}', what, dict(probe='helpers', kind=kind, value=_jsonable(x))))
    findings.sort(key=lambda f: len(repr(f.replay['value'])))
    return evals, findings


def _jsonable(x):
    if isinstance(x, bytes):
        return {'bytes': x.hex()}
    if isinstance(x, (list, tuple)):
        return [_jsonable(y) for y in x]
    if isinstance(x, dict):
        return {'dict': [[k, _jsonable(v)] for k, v in x.items()]}
    return x


def _unjson(x):
    if isinstance(x, dict) and 'bytes' in x:
        return bytes.fromhex(x['bytes'])
    if isinstance(x, dict) and 'dict' in x:
        return {k: _unjson(v) for k, v in x['dict']}
    if isinstance(x, list):
        return [_unjson(y) for y in x]
    return x


def replay_case(i, pid):
    """input-level replays carry {probe: helpers, kind, value}; correspondence samples carry {kind: helpers, sub, …}"""
    if i.get('probe') == 'helpers':
        kind, x = i['kind'], _unjson(i['value'])
        fn = dict(fd=lambda: oracle_fd([tuple(p) for p in x]), fdraw=lambda: oracle_fd_total(x),
                  hdr=lambda: oracle_headers([tuple(p) for p in x[0]], x[1], x[2]), auth=lambda: oracle_auth(*x),
                  authbad=lambda: oracle_auth_malformed(*x), rr=lambda: oracle_route(*x), xhr=lambda: oracle_xhr(*x),
                  ck=lambda: oracle_cookie_attr(*x), cku=lambda: oracle_cookie_utf8(*x),
                  ckx=lambda: oracle_cookie_undecodable(*x))[kind]
        return dict(input=i, oracle=[list(b) for b in fn()])
    out = dict(input=i)
    sub = i.get('sub')
    if sub == 'auth':
        out['auth_now'] = run_auth(i.get('header'), i.get('remote_user'))
    elif sub == 'hdr':
        env = {k: (v if isinstance(v, str) else bytes.fromhex(v[1])) for k, v in i['env']}
        ops = [tuple(tuple(x) if isinstance(x, list) and x and isinstance(x[0], list) else x for x in o) for o in i['ops']]
        ops = [tuple([o[0], [tuple(p) for p in o[1]]]) if o[0] == 'U' else o for o in ops]
        out['line'] = f'helpers hdr {env_token(env)} ' + ','.join(hdr_op_token(o) for o in ops)
        out['impl_now'] = ';'.join(run_hdr(env, ops, False))
    elif sub == 'fd':
        src = (i['src'][0], i['src'][1], bytes.fromhex(i['src'][2]))
        ops = [tuple(o) for o in i['ops']]
        out['line'] = f'helpers fd {fd_src_token(src)} ' + ','.join(fd_op_token(o) for o in ops)
        out['impl_now'] = ';'.join(run_fd(real_fd(src), ops))
    elif sub == 'cd':
        src = (i['src'][0], i['src'][1] if i['src'][0] == 'h' else [tuple(p) for p in i['src'][1]])
        ops = [tuple(o) for o in i['ops']]
        out['line'] = f'helpers cd {cd_src_token(src)} ' + ','.join(cd_op_token(o) for o in ops)
        out['impl_now'] = ';'.join(run_cd(real_cd(src), ops))
    return out


# --------------------------------------------------------------------------------------
# hooking the stream into an existing check

HP_ANCHORS = ['ombott/request_pkg/helpers.py', 'ombott/request_pkg/props_mixin.py']
HP_RULE = {
    'C15': (' || request helpers (helperslib): accessor sequences on the real WSGIHeaderDict (environ keys in every case, `_` vs `-`, '
            'the CGI keys in every spelling, near misses of the prefix, str / Latin-1 / wide / bytes values; reads and every '
            'MutableMapping mutator) and CookieDict (getitem, get, getunicode with every encoding spelling, attribute access incl. '
            'names that collide with dict methods and dunder names, decode and decode of a decoded copy; from Cookie headers and from '
            'pair lists with non-UTF-8 Latin-1 views), `auth` over scheme spellings x separators (every str.isspace class) x base64 '
            'with/without/with extra padding, foreign characters, truncation x payloads without colon / with colons in the password / '
            'empty user / non-UTF-8 bytes x REMOTE_USER, remote_route / remote_addr, is_xhr / is_ajax, base64.b64decode and '
            'str.split(None, 1) by themselves, vs Model/{WsgiHeaders,FormsDict,ReqProps}.lean; oracle: headers a server put into the '
            'environ are read back under every spelling, listed once under the title-cased name, nothing else is visible, mutators '
            'raise and leave the environ alone; ASCII cookies and raw UTF-8 cookies read back through attribute access; '
            'auth(Basic b64(user:pass)) == (user, pass), malformed -> None / REMOTE_USER, never an exception; remote_route is the joined '
            'list; is_xhr is the case-insensitive comparison'),
    'C18': (' || request helpers (helperslib): accessor sequences (item, get with default, in, keys, len, attribute access incl. names '
            'that collide with dict methods and dunder names, copy) on the real FormsDict of Request.query / .forms / .params for '
            'encoded pair lists with repeated keys and raw strings vs Model/FormsDict.lean over Model/Qs.lean; oracle: every key '
            'reads back as the sent string / the list in submission order through every accessor, a missing key is KeyError / default '
            '/ None, no accessor raises anything else on any raw string'),
}
HP_ASSUMPTIONS = {
    'C15': ['request helpers: header NAMES are ASCII in the model (str.upper / str.title of cased non-ASCII characters are outside it '
            'and outside the generators); environ values are str or bytes; codec names outside the generator pool '
            '(utf8 / latin1 / ascii spellings) are LookupError in the model; base64.b64decode (validate=False) is modelled as the '
            'binascii state machine of CPython 3.12 and compared on every run'],
    'C18': ['request helpers: a FormsDict instance carries no instance attributes of its own (the framework sets none); attribute '
            'names found by normal lookup are the generated hpFormsDictAttrs (CPython 3.12 dir(dict))'],
}


HP_NOTE = {
    'C15': ('request helpers (WSGIHeaderDict, CookieDict, auth, remote_route, is_xhr): header names ASCII; the view lists but cannot '
            'read back environ keys no WSGI server produces (lower-case / hyphenated tail after HTTP_, HTTP_CONTENT_TYPE); cookie '
            'attribute access round-trips ASCII values (a character in U+0080..U+00FF is sent octal-escaped and reads as None: the '
            'mirror image of the recorded finding); a decoded CookieDict copy decodes again on attribute access; '
            'getunicode(encoding=<unknown codec>) raises LookupError; X-Forwarded-For entries are not validated'),
    'C18': ('FormsDict accessors: a form field named like a dict method / class attribute is shadowed on attribute access (item '
            'access still reads it); dunder names raise AttributeError'),
}


def install(cls, quick=None, thorough=None):
    """adds the helper stream to check class `cls`: table, anchors, correspondence, oracle, replay"""
    pid = cls.pid
    quick = quick or {'C15': (2600, 700), 'C18': (1500, 500)}[pid]
    thorough = thorough or {'C15': (60000, 12000), 'C18': (30000, 8000)}[pid]
    cls.tables = list(cls.tables) + ['helpers']
    cls.anchors = list(cls.anchors) + [a for a in HP_ANCHORS if a not in cls.anchors]
    cls.rule = cls.rule + HP_RULE[pid]
    cls.assumptions = list(cls.assumptions) + HP_ASSUMPTIONS[pid]
    cls.level_note_extra = (cls.level_note_extra + '; ' if cls.level_note_extra else '') + HP_NOTE[pid]
    o_budget, o_corr, o_search, o_replay, o_nontrivial = cls.budget, cls.corr, cls.search, cls.replay, cls.nontrivial

    def budget(self, tier, escalated):
        self._hp = (tier, escalated)
        return o_budget(self, tier, escalated)

    def sizes(self):
        tier, esc = getattr(self, '_hp', ('quick', False))
        a, b = quick if tier == 'quick' else thorough
        return (a * 3, b * 3) if (esc and tier == 'quick') else (a, b)

    def corr(self, rng, n):
        out = o_corr(self, rng, n)
        if not hasattr(self, 'stats') or self.stats is None:
            self.stats = {}
        out += corr_stream(rng, sizes(self)[0], pid, self.stats)
        return out

    def search(self, rng, n, seeds):
        mine = [s for s in seeds if isinstance(s, dict) and s.get('kind') == 'helpers']
        evals, findings = o_search(self, rng, n, [s for s in seeds if not (isinstance(s, dict) and s.get('kind') == 'helpers')])
        if not hasattr(self, 'stats') or self.stats is None:
            self.stats = {}
        try:
            ev, fs = core.with_timeout(lambda: search_stream(rng, sizes(self)[1], pid, self.stats, mine), 120)
        except core.Hang:
            ev, fs = 1, [Finding(f'{pid}:helpers:hang', 'an accessor of the request helper classes did not terminate '
                                 '(120 s of CPU time in the helpers oracle stream)', dict(probe='helpers', sub='hang'))]
        return evals + ev, list(findings) + fs

    def replay(self, data):
        i = data.get('input')
        if isinstance(i, dict) and (i.get('probe') == 'helpers' or i.get('kind') == 'helpers'):
            return replay_case(i, pid)
        return o_replay(self, data)

    def nontrivial(self, sample):
        if isinstance(sample, dict) and sample.get('kind') == 'helpers':
            sub = sample.get('sub')
            if sub in ('hdr', 'fd', 'cd'):
                return len(sample.get('ops', [])) >= 2
            if sub == 'auth':
                return bool(sample.get('header'))
            return True
        return o_nontrivial(self, sample)

    cls.budget, cls.corr, cls.search, cls.replay, cls.nontrivial = budget, corr, search, replay, nontrivial
    return cls
