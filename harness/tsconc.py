"""Shared machinery of C08 and C10: request specifications, the handler interpreter that runs on
the real code, the execution of a case under harness/sched.py, and the encoding of the same case
as one protocol line for the Lean driver (Drv/TsProps.lean).

A *case* is
    dict(apps=[app ids constructed by the main thread before the workers start, in order],
         threads={tid: [item, ...]},           item = ('serve', req) | ('construct', app_id)
         switches=[(step, next_tid), ...],     preemption points for harness/sched.py
         cfg={app_id: dict(debug=bool, custom=[status codes with an @app.error handler],
                           before=[op, ...], after=[op, ...])})   application configuration
a *request* is
    dict(app=app id, rid=route id, method, qs, cookie, hdrs={name: value}, body=str, ctype=str|None,
         kind='handler'|'notfound'|'notallowed'|'badpath', ops=[op, ...], out=outcome,
         chunks=[sizes] (the body travels chunked, chunk sizes cycling through the list),
         parts=[(name, filename|None, content type|None, {extra part header: value}, data)], boundary=str
               (the body is multipart/form-data built from the parts))
Everything a request carries is a function of the request (never of the worker thread), so that a
difference between two runs can only come from the code under test.

Application id 0 is the module level default application (`ombott.Globals.app`).
"""
import ast
import html
import io
import json
import os
import pickle
import select
import re
import threading
import urllib.parse

from harness import core, sched
from harness.core import hs

ALNUM = 'abcdefghijklmnopqrstuvwxyz0123456789'


class RepoCode:
    """lazy access to the modules of the repository under test"""
    _m = None

    @classmethod
    def get(cls):
        if cls._m is None:
            import ombott
            from ombott.ombott import Ombott, Globals, HTTPResponse, HTTPError
            from ombott.router.radirouter import RadiRouter
            from ombott.response import _HTTP_STATUS_LINES
            from ombott import error_render
            from ombott.common_helpers import cookie_encode, touni
            cls._m = dict(Ombott=Ombott, Globals=Globals, HTTPResponse=HTTPResponse, HTTPError=HTTPError,
                          RadiRouter=RadiRouter, LINES=_HTTP_STATUS_LINES, error_render=error_render,
                          cookie_encode=cookie_encode, touni=touni)
            cls._m['STATE'] = discover_module_state()
            cls._m['LINES0'] = dict(_HTTP_STATUS_LINES)      # as imported, before any request ran
        return cls._m


def discover_module_state():
    """module-level and class-level mutable containers of the package under test:
    [(qualified name, object, lazy)], lazy = empty now (called right after the first import), i.e. a
    cache that is filled on first use.  Same walk as harness/tables/tsprops.module_state."""
    import sys
    root = os.path.join(os.path.realpath(core.REPO), 'ombott') + os.sep
    out = []
    for mname, mod in sorted(sys.modules.items()):
        f = getattr(mod, '__file__', None)
        if not f or not os.path.realpath(f).startswith(root):
            continue
        for k, v in sorted(vars(mod).items()):
            if k.startswith('__'):
                continue
            if isinstance(v, (list, dict, set)):
                out.append(('%s.%s' % (mname, k), v, len(v) == 0))
            elif isinstance(v, type) and v.__module__ == mname:
                for ck, cv in sorted(vars(v).items()):
                    if not ck.startswith('__') and isinstance(cv, (list, dict, set)):
                        out.append(('%s.%s.%s' % (mname, k, ck), cv, len(cv) == 0))
    return out


def cold_reset():
    """empty every lazily filled module-level cache: the next run starts like a cold process"""
    for name, obj, lazy in RepoCode.get()['STATE']:
        if lazy:
            obj.clear()


def _snap(x, depth=0):
    """structural snapshot without object ids; functions by name and closure contents"""
    if depth > 5:
        return type(x).__name__
    if isinstance(x, dict):
        return ('dict', tuple(sorted((repr(k), _snap(v, depth + 1)) for k, v in x.items())))
    if isinstance(x, (list, tuple)):
        return (type(x).__name__, tuple(_snap(v, depth + 1) for v in x))
    if isinstance(x, (set, frozenset)):
        return ('set', tuple(sorted(repr(v) for v in x)))
    if isinstance(x, (str, bytes, int, float, bool, type(None))):
        return x
    if isinstance(x, re.Pattern):
        return ('re', x.pattern)
    if isinstance(x, type):
        return ('class', x.__name__)
    if callable(x) and hasattr(x, '__code__'):
        cells = getattr(x, '__closure__', None) or ()
        inner = []
        for c in cells:
            try:
                inner.append(_snap(c.cell_contents, depth + 1))
            except ValueError:
                inner.append('<empty cell>')
        return ('fn', getattr(x, '__qualname__', '?'), tuple(inner), _snap(getattr(x, '__defaults__', None), depth + 1))
    slots = []
    for c in type(x).__mro__:
        slots += [sl for sl in getattr(c, '__slots__', ()) if sl not in ('__dict__', '_ts', 'headers')]
    d = dict(getattr(x, '__dict__', {}) or {})
    for sl in slots:
        try:
            d[sl] = getattr(x, sl)
        except AttributeError:
            pass
    if isinstance(x, BaseException):
        d['__traceback__'] = x.__traceback__ is not None
    return (type(x).__name__, _snap(d, depth + 1)) if d else type(x).__name__


def module_snapshot():
    """what the module-level / class-level containers of the package hold now"""
    return tuple((name, _snap(obj)) for name, obj, lazy in RepoCode.get()['STATE'])


def status_line(code):
    """the status line of a numeric status as the freshly imported package spells it (a copy taken at
    import: whatever a run does to the live table does not reach the expectation)"""
    return RepoCode.get()['LINES0'].get(code) or '%d Unknown' % code


# --------------------------------------------------------------------------------------
# values and observations (mirror of showPVal / renderResp in Model/WsgiConc.lean)

def show(v):
    if v is None:
        return '~'
    if isinstance(v, bool):
        return 'b1' if v else 'b0'
    if isinstance(v, int):
        return 'i%d' % v
    if isinstance(v, float):
        return 'f%r' % v
    if isinstance(v, dict):
        return 'd' + ';'.join('%s=%s' % (k, show(x)) for k, x in sorted(v.items()))
    if isinstance(v, bytes):
        return 's' + v.decode('latin1')
    if isinstance(v, str):
        return 's' + v
    if isinstance(v, (list, tuple)):
        return 'l' + '\x1f'.join(str(x) for x in v)
    return 's<' + type(v).__name__ + '>'


_PAGE = re.compile(r'<title>Error: (.*?)</title>.*?<tt>(.*?)</tt>.*?<pre>(.*?)</pre>.*?<pre>(.*?)</pre>.*?<pre>(.*?)</pre>',
                   re.S)
FORBIDDEN = '-] Forbidden [-'


def canon_tb(tb):
    """None -> ~; a Python traceback -> <tb> (it names files and line numbers); anything else as is"""
    if tb in (None, 'None'):
        return '~'
    if str(tb).lstrip().startswith('Traceback (most recent call last)'):
        return '<tb>'
    return str(tb)


def canon_body(body):
    """an error page becomes the tuple the model uses (E: HTML, D: HTML with debug, J: JSON);
    anything else is the text itself"""
    text = body.decode('utf8', 'replace')
    if text.startswith('<!doctype html>'):
        m = _PAGE.search(text)
        if m:
            try:
                url = html.unescape(ast.literal_eval(m.group(2)))
            except (ValueError, SyntaxError):
                url = m.group(2)
            st, txt = html.unescape(m.group(1)), html.unescape(m.group(3))
            exc, tb = html.unescape(m.group(4)), html.unescape(m.group(5))
            if exc == FORBIDDEN and tb == FORBIDDEN:
                return 'E(%s|%s|%s)' % (st, url, txt)
            return 'D(%s|%s|%s|%s|%s)' % (st, url, txt, exc, canon_tb(tb))
    if text.startswith('{"body": '):
        try:
            d = json.loads(text)
            if set(d) == {'body', 'exception', 'traceback'}:
                return 'J(%s|%s|%s)' % (d['body'], d['exception'], canon_tb(d['traceback']))
        except ValueError:
            pass
    return text


def render_resp(status, headers, body):
    canon = canon_body(body)
    if canon[:2] in ('E(', 'D(', 'J(') and body[:2] not in (b'E(', b'D(', b'J('):
        # the length of a page is reported as the length of its canonical form
        headers = [(k, str(len(canon.encode('utf8'))) if k == 'Content-Length' and v == str(len(body)) else v)
                   for k, v in headers]
    lines = sorted('%s: %s' % (k, v) for k, v in headers)
    return status + '\n' + '\n'.join(lines) + '\n\n' + canon


# --------------------------------------------------------------------------------------
# requests

SHOWN = '\x00'      # marks a model value that is already in `show` form


def multi_pairs(s, sep='&'):
    """key -> value, or list of values when the key repeats (what FormsDict holds)"""
    out = {}
    for part in s.split(sep):
        if '=' in part:
            k, v = part.split('=', 1)
            if k in out:
                out[k] = (out[k] if isinstance(out[k], list) else [out[k]]) + [v]
            else:
                out[k] = v
    return out


def dump_of(d):
    """canonical text of a mapping an accessor hands out"""
    return show({k: (v if isinstance(v, (str, list, int, float, type(None))) else '<%s>' % type(v).__name__)
                 for k, v in dict(d).items()})


def expected_dumps(req):
    """what every accessor of the request must show, from the request's own data"""
    env = wsgi_env(req)
    q = multi_pairs(req.get('qs', ''))
    f = multi_pairs(req.get('body', '')) if (req.get('ctype') or '').startswith('application/x-www-form-urlencoded') \
        and not req.get('parts') else {}
    hd = {}
    for k, v in env.items():
        if k.startswith('HTTP_'):
            hd[k[5:].replace('_', '-').title()] = v
        elif k in ('CONTENT_TYPE', 'CONTENT_LENGTH'):
            hd[k.replace('_', '-').title()] = v
    return dict(query=q, cookies=simple_pairs(req.get('cookie') or '', ';'), headers=hd, forms=f, post=f, files={},
                params=dict(q, **f), urlargs=dict(req.get('kwargs') or {}))


def simple_pairs(s, sep):
    out = {}
    for part in s.split(sep):
        part = part.strip()
        if '=' in part:
            k, v = part.split('=', 1)
            out.setdefault(k, v)
    return out


def req_path(req):
    if req.get('path') is not None:
        return req['path']
    if req['kind'] == 'badpath':
        return '/r%d\xff' % req['rid']
    if req['kind'] == 'notfound':
        return '/nf%d' % req['rid']
    return '/r%d' % req['rid']


def payload(req):
    """the body before transfer coding: given, or multipart/form-data built from the parts"""
    if req.get('parts'):
        out = []
        for name, filename, ctype, extra, data in req['parts']:
            out.append('--' + req['boundary'])
            disp = 'Content-Disposition: form-data; name="%s"' % name
            if filename is not None:
                disp += '; filename="%s"' % filename
            out.append(disp)
            if ctype is not None:
                out.append('Content-Type: ' + ctype)
            for k, v in extra.items():
                out.append('%s: %s' % (k, v))
            out.append('')
            out.append(data)
        out.append('--' + req['boundary'] + '--')
        out.append('')
        return '\r\n'.join(out)
    return req.get('body', '')


def wire_body(req):
    data = payload(req).encode('latin1')
    sizes = req.get('chunks')
    if not sizes:
        return data
    out, i, k = [], 0, 0
    while i < len(data):
        n = max(1, sizes[k % len(sizes)])
        part = data[i:i + n]
        # every request spells its chunk sizes differently (digits, case, an extension)
        out.append(('%x' % len(part)).encode() + (b';e=%d' % k if k % 2 else b'') + b'\r\n' + part + b'\r\n')
        i += n
        k += 1
    out.append(b'0\r\n\r\n')
    return b''.join(out)


def content_type(req):
    if req.get('parts'):
        return 'multipart/form-data; boundary=' + req['boundary']
    return req.get('ctype')


SECRET = 'k3y'


def signed_text(name, payload):
    """the Cookie / Set-Cookie text of a signed cookie (pure functions of the repository and stdlib)"""
    from http.cookies import SimpleCookie
    m = RepoCode.get()
    c = SimpleCookie()
    c[name] = m['touni'](m['cookie_encode']((name, payload), SECRET))
    return c[name].OutputString()


def edited(payload, marker):
    """what the handler's in-place edit makes of the decoded payload"""
    if isinstance(payload, list):
        return payload + [marker]
    return dict(payload, edit=marker)


def kwargs_text(kw):
    return ';'.join('%s=%s' % (k, show(v)) for k, v in sorted(kw.items()))


def wsgi_env(req):
    """the environ a server would hand over; a fresh dict and fresh streams on every call"""
    body = wire_body(req)
    env = {'REQUEST_METHOD': req['method'], 'PATH_INFO': req_path(req), 'QUERY_STRING': req.get('qs', ''),
           'SERVER_NAME': 'h', 'SERVER_PORT': '80', 'wsgi.url_scheme': 'http', 'SERVER_PROTOCOL': 'HTTP/1.1',
           'wsgi.input': io.BytesIO(body), 'wsgi.errors': io.StringIO()}
    if req.get('chunks'):
        env['HTTP_TRANSFER_ENCODING'] = 'chunked'
    else:
        env['CONTENT_LENGTH'] = str(len(body))
    if content_type(req) is not None:
        env['CONTENT_TYPE'] = content_type(req)
    cookie = req.get('cookie') or ''
    for name, payload in sorted((req.get('signed') or {}).items()):
        cookie = (cookie + '; ' if cookie else '') + signed_text(name, payload)
    if cookie:
        env['HTTP_COOKIE'] = cookie
    for k, v in (req.get('hdrs') or {}).items():
        env['HTTP_' + k.upper().replace('-', '_')] = v
    return env


def model_env(req):
    """the same environ as the model sees it: the string entries, and the parsed views a handler can
    ask for (pseudo keys `#...`), computed here from this request alone with plain string splitting
    (payloads are alphanumeric, so no decoding rule is involved)"""
    env = wsgi_env(req)
    d = {}
    for k, v in env.items():
        d[k] = v if isinstance(v, str) else '<' + k + '>'
    qs = req.get('qs', '')
    for k, v in simple_pairs(qs, '&').items():
        d['#q:' + k] = v
    for k, v in simple_pairs(req.get('cookie') or '', ';').items():
        d['#c:' + k] = v
    if req.get('parts'):
        for name, filename, ctype, extra, data in req['parts']:
            if filename is None:
                d.setdefault('#f:' + name, data)
            else:
                d['#file:%s:filename' % name] = filename
                d['#file:%s:data' % name] = data
                if ctype is not None:
                    d['#file:%s:ctype' % name] = ctype
                for k, v in extra.items():
                    d['#file:%s:hdr:%s' % (name, k)] = v
    elif (req.get('ctype') or '').startswith('application/x-www-form-urlencoded'):
        for k, v in simple_pairs(req.get('body', ''), '&').items():
            d['#f:' + k] = v
    for name, pl in (req.get('signed') or {}).items():
        d['#sc:' + name] = SHOWN + show(pl)
    d['#kwargs'] = kwargs_text(req.get('kwargs') or {})
    d['#rule'] = req.get('rule') or ('/r%d' % req['rid'])
    if any(op[0] == 'dump' for op in req.get('ops') or []):
        for what, val in expected_dumps(req).items():
            d['#dump:' + what] = dump_of(val)
    d['#body'] = payload(req)
    d['#url'] = 'http://h' + urllib.parse.quote(req_path(req)) + ('?' + qs if qs else '')
    return d


def walk_reqs(items):
    """all requests of a list of items, nested ones included, outermost first"""
    for it in items:
        if it[0] == 'serve':
            yield from _walk_req(it[1])


def _walk_req(req):
    yield req
    for op in req.get('ops') or []:
        if op[0] == 'nested':
            yield from _walk_req(op[1])


def case_reqs(case):
    for tid in sorted(case['threads']):
        yield from walk_reqs(case['threads'][tid])


def case_apps(case):
    ids = list(case.get('apps', []))
    for tid in sorted(case['threads']):
        for it in case['threads'][tid]:
            if it[0] in ('construct', 'poke', 'pokeattr', 'idle'):
                ids.append(it[1])
    for r in case_reqs(case):
        for op in r.get('ops') or []:
            if op[0] == 'construct':
                ids.append(op[1])
    return ids


# --------------------------------------------------------------------------------------
# protocol line

def enc_dict(d):
    if not d:
        return '-'
    return '&'.join('%s:%s' % (hs(k), 'n' if v is None else 's' + hs(v)) for k, v in d.items())


def enc_op(op, cfgs=None, app=None, st=None):
    """`st` (one dict per protocol line): (app, event) -> number of listeners the handlers of `app` have
    subscribed to `app.request` so far in program order.  A listener is a statement of the application that
    subscribed it: in the model line it is spelled out as the read it makes (`envget <key>`) after every
    `reqset` / `reqemit` of THAT application - and of no other.  (Arrangements keep all statements of one
    application on one thread, so program order is the order of the line.)"""
    k = op[0]
    st = {} if st is None else st
    if k == 'listen':
        st[(app, op[1])] = st.get((app, op[1]), 0) + 1
        return []
    if k == 'unlisten':
        st[(app, op[1])] = max(0, st.get((app, op[1]), 0) - 1)
        return []
    if k == 'reqset':
        return ['reqset', hs(op[1]), hs(op[2])] + ['envget', hs(op[1])] * st.get((app, 'env_changed'), 0)
    if k == 'reqemit':
        return ['envget', hs(op[2])] * st.get((app, op[1]), 0)
    if k in ('path', 'method', 'body', 'url', 'rdstatus', 'copy', 'kwargs', 'urlargs', 'whoami'):
        return [k]
    if k in ('dump', 'mutate', 'extget'):
        return [k, hs(op[1])]
    if k in ('envset', 'extset'):
        return [k, hs(op[1]), hs(op[2])]
    if k == 'statusline':
        return ['status', op[1].split()[0], hs(op[1])]
    if k == 'scookie':
        return [k, hs(op[1])]
    if k == 'scookie_edit':
        # read, edit in place, set again, read again
        return ['scookie', hs(op[1]), 'setcookie', hs(op[1]), hs(signed_text(op[1], edited(op[2], op[3]))),
                'scookie', hs(op[1])]
    if k in ('query', 'cookie', 'envget', 'form', 'rdhdr', 'ctype'):
        return [k, hs(op[1])]
    if k == 'file':
        return [k, hs(op[1]), hs(op[2])]
    if k == 'header':
        return [k, hs(op[1]), hs('HTTP_' + op[1].upper().replace('-', '_'))]
    if k == 'status':
        return [k, str(op[1]), hs(status_line(op[1]))]
    if k in ('sethdr', 'addhdr'):
        return [k, hs(op[1]), hs(op[2])]
    if k == 'setcookie':
        return [k, hs(op[1]), hs('%s=%s' % (op[1], op[2]))]
    if k == 'cpath':
        return [k, str(op[1])]
    if k == 'cset':
        return [k, str(op[1]), hs(op[2]), hs(op[3])]
    if k == 'cheader':
        return [k, str(op[1]), hs(op[2]), hs('HTTP_' + op[2].upper().replace('-', '_'))]
    if k == 'nested':
        return [k] + enc_req(op[1], cfgs, st)
    if k == 'construct':
        return [k, str(op[1])]
    raise ValueError(op)


def enc_out(out):
    k = out[0]
    if k == 'ret':
        return ['ret', hs(out[1])]
    if k == 'retb':
        return ['retb', hs(out[1])]
    if k == 'empty':
        return ['empty']
    if k == 'raise':
        return ['raise', str(out[1]), hs(status_line(out[1])), hs(out[2]), enc_dict(out[3])]
    if k == 'error':
        return ['error', str(out[1]), hs(status_line(out[1])), hs(out[2])]
    if k == 'crash':
        return ['crash', hs(status_line(500)), hs(CRASH_REPR)]
    if k == 'failjson':
        return ['failjson', hs('BodyParsingError')]
    if k == 'failform':
        return ['failform', hs('BodySizeError')]
    if k == 'failmultipart':
        return ['failmultipart', hs('BodyParsingError')]
    if k == 'redirect':
        return ['redirect', hs(out[1]), hs(status_line(303))]
    raise ValueError(out)


CRASH_REPR = "ZeroDivisionError('integer division or modulo by zero')"
NO_CFG = dict(debug=False, custom=[], before=[], after=[])
MEMFILE_MAX = 512         # max_memfile_size of every application the harness configures


def enc_req(req, cfgs=None, st=None):
    st = {} if st is None else st
    cfg = dict(NO_CFG, **((cfgs or {}).get(req['app']) or {}))
    toks = ['R', str(req['app']), enc_dict(model_env(req)), '1' if cfg['debug'] else '0',
            ','.join(str(c) for c in cfg['custom']) or '-', 'B']
    for op in cfg['before']:
        toks += enc_op(op, cfgs, req['app'], st)
    toks.append('A')
    for op in cfg['after']:
        toks += enc_op(op, cfgs, req['app'], st)
    kind = req['kind']
    if kind == 'handler':
        toks.append('H')
        for op in req['ops']:
            toks += enc_op(op, cfgs, req['app'], st)
        toks += enc_out(req['out'])
    elif kind == 'notfound':
        toks += ['NF', hs(status_line(404)), hs('Not Found')]
    elif kind == 'notallowed':
        toks += ['NA', hs(status_line(405)), hs('Method not allowed.'), hs('PUT')]
    elif kind == 'badpath':
        toks += ['BP', hs(status_line(400))]
    else:
        raise ValueError(kind)
    return toks


def enc_items(items, cfgs=None, st=None):
    toks = []
    st = {} if st is None else st
    for it in items:
        if it[0] == 'serve':
            toks += ['serve'] + enc_req(it[1], cfgs, st)
        elif it[0] in ('poke', 'pokeattr'):
            toks += [it[0], str(it[1]), hs(it[2]), hs(it[3])]
        elif it[0] == 'idle':
            toks += ['idle', str(it[1])]
        else:
            toks += ['construct', str(it[1])]
    return toks


def case_line(case, events, variant='fixed', op='run', multi=None):
    """`events`: thread ids of the recorded store accesses in global order (workers only); the main
    thread (0) constructs the initial applications first"""
    if multi is None:
        multi = is_multi(case)
    toks = ['tsprops', op, variant, '1' if multi else '0']
    toks += ['T', '0'] + enc_items([('construct', a) for a in case.get('apps', [])])
    st = {}
    for tid in sorted(case['threads']):
        toks += ['T', str(tid)] + enc_items(case['threads'][tid], case.get('cfg'), st)
    toks += ['EV', ','.join(['1000'] + [str(t) for t in events])]
    return ' '.join(toks)


def is_multi(case):
    return len(set(case_apps(case))) > 1


def answer(obs_by_thread, tids):
    parts = []
    for t in tids:
        obs = obs_by_thread.get(t) or []
        parts.append('T%d ' % t + (','.join('%d:%s' % (a, hs(o)) for a, o in obs) if obs else '-'))
    return ' ; '.join(parts)


# --------------------------------------------------------------------------------------
# running a case on the real code

class World:
    """one execution of a case"""

    def __init__(self, case, multi=None):
        self.case = case
        self.m = RepoCode.get()
        self.multi = is_multi(case) if multi is None else multi
        self.reg = sched.Registry(multi=self.multi)
        self.apps = {}
        self.handed = []
        self.subs = {}                       # (app id, event) -> unsubscribe closures of the listeners handlers added
        self.tl = threading.local()          # the harness' own per-thread observation list
        self.obs = {}
        self.reqs = list(case_reqs(case))

    # -- applications ---------------------------------------------------------------
    def construct(self, app_id):
        m = self.m
        cfg = dict(NO_CFG, **((self.case.get('cfg') or {}).get(app_id) or {}))
        conf = {'max_memfile_size': MEMFILE_MAX, 'debug': bool(cfg['debug'])}
        if app_id == 0:
            app = m['Globals'].app
            # configuration time: a clean route table, error handlers, hooks and config per case
            app.router = m['RadiRouter']()
            app.error_handlers = {'404-hooks': {}}
            app.__dict__.pop('_hooks', None)
            app.setup(conf)
        else:
            app = m['Ombott'](conf)
        self.apps[app_id] = app
        self.reg.add_app(app_id, app)
        world = self
        for code in cfg['custom']:
            app.error(code)(lambda res, _a=app_id: h_error(world, _a, res))
        if cfg['before']:
            app.add_hook('before_request', lambda _a=app_id, _ops=cfg['before']: h_hook(world, _a, _ops))
        if cfg['after']:
            app.add_hook('after_request', lambda _a=app_id, _ops=cfg['after']: h_hook(world, _a, _ops))
        seen = set()
        for r in self.reqs:
            if r['app'] != app_id or (r['rid'] in seen and not r.get('rule')):
                continue
            seen.add(r['rid'])
            if r['kind'] == 'handler' and r.get('rule'):
                key = (r['rule'], r['method'])
                if key not in seen:       # one route object for the whole family of requests
                    seen.add(key)
                    app.route(r['rule'], method=r['method'], callback=self.make_handler(app_id, r))
            elif r['kind'] == 'handler':
                app.route('/r%d' % r['rid'], method=r['method'], callback=self.make_handler(app_id, r))
            elif r['kind'] == 'notallowed':
                app.route('/r%d' % r['rid'], method='PUT', callback=lambda: 'never')
        return app

    # -- the handler interpreter (its code object is traced line by line) -------------
    def make_handler(self, app_id, req):
        world = self

        rule = req.get('rule') or ('/r%d' % req['rid'])

        def handler(**kw):
            world.tl.kw = kw
            world.tl.rule = rule            # which handler object the router picked
            cur = getattr(world.tl, 'cur', None)
            # several requests may share one route: the statements are those of the request being served
            mine = cur[-1] if cur and cur[-1]['app'] == app_id and (cur[-1].get('rule') or '') == (req.get('rule') or '') \
                and cur[-1].get('rule') else req
            return h_script(world, app_id, mine)
        return handler

    def serve(self, req):
        app = self.apps[req['app']]
        env = wsgi_env(req)
        got = []
        if not hasattr(self.tl, 'cur'):
            self.tl.cur = []
        self.tl.cur.append(req)
        self.nserve = getattr(self, 'nserve', 0) + 1
        self.tl.sid = (self.tl.sid if hasattr(self.tl, 'sid') else []) + [self.nserve]
        try:
            body = app(env, lambda st, hd, exc=None: got.append((st, list(hd))))
        finally:
            self.tl.cur.pop()
            self.tl.sid.pop()
        data = b''.join(body)
        close = getattr(body, 'close', None)
        if close:
            close()
        st, hd = got[-1] if got else ('<no start_response>', [])
        self.tl.obs.append((req['app'], 'w:' + render_resp(st, hd, data)))

    def run_items(self, tid, items):
        self.tl.obs = self.obs.setdefault(tid, [])
        for it in items:
            if it[0] == 'serve':
                self.serve(it[1])
            elif it[0] == 'poke':
                self.apps[it[1]].request[it[2]] = it[3]          # BaseRequest.__setitem__ on the idle request
            elif it[0] == 'pokeattr':
                setattr(self.apps[it[1]].request, it[2], it[3])   # BaseRequest.__setattr__
            elif it[0] == 'idle':
                self.tl.obs.append((it[1], 'i:' + self.idle_view(it[1])))
            else:
                self.construct(it[1])

    def subscribe(self, app_id, rq, event):
        """`app.request.on(event, cb)`: the callback shows - as a read of the application that SUBSCRIBED it,
        in the thread it is called on - the value the changed key has in the request it is called for"""
        world = self

        def cb(request, key, value=None):
            world.tl.obs.append((app_id, 'r:' + show(request.get(key))))
        self.subs.setdefault((app_id, event), []).append(rq.on(event, cb))

    def unsubscribe(self, app_id, event):
        subs = self.subs.get((app_id, event))
        if subs:
            subs.pop()()                          # the closure `on` returned

    def drop_subscriptions(self):
        """end of a run: the default application (and its request object) outlives the case"""
        for subs in self.subs.values():
            while subs:
                try:
                    subs.pop()()
                except Exception:       # noqa
                    pass

    def hand(self, what, obj):
        """remember (alive) an object the framework handed to application code, and for which serve"""
        if obj is not None and not isinstance(obj, (str, bytes, int, float, bool)):
            self.handed.append((tuple(getattr(self.tl, 'sid', None) or [0]), what, obj))

    def shared_handouts(self):
        """objects handed out to two different serves that are one and the same object"""
        out = []
        seen = {}
        for sid, what, obj in self.handed:
            first = seen.setdefault(id(obj), (sid, what))
            if first[0] != sid:
                out.append((what, first[1]))
        return sorted(set(out))

    def idle_view(self, app_id):
        """sorted items of the environ of the application's idle request; a request object shows as the
        application it is the `.request` of"""
        env = self.apps[app_id].request.environ
        out = []
        for k, v in env.items():
            if isinstance(v, str):
                out.append('%s=%s' % (k, show(v)))
            else:
                owner = [a for a, ap in self.apps.items() if ap.request is v]
                out.append('%s=s%s' % (k, '<request %d>' % owner[0] if owner else '<' + type(v).__name__ + '>'))
        return ';'.join(sorted(out))

    def run(self, repo, timeout=20.0, label_only=False):
        case = self.case
        if case.get('cold', True):
            cold_reset()          # lazily filled module-level caches start empty, as in a new process
        for a in case.get('apps', []):
            self.construct(a)
        tids = sorted(case['threads'])
        if tids != list(range(1, len(tids) + 1)):
            raise ValueError('thread ids must be 1..n')
        workers = [(lambda me, items=case['threads'][t]: self.run_items(me, items)) for t in tids]
        r = sched.Run(workers, case.get('switches', ()), repo=repo, handler_codes=[h_script.__code__, run_ops.__code__, h_error.__code__, h_hook.__code__, upload_field.__code__],
                      registry=self.reg, timeout=timeout, label_only=label_only)
        try:
            r.run()
        finally:
            self.drop_subscriptions()
        self.sched = r
        self.module_state = module_snapshot()
        for i, e in enumerate(r.errors):
            if e:
                self.obs.setdefault(i, []).append((-1, 'x:' + e))
        return self

    def answer(self):
        return answer(self.obs, sorted(self.case['threads']))


ACCESSOR = dict(query='query', cookies='cookies', headers='headers', forms='forms', post='POST', files='files',
                params='params', urlargs='url_args')


def app_objects(world, app_id):
    app = world.apps[app_id]
    if app_id == 0:
        import ombott
        return ombott.request, ombott.response      # the module level aliases of the default app
    return app.request, app.response


def run_ops(world, app_id, ops, copies):
    """interprets handler / hook statements against `app.request` / `app.response`"""
    rq, rs = app_objects(world, app_id)
    obs = world.tl.obs
    for op in ops:
        k = op[0]
        if k == 'path':
            obs.append((app_id, 'r:' + show(rq.path)))
        elif k == 'method':
            obs.append((app_id, 'r:' + show(rq.method)))
        elif k == 'query':
            obs.append((app_id, 'r:' + show(rq.query.get(op[1]))))
        elif k == 'cookie':
            obs.append((app_id, 'r:' + show(rq.get_cookie(op[1]))))
        elif k == 'header':
            obs.append((app_id, 'r:' + show(rq.headers.get(op[1]))))
        elif k == 'envget':
            obs.append((app_id, 'r:' + show(rq.get(op[1]))))
        elif k == 'body':
            obs.append((app_id, 'r:' + show(rq.body.read())))
        elif k == 'form':
            obs.append((app_id, 'r:' + show(rq.forms.get(op[1]))))
        elif k == 'file':
            obs.append((app_id, 'r:' + show(upload_field(rq.files.get(op[1]), op[2]))))
        elif k == 'url':
            obs.append((app_id, 'r:' + show(rq.url)))
        elif k == 'kwargs':
            world.hand('kwargs', getattr(world.tl, 'kw', None))
            obs.append((app_id, 'r:' + show(kwargs_text(getattr(world.tl, 'kw', None) or {}))))
        elif k == 'urlargs':
            world.hand('urlargs', rq.url_args)
            obs.append((app_id, 'r:' + show(kwargs_text(rq.url_args))))
        elif k == 'dump':
            o = getattr(rq, ACCESSOR[op[1]])
            world.hand(op[1], o)
            obs.append((app_id, 'r:' + show(dump_of(o))))
        elif k == 'mutate':
            o = getattr(rq, ACCESSOR[op[1]])
            world.hand(op[1], o)
            for key in list(o):
                if isinstance(o[key], list):
                    o[key].append('m')            # a list value grows in place
            for key in list(o)[:1]:
                o.pop(key)                        # something disappears
            o['inj'] = 'm'                        # something is injected
        elif k == 'envset':
            rq.environ[op[1]] = op[2]
        elif k == 'extset':
            setattr(rq, op[1], op[2])
        elif k == 'extget':
            obs.append((app_id, 'r:' + show(getattr(rq, op[1], None))))
        elif k == 'whoami':
            obs.append((app_id, 'r:' + show(getattr(world.tl, 'rule', None))))
        elif k == 'reqset':
            rq[op[1]] = op[2]                     # BaseRequest.__setitem__ on the live request (emits env_changed)
        elif k == 'listen':
            world.subscribe(app_id, rq, op[1])
        elif k == 'unlisten':
            world.unsubscribe(app_id, op[1])
        elif k == 'reqemit':
            rq.emit(op[1], op[2], None)           # a user event on this application's request
        elif k == 'statusline':
            rs.status = op[1]
        elif k == 'scookie':
            obs.append((app_id, 'r:' + show(SHOWN + show(rq.get_cookie(op[1], secret=SECRET)))))
        elif k == 'scookie_edit':
            v = rq.get_cookie(op[1], secret=SECRET)
            obs.append((app_id, 'r:' + show(SHOWN + show(v))))
            if isinstance(v, list):
                v.append(op[3])               # edit the decoded payload in place
            elif isinstance(v, dict):
                v['edit'] = op[3]
            rs.set_cookie(op[1], v, secret=SECRET)
            obs.append((app_id, 'r:' + show(SHOWN + show(rq.get_cookie(op[1], secret=SECRET)))))
        elif k == 'status':
            rs.status = op[1]
        elif k == 'rdstatus':
            obs.append((app_id, 'r:' + show(rs.status)))
        elif k == 'sethdr':
            rs.headers[op[1]] = op[2]
        elif k == 'addhdr':
            rs.headers.append(op[1], op[2])
        elif k == 'rdhdr':
            obs.append((app_id, 'r:' + show(rs.headers.get(op[1]))))
        elif k == 'setcookie':
            rs.set_cookie(op[1], op[2])
        elif k == 'ctype':
            rs.content_type = op[1]
        elif k == 'copy':
            cp = rq.copy()
            world.reg.add_copy(app_id, cp)
            copies.append(cp)
        elif k == 'cpath':
            obs.append((app_id, 'c:' + show(copies[op[1]].path)))
        elif k == 'cset':
            copies[op[1]][op[2]] = op[3]
        elif k == 'cheader':
            obs.append((app_id, 'c:' + show(copies[op[1]].headers.get(op[2]))))
        elif k == 'nested':
            world.serve(op[1])
        elif k == 'construct':
            world.construct(op[1])
        else:
            raise ValueError(op)


def upload_field(u, field):
    """one attribute of a FileUpload (None when there is no such upload)"""
    if u is None:
        return None
    if field == 'filename':
        return u.filename
    if field == 'data':
        u.file.seek(0)
        return u.file.read()
    if field == 'ctype':
        v = u.content_type
        return getattr(v, 'value', v) or None
    if field.startswith('hdr:'):
        v = u.headers.get(field[4:])
        return getattr(v, 'value', v)
    raise ValueError(field)


def h_script(world, app_id, req):
    """the handler of `req`: its statements, then its outcome"""
    m = world.m
    rq, rs = app_objects(world, app_id)
    run_ops(world, app_id, req['ops'], [])
    out = req['out']
    k = out[0]
    if k == 'ret':
        return out[1]
    if k == 'retb':
        return out[1].encode('latin1')
    if k == 'empty':
        return ''
    if k == 'raise':
        raise m['HTTPResponse'](out[2], out[1], headers=dict(out[3]))
    if k == 'error':
        raise m['HTTPError'](out[1], out[2])
    if k == 'crash':
        return 1 // 0
    if k == 'failjson':
        return str(rq.json)
    if k in ('failform', 'failmultipart'):
        return str(rq.forms.get('f'))
    if k == 'redirect':
        from ombott.ombott import redirect       # the module level helper (works on Globals.request/response)
        redirect(out[1])
    raise ValueError(out)


def h_hook(world, app_id, ops):
    """a before_request / after_request hook"""
    run_ops(world, app_id, ops, [])


def h_error(world, app_id, res):
    """the @app.error(code) handler: looks at app.response and at the error it was given
    (mirror of customErrorHandler in Model/WsgiConc.lean)"""
    rq, rs = app_objects(world, app_id)
    obs = world.tl.obs
    obs.append((app_id, 'r:' + show(rs.status)))
    obs.append((app_id, 'r:' + show(rs.headers.get('Content-Type'))))
    obs.append((app_id, 'r:' + show(rs.headers.get('X-Own'))))
    return 'custom:' + str(res.body)


class ChildFailed(Exception):
    pass


def pristine(fn, timeout=60.0):
    """fn() computed in a forked child: whatever it does to module level state (the shared error
    objects of errors_map, template caches, the default application) does not reach this process, and
    the child starts from this process' state as it is now"""
    r, w = os.pipe()
    pid = os.fork()
    if pid == 0:
        code = 0
        try:
            os.close(r)
            try:
                data = pickle.dumps(('ok', fn()))
            except sched.SchedTimeout as e:
                data = pickle.dumps(('timeout', str(e)))
            except BaseException as e:      # noqa
                data = pickle.dumps(('err', '%s: %s' % (type(e).__name__, e)))
            with os.fdopen(w, 'wb') as f:
                f.write(data)
        except BaseException:               # noqa
            code = 1
        finally:
            os._exit(code)
    os.close(w)
    chunks = []
    try:
        with os.fdopen(r, 'rb') as f:
            while True:
                ready, _, _ = select.select([f], [], [], timeout)
                if not ready:
                    os.kill(pid, 9)
                    raise sched.SchedTimeout('forked reference run did not answer in %ss' % timeout)
                c = f.read1(1 << 20) if hasattr(f, 'read1') else f.read()
                if not c:
                    break
                chunks.append(c)
    finally:
        try:
            os.waitpid(pid, 0)
        except ChildProcessError:
            pass
    if not chunks:
        raise ChildFailed('forked reference run died')
    kind, val = pickle.loads(b''.join(chunks))
    if kind == 'timeout':
        raise sched.SchedTimeout(val)
    if kind != 'ok':
        raise ChildFailed(val)
    return val


def run_case(case, repo=None, timeout=20.0, label_only=False):
    w = World(case)
    w.run(repo or core.REPO, timeout=timeout, label_only=label_only)
    return w


def labels_by_thread(events):
    out = {}
    for t, l in events:
        out.setdefault(t, []).append(l)
    return out
