"""Shared machinery of C08 and C10: request specifications, the handler interpreter that runs on
the real code, the execution of a case under harness/sched.py, and the encoding of the same case
as one protocol line for the Lean driver (Drv/TsProps.lean).

A *case* is
    dict(apps=[app ids constructed by the main thread before the workers start, in order],
         threads={tid: [item, ...]},           item = ('serve', req) | ('construct', app_id)
         switches=[(step, next_tid), ...])     preemption points for harness/sched.py
a *request* is
    dict(app=app id, rid=route id, method, qs, cookie, hdrs={name: value}, body=str, ctype=str|None,
         kind='handler'|'notfound'|'notallowed'|'badpath', ops=[op, ...], out=outcome)
Everything a request carries is a function of the request (never of the worker thread), so that a
difference between two runs can only come from the code under test.

Application id 0 is the module level default application (`ombott.Globals.app`).
"""
import ast
import html
import io
import re
import threading
import urllib.parse

from harness import core, sched
from harness.core import hs

ALNUM = 'abcdefghijklmnopqrstuvwxyz0123456789'


class RepoCode:
    """lazy access to the modules of the repository under test"""
    _m = None

    @classmethod
    def get(cls):
        if cls._m is None:
            import ombott
            from ombott.ombott import Ombott, Globals, HTTPResponse, HTTPError
            from ombott.router.radirouter import RadiRouter
            from ombott.response import _HTTP_STATUS_LINES
            from ombott import error_render
            cls._m = dict(Ombott=Ombott, Globals=Globals, HTTPResponse=HTTPResponse, HTTPError=HTTPError,
                          RadiRouter=RadiRouter, LINES=_HTTP_STATUS_LINES, error_render=error_render)
        return cls._m


def status_line(code):
    return RepoCode.get()['LINES'].get(code) or '%d Unknown' % code


# --------------------------------------------------------------------------------------
# values and observations (mirror of showPVal / renderResp in Model/WsgiConc.lean)

def show(v):
    if v is None:
        return '~'
    if isinstance(v, bool):
        return 'b1' if v else 'b0'
    if isinstance(v, int):
        return 'i%d' % v
    if isinstance(v, bytes):
        return 's' + v.decode('latin1')
    if isinstance(v, str):
        return 's' + v
    if isinstance(v, (list, tuple)):
        return 'l' + '\x1f'.join(str(x) for x in v)
    return 's<' + type(v).__name__ + '>'


_PAGE = re.compile(r'<title>Error: (.*?)</title>.*?<tt>(.*?)</tt>.*?<pre>(.*?)</pre>', re.S)


def canon_body(body):
    """an error page becomes the triple the model uses; anything else is the text itself"""
    text = body.decode('utf8', 'replace')
    if text.startswith('<!doctype html>'):
        m = _PAGE.search(text)
        if m:
            try:
                url = html.unescape(ast.literal_eval(m.group(2)))
            except (ValueError, SyntaxError):
                url = m.group(2)
            return 'E(%s|%s|%s)' % (html.unescape(m.group(1)), url, html.unescape(m.group(3)))
    return text


def render_resp(status, headers, body):
    canon = canon_body(body)
    if canon.startswith('E(') and not body.startswith(b'E('):
        # the length of a page is reported as the length of its canonical form
        headers = [(k, str(len(canon.encode('utf8'))) if k == 'Content-Length' and v == str(len(body)) else v)
                   for k, v in headers]
    lines = sorted('%s: %s' % (k, v) for k, v in headers)
    return status + '\n' + '\n'.join(lines) + '\n\n' + canon


# --------------------------------------------------------------------------------------
# requests

def simple_pairs(s, sep):
    out = {}
    for part in s.split(sep):
        part = part.strip()
        if '=' in part:
            k, v = part.split('=', 1)
            out.setdefault(k, v)
    return out


def req_path(req):
    if req['kind'] == 'badpath':
        return '/r%d\xff' % req['rid']
    if req['kind'] == 'notfound':
        return '/nf%d' % req['rid']
    return '/r%d' % req['rid']


def wsgi_env(req):
    """the environ a server would hand over; a fresh dict and fresh streams on every call"""
    body = req.get('body', '').encode('latin1')
    env = {'REQUEST_METHOD': req['method'], 'PATH_INFO': req_path(req), 'QUERY_STRING': req.get('qs', ''),
           'SERVER_NAME': 'h', 'SERVER_PORT': '80', 'wsgi.url_scheme': 'http', 'SERVER_PROTOCOL': 'HTTP/1.1',
           'wsgi.input': io.BytesIO(body), 'wsgi.errors': io.StringIO(), 'CONTENT_LENGTH': str(len(body))}
    if req.get('ctype') is not None:
        env['CONTENT_TYPE'] = req['ctype']
    if req.get('cookie'):
        env['HTTP_COOKIE'] = req['cookie']
    for k, v in (req.get('hdrs') or {}).items():
        env['HTTP_' + k.upper().replace('-', '_')] = v
    return env


def model_env(req):
    """the same environ as the model sees it: the string entries, and the parsed views a handler can
    ask for (pseudo keys `#...`), computed here from this request alone with plain string splitting
    (payloads are alphanumeric, so no decoding rule is involved)"""
    env = wsgi_env(req)
    d = {}
    for k, v in env.items():
        d[k] = v if isinstance(v, str) else '<' + k + '>'
    qs = req.get('qs', '')
    for k, v in simple_pairs(qs, '&').items():
        d['#q:' + k] = v
    for k, v in simple_pairs(req.get('cookie') or '', ';').items():
        d['#c:' + k] = v
    if (req.get('ctype') or '').startswith('application/x-www-form-urlencoded'):
        for k, v in simple_pairs(req.get('body', ''), '&').items():
            d['#f:' + k] = v
    d['#body'] = req.get('body', '')
    d['#url'] = 'http://h' + urllib.parse.quote(req_path(req)) + ('?' + qs if qs else '')
    return d


def walk_reqs(items):
    """all requests of a list of items, nested ones included, outermost first"""
    for it in items:
        if it[0] == 'serve':
            yield from _walk_req(it[1])


def _walk_req(req):
    yield req
    for op in req.get('ops') or []:
        if op[0] == 'nested':
            yield from _walk_req(op[1])


def case_reqs(case):
    for tid in sorted(case['threads']):
        yield from walk_reqs(case['threads'][tid])


def case_apps(case):
    ids = list(case.get('apps', []))
    for tid in sorted(case['threads']):
        for it in case['threads'][tid]:
            if it[0] == 'construct':
                ids.append(it[1])
    for r in case_reqs(case):
        for op in r.get('ops') or []:
            if op[0] == 'construct':
                ids.append(op[1])
    return ids


# --------------------------------------------------------------------------------------
# protocol line

def enc_dict(d):
    if not d:
        return '-'
    return '&'.join('%s:%s' % (hs(k), 'n' if v is None else 's' + hs(v)) for k, v in d.items())


def enc_op(op):
    k = op[0]
    if k in ('path', 'method', 'body', 'url', 'rdstatus', 'copy'):
        return [k]
    if k in ('query', 'cookie', 'envget', 'form', 'rdhdr', 'ctype'):
        return [k, hs(op[1])]
    if k == 'header':
        return [k, hs(op[1]), hs('HTTP_' + op[1].upper().replace('-', '_'))]
    if k == 'status':
        return [k, str(op[1]), hs(status_line(op[1]))]
    if k in ('sethdr', 'addhdr'):
        return [k, hs(op[1]), hs(op[2])]
    if k == 'setcookie':
        return [k, hs(op[1]), hs('%s=%s' % (op[1], op[2]))]
    if k == 'cpath':
        return [k, str(op[1])]
    if k == 'cset':
        return [k, str(op[1]), hs(op[2]), hs(op[3])]
    if k == 'nested':
        return [k] + enc_req(op[1])
    if k == 'construct':
        return [k, str(op[1])]
    raise ValueError(op)


def enc_out(out):
    k = out[0]
    if k == 'ret':
        return ['ret', hs(out[1])]
    if k == 'retb':
        return ['retb', hs(out[1])]
    if k == 'empty':
        return ['empty']
    if k == 'raise':
        return ['raise', str(out[1]), hs(status_line(out[1])), hs(out[2]), enc_dict(out[3])]
    if k == 'error':
        return ['error', str(out[1]), hs(status_line(out[1])), hs(out[2])]
    if k == 'crash':
        return ['crash', hs(status_line(500))]
    raise ValueError(out)


def enc_req(req):
    toks = ['R', str(req['app']), enc_dict(model_env(req))]
    kind = req['kind']
    if kind == 'handler':
        toks.append('H')
        for op in req['ops']:
            toks += enc_op(op)
        toks += enc_out(req['out'])
    elif kind == 'notfound':
        toks += ['NF', hs(status_line(404)), hs('Not Found')]
    elif kind == 'notallowed':
        toks += ['NA', hs(status_line(405)), hs('Method not allowed.'), hs('PUT')]
    elif kind == 'badpath':
        toks += ['BP', hs(status_line(400))]
    else:
        raise ValueError(kind)
    return toks


def enc_items(items):
    toks = []
    for it in items:
        if it[0] == 'serve':
            toks += ['serve'] + enc_req(it[1])
        else:
            toks += ['construct', str(it[1])]
    return toks


def case_line(case, events, variant='fixed', op='run', multi=None):
    """`events`: thread ids of the recorded store accesses in global order (workers only); the main
    thread (0) constructs the initial applications first"""
    if multi is None:
        multi = is_multi(case)
    toks = ['tsprops', op, variant, '1' if multi else '0']
    toks += ['T', '0'] + enc_items([('construct', a) for a in case.get('apps', [])])
    for tid in sorted(case['threads']):
        toks += ['T', str(tid)] + enc_items(case['threads'][tid])
    toks += ['EV', ','.join(['1000'] + [str(t) for t in events])]
    return ' '.join(toks)


def is_multi(case):
    return len(set(case_apps(case))) > 1 or any(True for _ in ())


def answer(obs_by_thread, tids):
    parts = []
    for t in tids:
        obs = obs_by_thread.get(t) or []
        parts.append('T%d ' % t + (','.join('%d:%s' % (a, hs(o)) for a, o in obs) if obs else '-'))
    return ' ; '.join(parts)


# --------------------------------------------------------------------------------------
# running a case on the real code

class World:
    """one execution of a case"""

    def __init__(self, case, multi=None):
        self.case = case
        self.m = RepoCode.get()
        self.multi = is_multi(case) if multi is None else multi
        self.reg = sched.Registry(multi=self.multi)
        self.apps = {}
        self.tl = threading.local()          # the harness' own per-thread observation list
        self.obs = {}
        self.reqs = list(case_reqs(case))

    # -- applications ---------------------------------------------------------------
    def construct(self, app_id):
        m = self.m
        if app_id == 0:
            app = m['Globals'].app
            app.router = m['RadiRouter']()        # configuration time: a clean route table per case
        else:
            app = m['Ombott']()
        self.apps[app_id] = app
        self.reg.add_app(app_id, app)
        seen = set()
        for r in self.reqs:
            if r['app'] != app_id or r['rid'] in seen:
                continue
            seen.add(r['rid'])
            if r['kind'] == 'handler':
                app.route('/r%d' % r['rid'], method=r['method'], callback=self.make_handler(app_id, r))
            elif r['kind'] == 'notallowed':
                app.route('/r%d' % r['rid'], method='PUT', callback=lambda: 'never')
        return app

    # -- the handler interpreter (its code object is traced line by line) -------------
    def make_handler(self, app_id, req):
        world = self

        def handler():
            return h_script(world, app_id, req)
        return handler

    def serve(self, req):
        app = self.apps[req['app']]
        env = wsgi_env(req)
        got = []
        body = app(env, lambda st, hd, exc=None: got.append((st, list(hd))))
        data = b''.join(body)
        close = getattr(body, 'close', None)
        if close:
            close()
        st, hd = got[-1] if got else ('<no start_response>', [])
        self.tl.obs.append((req['app'], 'w:' + render_resp(st, hd, data)))

    def run_items(self, tid, items):
        self.tl.obs = self.obs.setdefault(tid, [])
        for it in items:
            if it[0] == 'serve':
                self.serve(it[1])
            else:
                self.construct(it[1])

    def run(self, repo, timeout=20.0, label_only=False):
        case = self.case
        for a in case.get('apps', []):
            self.construct(a)
        tids = sorted(case['threads'])
        if tids != list(range(1, len(tids) + 1)):
            raise ValueError('thread ids must be 1..n')
        workers = [(lambda me, items=case['threads'][t]: self.run_items(me, items)) for t in tids]
        r = sched.Run(workers, case.get('switches', ()), repo=repo, handler_codes=[h_script.__code__],
                      registry=self.reg, timeout=timeout, label_only=label_only)
        r.run()
        self.sched = r
        for i, e in enumerate(r.errors):
            if e:
                self.obs.setdefault(i, []).append((-1, 'x:' + e))
        return self

    def answer(self):
        return answer(self.obs, sorted(self.case['threads']))


def h_script(world, app_id, req):
    """interprets the handler script of `req` against `app.request` / `app.response`"""
    m = world.m
    app = world.apps[app_id]
    if app_id == 0:
        import ombott
        rq, rs = ombott.request, ombott.response       # the module level aliases of the default app
    else:
        rq, rs = app.request, app.response
    obs = world.tl.obs
    copies = []
    for op in req['ops']:
        k = op[0]
        if k == 'path':
            obs.append((app_id, 'r:' + show(rq.path)))
        elif k == 'method':
            obs.append((app_id, 'r:' + show(rq.method)))
        elif k == 'query':
            obs.append((app_id, 'r:' + show(rq.query.get(op[1]))))
        elif k == 'cookie':
            obs.append((app_id, 'r:' + show(rq.get_cookie(op[1]))))
        elif k == 'header':
            obs.append((app_id, 'r:' + show(rq.headers.get(op[1]))))
        elif k == 'envget':
            obs.append((app_id, 'r:' + show(rq.get(op[1]))))
        elif k == 'body':
            obs.append((app_id, 'r:' + show(rq.body.read())))
        elif k == 'form':
            obs.append((app_id, 'r:' + show(rq.forms.get(op[1]))))
        elif k == 'url':
            obs.append((app_id, 'r:' + show(rq.url)))
        elif k == 'status':
            rs.status = op[1]
        elif k == 'rdstatus':
            obs.append((app_id, 'r:' + show(rs.status)))
        elif k == 'sethdr':
            rs.headers[op[1]] = op[2]
        elif k == 'addhdr':
            rs.headers.append(op[1], op[2])
        elif k == 'rdhdr':
            obs.append((app_id, 'r:' + show(rs.headers.get(op[1]))))
        elif k == 'setcookie':
            rs.set_cookie(op[1], op[2])
        elif k == 'ctype':
            rs.content_type = op[1]
        elif k == 'copy':
            cp = rq.copy()
            world.reg.add_copy(app_id, cp)
            copies.append(cp)
        elif k == 'cpath':
            obs.append((app_id, 'r:' + show(copies[op[1]].path)))
        elif k == 'cset':
            copies[op[1]][op[2]] = op[3]
        elif k == 'nested':
            world.serve(op[1])
        elif k == 'construct':
            world.construct(op[1])
        else:
            raise ValueError(op)
    out = req['out']
    k = out[0]
    if k == 'ret':
        return out[1]
    if k == 'retb':
        return out[1].encode('latin1')
    if k == 'empty':
        return ''
    if k == 'raise':
        raise m['HTTPResponse'](out[2], out[1], headers=dict(out[3]))
    if k == 'error':
        raise m['HTTPError'](out[1], out[2])
    if k == 'crash':
        return 1 // 0
    raise ValueError(out)


def run_case(case, repo=None, timeout=20.0, label_only=False):
    w = World(case)
    w.run(repo or core.REPO, timeout=timeout, label_only=label_only)
    return w


def labels_by_thread(events):
    out = {}
    for t, l in events:
        out.setdefault(t, []).append(l)
    return out
