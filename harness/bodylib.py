"""Shared by the body-reader checks C04, C05, C13: running the real code (unit entry point
`_body_read` and `Request.body` inside a WSGI call of a real `Ombott()` application), the line
protocol of `lean/OmbottModel/Drv/Body.lean`, an independent chunked encoder and the generators.

Nothing here looks at the Lean model: the answers are computed from the real code only."""
import io
import os

from harness import core
from harness.core import hb, hs, nl, opt, SchedStream


class RecStream(SchedStream):
    """SchedStream that also records the offset at which every read(n) was issued"""

    def __init__(self, data, sched):
        super().__init__(data, sched)
        self.calls = []          # (offset before, n asked)

    def read(self, n=-1):
        if n is None or n < 0:
            self.calls.append((self.pos, len(self.data) - self.pos))
        else:
            self.calls.append((self.pos, n))
        return super().read(n)


class ReadProbe:
    """stands in for the buffered body: records how many bytes each read() handed to the caller"""

    def __init__(self, real):
        self.real, self.returned, self.asked = real, [], []

    def seek(self, *a):
        return self.real.seek(*a)

    def read(self, n=-1):
        d = self.real.read(n)
        self.asked.append(n)
        self.returned.append(len(d))
        return d

    def __getattr__(self, name):
        return getattr(self.real, name)


class HookStream(RecStream):
    """RecStream whose read() first runs `hook()` whenever `when(call index)` holds: the stream's
    consumer is suspended inside its read callback while something else runs (greenlet-style
    re-entrancy, deterministic)"""

    def __init__(self, data, sched, when, hook):
        super().__init__(data, sched)
        self.when, self.hook, self.fired = when, hook, 0

    def read(self, n=-1):
        i = len(self.calls)
        if self.when(i):
            self.fired += 1
            self.hook()
        return super().read(n)


def _guard(go, watch):
    return core.with_timeout(go, 10) if watch else go()


def modules():
    from ombott.request_pkg import body_mixin, errors
    return body_mixin, errors


# --------------------------------------------------------------------------------------
# fault injection: the spool file cannot be created.  Done from outside the framework, the way it happens in
# production (`tempfile.tempdir` pointing at a directory that is gone / at something that is not a directory), so it
# does not depend on how body_mixin spells the call.  Every flavour makes `tempfile.TemporaryFile()` raise an OSError.
FAULTS = ('missing', 'notdir')


class temp_fault:
    def __init__(self, kind):
        self.kind = kind

    def __enter__(self):
        import os
        import tempfile
        self.old = tempfile.tempdir
        if self.kind == 'missing':
            tempfile.tempdir = os.path.join(os.path.dirname(os.path.abspath(__file__)), 'no-such-dir', 'tmp')
        elif self.kind == 'notdir':
            tempfile.tempdir = os.path.abspath(__file__)
        elif self.kind:
            raise AssertionError(self.kind)

    def __exit__(self, *exc):
        import tempfile
        tempfile.tempdir = self.old
        return False


def err_name(e, fault):
    """errors as class names; under an injected fault every flavour of OSError is `OSError`"""
    return 'OSError' if fault and isinstance(e, OSError) else type(e).__name__


# --------------------------------------------------------------------------------------
# unit entry point

def run_read(data, sched, buf, cl, chunked, maxb, hook=None, watch=True, fault=None):
    """-> dict(ok, bytes|err, spill, req, maxoff, calls); hook = (when, fn) runs fn inside read();
    fault = one of FAULTS: the call runs with an unusable temp directory"""
    bm, _ = modules()
    st = HookStream(data, sched, *hook) if hook else RecStream(data, sched)
    res = dict(ok=False, err=None, bytes=None, spill=None)

    def go():
        return bm._body_read(st.read, buf, content_length=cl, chunked=chunked, max_body_size=maxb)
    try:
        with temp_fault(fault):
            body = _guard(go, watch)
        res['ok'] = True
        res['spill'] = not isinstance(body, io.BytesIO)
        body.seek(0)
        res['bytes'] = body.read()
        body.close()
    except core.Hang:
        res['err'] = 'HANG'
    except Exception as e:
        res['err'] = err_name(e, fault)
    res.update(req=sum(st.requested), maxoff=st.maxoff, calls=st.calls)
    return res


def ans_read(res):
    tail = f'req={res["req"]} maxoff={res["maxoff"]}'
    if res['ok']:
        return f'ok {hb(res["bytes"])} spill={1 if res["spill"] else 0} {tail}'
    return f'err {res["err"]} {tail}'


def line_read(data, sched, buf, cl, chunked, maxb, fault=None):
    return f'body {"readf" if fault else "read"} {cl} {1 if chunked else 0} {buf} {opt(maxb)} {hb(data)} {nl(sched)}'


# --------------------------------------------------------------------------------------
# WSGI entry point

MAPS = {
    '@': None,                                   # the default errors_map of the application
    '~': {},
    'RequestError=400': {'RequestError': 400},
    'BodySizeError=431,RequestError=422': {'BodySizeError': 431, 'RequestError': 422},
    'BodyParsingError=400,BodySizeError=413': {'BodyParsingError': 400, 'BodySizeError': 413},
}

_apps = {}


def get_app(map_key, memfile, maxbody, tag=''):
    """one real application per configuration (and `tag`: a second, independent application object
    for an overlapping request); its handler runs the op list in `app.verif_ops`"""
    key = (map_key, memfile, maxbody, core.REPO, tag)
    app = _apps.get(key)
    if app is not None:
        return app
    from ombott import Ombott, HTTPError
    _, errors = modules()
    cfg = dict(max_memfile_size=memfile, max_body_size=maxbody)
    m = MAPS[map_key]
    if m is not None:
        cfg['errors_map'] = {getattr(errors, k): HTTPError(v, 'mapped') for k, v in m.items()}
    app = Ombott(cfg)
    app.verif_ops, app.verif_outs, app.verif_info = [], [], {}

    def handler():
        rq = orig = app.request
        outs, info = app.verif_outs, app.verif_info
        for op in app.verif_ops:
            # statements that are not body accesses: replace the stream / assign CONTENT_LENGTH through the
            # request's item assignment, continue on a copy of the request, go back to the original
            if op[0] == 'R':
                d, sc = op[1:].split('/')
                new = RecStream(core.unhb(d), [] if sc == '-' else [int(x) for x in sc.split('.')])
                info['streams'].append(new)
                rq['wsgi.input'] = new
                outs.append('r')
                continue
            if op[0] == 'L':
                rq['CONTENT_LENGTH'] = core.unhs(op[1:])
                outs.append('l')
                continue
            if op == 'K':
                rq = orig.copy()
                outs.append('k')
                continue
            if op == 'O':
                rq = orig
                outs.append('o')
                continue
            if op[0] == '?':          # the handler catches whatever the access raises and carries on
                try:
                    run_op(rq, op[1:], outs, info)
                except Exception as e:
                    sc = getattr(e, 'status_code', None)
                    outs.append(f'e:HTTP{sc}' if sc is not None else f'e:{type(e).__name__}')
                    info.setdefault('caught', []).append(len(outs) - 1)
            else:
                run_op(rq, op, outs, info)
        return 'ok'

    def run_op(rq, op, outs, info):
        if True:
            if op == 'B':
                b = rq.body
                d = b.read()
                mem = isinstance(b, io.BytesIO)
                outs.append(f'b:{hb(d)}:{"m" if mem else "t"}')
                info.setdefault('bodies', []).append(d)
                info['spill'] = not mem
                info['replaced'] = rq.environ['wsgi.input'] is b
            elif op[0] == 'P':
                outs.append(f'p:{hb(rq.body.read(int(op[1:])))}')
            elif op == 'I':
                outs.append(f'i:{hb(rq.environ["wsgi.input"].read())}')
            elif op == 'S':
                outs.append(f's:{hb(rq._get_body_string())}')
            elif op == 'C':
                outs.append(f'c:{rq.content_length}')
            elif op == 'M':      # how much of the buffered copy does _get_body_string pull into memory?
                real = rq.body
                probe = ReadProbe(real)
                rq.environ['ombott.request.body'] = probe
                info['probe'] = probe
                try:
                    outs.append(f'm:{len(rq._get_body_string())}')
                finally:
                    rq.environ['ombott.request.body'] = real
            elif op == 'F':      # forms (urlencoded / multipart); not modelled here, status only
                f = rq.forms
                info['forms'] = {k: f[k] for k in f}
                outs.append('f')
            elif op == 'U':      # files
                fl = rq.files
                info['files'] = {k: fl[k].file.read() for k in fl}
                outs.append('u')
            elif op == 'J':
                info['json'] = rq.json
                outs.append('j')
            elif op == 'Y':      # the longest str the form views hold (forms, POST, params)
                longest = 0
                for view in (rq.forms, rq.POST, getattr(rq, 'params', {})):
                    for v in view.values():
                        for x in (v if isinstance(v, list) else [v]):
                            if isinstance(x, (str, bytes)):
                                longest = max(longest, len(x))
                info['longest_text'] = longest
                outs.append('y')
            else:
                raise AssertionError(op)
    app.route('/x', method='POST', callback=handler)
    _apps[key] = app
    return app


def run_wsgi(map_key, memfile, maxbody, cl_hdr, te_hdr, data, sched, ops, ctype=None, hook=None, watch=True, tag='',
             fault=None):
    app = get_app(map_key, memfile, maxbody, tag)
    st = HookStream(data, sched, *hook) if hook else RecStream(data, sched)
    errs = io.StringIO()
    env = {'REQUEST_METHOD': 'POST', 'PATH_INFO': '/x', 'SCRIPT_NAME': '', 'QUERY_STRING': '',
           'SERVER_NAME': 'verif', 'SERVER_PORT': '80', 'SERVER_PROTOCOL': 'HTTP/1.1',
           'wsgi.input': st, 'wsgi.errors': errs, 'wsgi.url_scheme': 'http', 'wsgi.version': (1, 0),
           'wsgi.multithread': False, 'wsgi.multiprocess': False, 'wsgi.run_once': False}
    if cl_hdr is not None:
        env['CONTENT_LENGTH'] = cl_hdr
    if te_hdr is not None:
        env['HTTP_TRANSFER_ENCODING'] = te_hdr
    if ctype is not None:
        env['CONTENT_TYPE'] = ctype
    app.verif_ops, app.verif_outs, app.verif_info = list(ops), [], {'streams': [st]}
    started = []

    def start_response(status, headers, exc_info=None):
        started.append(status)

    def go():
        out = app(env, start_response)
        body = b''.join(out)
        close = getattr(out, 'close', None)
        if close:
            close()
        return body
    res = dict(status=None, outs=list(app.verif_outs), info=app.verif_info)
    try:
        with temp_fault(fault):
            res['resp_body'] = _guard(go, watch)
        res['status'] = int(started[0].split()[0]) if started else None
    except core.Hang:
        res['status'] = 'HANG'
    except Exception as e:          # catchall is on: nothing may escape the application
        res['status'] = 'RAISED-' + type(e).__name__
    res['outs'] = list(app.verif_outs)
    res['info'] = app.verif_info
    # the buffered copy may be a temporary file
    b = env.get('ombott.request.body')
    # what the request left in memory: the size of the buffered copy when it is an in-memory buffer
    res['mem_body'] = len(b.getbuffer()) if isinstance(b, io.BytesIO) else None
    if b is not None and not isinstance(b, io.BytesIO):
        try:
            b.close()
        except Exception:
            pass
    sts = app.verif_info.get('streams', [st])
    if len(sts) == 1:
        res.update(req=sum(st.requested), maxoff=st.maxoff)
    else:       # one number per stream created, in creation order
        res.update(req=','.join(str(sum(x.requested)) for x in sts), maxoff=','.join(str(x.maxoff) for x in sts))
    res.update(calls=st.calls, streams=sts, stderr=errs.getvalue()[-400:])
    return res


def ans_wsgi(res):
    outs = ';'.join(res['outs']) if res['outs'] else '-'
    return f'status={res["status"]} outs={outs} req={res["req"]} maxoff={res["maxoff"]}'


def line_wsgi(map_key, memfile, maxbody, cl_hdr, te_hdr, data, sched, ops):
    return (f'body wsgi {map_key} {memfile} {opt(maxbody)} {opt(cl_hdr, hs)} {opt(te_hdr, hs)} '
            f'{hb(data)} {nl(sched)} {",".join(ops) if ops else "-"}')


# --------------------------------------------------------------------------------------
# independent chunked encoder (written from RFC 7230 section 4.1, not from the decoder)

def spell(n, upper=False, zeros=0):
    return ('0' * zeros + format(n, 'X' if upper else 'x')).encode()


class Enc:
    """chunks: list of (payload, spelling, ext); last = (spelling of zero, ext); trailer bytes"""

    def __init__(self, chunks, last=(b'0', b''), trailer=b'\r\n'):
        self.chunks, self.last, self.trailer = list(chunks), last, trailer

    def lines(self):
        return [sp + ext + b'\r\n' for _, sp, ext in self.chunks] + [self.last[0] + self.last[1] + b'\r\n']

    def body(self):
        out = b''
        for p, sp, ext in self.chunks:
            out += sp + ext + b'\r\n' + p + b'\r\n'
        return out

    def encode(self):
        return self.body() + self.last[0] + self.last[1] + b'\r\n' + self.trailer

    def payload(self):
        return b''.join(p for p, _, _ in self.chunks)

    def end_lf(self):
        """offset of the LF that ends the terminating zero-size line"""
        return len(self.body()) + len(self.last[0]) + len(self.last[1]) + 1

    def max_line(self):
        return max(len(l) for l in self.lines())

    def framing_offsets(self):
        """offsets of all framing bytes (size lines, CRLFs) up to the end of the zero-size line"""
        offs, pos = [], 0
        for p, sp, ext in self.chunks:
            n = len(sp) + len(ext) + 2
            offs += range(pos, pos + n)
            pos += n + len(p)
            offs += [pos, pos + 1]
            pos += 2
        offs += range(pos, pos + len(self.last[0]) + len(self.last[1]) + 2)
        return offs

    def crlf_after_data_offsets(self):
        offs, pos = [], 0
        for p, sp, ext in self.chunks:
            pos += len(sp) + len(ext) + 2 + len(p)
            offs.append(pos)
            pos += 2
        return offs

    def line_arg(self):
        cs = ','.join(f'{hb(p)}:{hb(sp)}:{hb(ext)}' for p, sp, ext in self.chunks) or '~'
        return f'{cs} {hb(self.last[0])} {hb(self.last[1])} {hb(self.trailer)}'


EXTS = [b'', b'', b'', b';a', b';name=val', b';q="x y"', b';', b';a;b=1', b' ;x', b';\tx']
TRAILERS = [b'\r\n', b'\r\n', b'', b'X-T: 1\r\n\r\n', b'A: b\r\nC: d\r\n\r\n', b'garbage']


def gen_payload(rng, n):
    k = rng.randrange(4)
    if k == 0:
        return bytes(rng.randrange(256) for _ in range(n))
    if k == 1:   # bytes that look like framing
        return bytes(rng.choice(b'\r\n0123456789abcdef;') for _ in range(n))
    if k == 2:
        return bytes((i * 7 + 65) % 256 for i in range(n))
    return bytes(rng.choice(b'ab') for _ in range(n))


def gen_enc(rng, max_chunks=5, max_size=40):
    chunks = []
    for _ in range(rng.choice([0, 1, 1, 2, 2, 3, max_chunks])):
        n = rng.choice([1, 1, 2, 3, rng.randint(1, max_size), rng.randint(1, max_size)])
        sp = spell(n, rng.random() < .4, rng.choice([0, 0, 0, 1, 2, 5]))
        chunks.append((gen_payload(rng, n), sp, rng.choice(EXTS)))
    last = (b'0' * rng.choice([1, 1, 1, 2, 4]), rng.choice(EXTS))
    return Enc(chunks, last, rng.choice(TRAILERS))


def buf_for(rng, enc, legal=True):
    """a buffer size; `legal` = every size line (CRLF included) fits"""
    m = enc.max_line()
    if legal:
        return rng.choice([m, m, m + 1, m + 3, 64, 1000])
    return rng.choice([0, 1, 2, max(0, m - 1), m, 8, 64])


GARBAGE = b'0123456789abcdefABCDEFxX_+- \t;\r\n\r\n\r\n\x00\xffg'


def gen_garbage(rng):
    return bytes(rng.choice(GARBAGE) for _ in range(rng.randint(0, 14)))


def gen_sched(rng, n):
    k = rng.randrange(7)
    if k == 5:
        return [1] * rng.randint(1, 6) + [rng.randint(1, 4) for _ in range(rng.randint(0, 30))]
    if k == 6:
        return [rng.choice([1, 1, 2]) for _ in range(rng.randint(n, 2 * n + 1))]
    return core.gen_sched(rng, n)


def bump(stats, key, n=1):
    stats[key] = stats.get(key, 0) + n


def size_bucket(n):
    for lim in (0, 1, 4, 16, 64, 256):
        if n <= lim:
            return f'<={lim}'
    return '>256'


def replay_correspondence(data):
    """re-run a stored correspondence disagreement: the real code and the Lean driver on the same line"""
    line = data.get('line')
    s = data.get('input') or {}
    out = dict(line=line, stored_impl=data.get('observed_impl'), stored_model=data.get('observed_model'))
    try:
        out['model_now'] = core.run_driver([line])[0]
    except Exception as e:
        out['model_now'] = f'driver failed: {e}'
    toks = (line or '').split()
    try:
        if toks[:2] == ['body', 'read']:
            cl, ch, buf, mx, dat, sched = toks[2:8]
            res = run_read(core.unhb(dat), [int(x) for x in sched.split(',')] if sched != '-' else [], int(buf), int(cl),
                           ch == '1', None if mx == '~' else int(mx))
            out['impl_now'] = ans_read(res)
        elif toks[:2] == ['body', 'wsgi']:
            mk, mem, mx, clh, te, dat, sched, ops = toks[2:10]
            res = run_wsgi(mk, int(mem), None if mx == '~' else int(mx), None if clh == '~' else core.unhs(clh),
                           None if te == '~' else core.unhs(te), core.unhb(dat),
                           [int(x) for x in sched.split(',')] if sched != '-' else [], [] if ops == '-' else ops.split(','))
            out['impl_now'] = ans_wsgi(res)
    except Exception as e:
        out['impl_now'] = f'failed: {type(e).__name__}: {e}'
    out['agree_now'] = out.get('impl_now') == out.get('model_now')
    return out


# --------------------------------------------------------------------------------------
# overlap: a complete decode of another request B runs while request A is suspended inside its
# wsgi.input.read callback.  Nothing of A may change: its result must be its solo result.

def when_of(spec):
    """spec = ['at', i, j, ...] (call indices) | ['every', k, phase]"""
    if spec[0] == 'at':
        idx = set(spec[1:])
        return lambda i: i in idx
    k, ph = spec[1], spec[2]
    return lambda i: i % k == ph


def b_runner(mode, b, sink):
    """b = dict(raw, sched, buf, cl, chunked); appends B's canonical answer to `sink` each time it ran"""
    import threading

    def unit():
        sink.append(ans_read(run_read(b['raw'], b['sched'], b['buf'], b['cl'], b['chunked'], None, watch=False)))

    def wsgi():
        r = run_wsgi('@', b['buf'], None, None if b['chunked'] else str(b['cl']), 'chunked' if b['chunked'] else None,
                     b['raw'], b['sched'], ['B'], watch=False, tag='B')
        sink.append(ans_wsgi(r))

    def thread():
        t = threading.Thread(target=(wsgi if mode == 'thread-wsgi' else unit))
        t.start()
        t.join(20)
        if t.is_alive():
            sink.append('HANG')
    return dict(unit=unit, wsgi=wsgi).get(mode, thread)


def solo_b(mode, b):
    sink = []
    b_runner('wsgi' if 'wsgi' in mode else 'unit', b, sink)()
    return sink[0]


def run_alternate(a, b, order):
    """unit level below _body_read: the two body generators advanced alternately with next();
    `order` = pattern of 'a'/'b' turns (repeated); returns the two canonical results"""
    bm, _ = modules()
    out = {}
    gens = {}
    for k, x in (('a', a), ('b', b)):
        st = RecStream(x['raw'], x['sched'])
        gens[k] = (bm._iter_chunked(st.read, x['buf']) if x['chunked']
                   else bm._iter_body(st.read, x['buf'], content_length=x['cl']))
        out[k] = []
    done = {}

    def go():
        i = 0
        while len(done) < 2:
            k = order[i % len(order)]
            i += 1
            if k in done:
                k = 'b' if k == 'a' else 'a'
            try:
                out[k].append(next(gens[k]))
            except StopIteration:
                done[k] = 'ok ' + hb(b''.join(out[k]))
            except Exception as e:
                done[k] = 'err ' + type(e).__name__
    try:
        core.with_timeout(go, 10)
    except core.Hang:
        return 'HANG', 'HANG'
    return done['a'], done['b']


def gen_overlap_b(rng, chunked=True):
    """request B: own stream, own sizes (digits differ from the usual small ones)"""
    if chunked:
        chunks = []
        for _ in range(rng.randint(1, 3)):
            n = rng.choice([11, 17, 26, 33, 0x2b, 0x1c, 7])
            chunks.append((gen_payload(rng, n), spell(n, rng.random() < .5, rng.choice([0, 1])), rng.choice(EXTS[:5])))
        enc = Enc(chunks, (b'0', b''), b'\r\n')
        raw = enc.encode()
        return dict(raw=raw, sched=rng.choice([[], [1] * (len(raw) + 2), [2, 1, 3] * 20]), buf=max(8, enc.max_line()),
                    cl=-1, chunked=True)
    n = rng.randint(1, 40)
    return dict(raw=gen_payload(rng, n) + b'zz', sched=rng.choice([[], [1] * 50]), buf=rng.choice([1, 3, 8]), cl=n,
                chunked=False)


def overlap_check(a, b, mode, spec):
    """the overlap oracle on the real code: A decoded with a complete decode of B inside A's read
    callback (or the two generators advanced alternately) must give A's and B's solo results.
    a, b = dict(raw, sched, buf, cl, chunked); returns None or (what)"""
    if mode == 'alternate':
        solo = (run_alternate(a, b, 'a')[0], run_alternate(a, b, 'b')[1])     # one after the other
        got = run_alternate(a, b, spec)
        if got != solo:
            return f'generators advanced alternately ({spec!r}): A, B gave {got}, solo {solo}'
        return None
    sink = []
    hook = (when_of(spec), b_runner(mode, b, sink))
    if 'wsgi' in mode:
        clh, te = (None, 'chunked') if a['chunked'] else (str(a['cl']), None)
        solo_a = ans_wsgi(run_wsgi('@', a['buf'], None, clh, te, a['raw'], a['sched'], ['B', 'B']))
        got_a = ans_wsgi(run_wsgi('@', a['buf'], None, clh, te, a['raw'], a['sched'], ['B', 'B'], hook=hook))
    else:
        solo_a = ans_read(run_read(a['raw'], a['sched'], a['buf'], a['cl'], a['chunked'], None))
        got_a = ans_read(run_read(a['raw'], a['sched'], a['buf'], a['cl'], a['chunked'], None, hook=hook))
    if got_a != solo_a:
        return f'{mode}: request A decoded while B ran inside its read callback gave [{got_a}], alone [{solo_a}]'
    sb = solo_b(mode, b)
    for x in sink:
        if x != sb:
            return f'{mode}: request B decoded inside A\'s read callback gave [{x}], alone [{sb}]'
    return None


def pack_req(x):
    return dict(x, raw=x['raw'].hex())


def unpack_req(x):
    return dict(x, raw=bytes.fromhex(x['raw']))


def gen_spec(rng, ncalls=40):
    k = rng.randrange(4)
    if k == 0:
        return ['every', rng.randint(1, 5), 0]
    if k == 1:
        m = rng.randint(2, 6)
        return ['every', m, rng.randrange(m)]
    return ['at'] + sorted({rng.randrange(ncalls) for _ in range(rng.randint(1, 3))})


def solo_calls(a):
    return len(run_read(a['raw'], a['sched'], a['buf'], a['cl'], a['chunked'], None)['calls'])


def rop(data, sched=()):
    """the handler statement `request['wsgi.input'] = RecStream(data, sched)`"""
    return f'R{hb(data)}/{".".join(str(x) for x in sched) or "-"}'


def lop(text):
    """the handler statement `request['CONTENT_LENGTH'] = text`"""
    return 'L' + hs(text)
