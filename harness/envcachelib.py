"""The cache layer of the request object (cache_in / __setitem__ / __delitem__ / _on_env_changed /
copy), shared by C04, C15 and C18 as an extra stream each.

* correspondence: random operation sequences (read a cached property, `request[k] = v`,
  `del request[k]`, a new `wsgi.input`, `request.copy()` and operations on the copy) run on real
  `Request` objects and, as one self-contained line, on `Model/EnvCache.lean` (`envcache run`).  The
  library parameters of the model (`quote`, `urljoin`, `SplitResult.geturl`, `json.loads`, the
  multipart collector) travel on the line as the graph of the real functions on the points the
  sequence needs (recorded while the real code runs).
* oracle (written from the statement "the cache is never observable", no model involved): before
  every read the same attribute is read on a BRAND-NEW Request built from a copy of the current
  environ without its `ombott.request.*` cache entries - the body state (`ombott.request.body`,
  `ombott.request.body.error`, `wsgi.input`) is kept, the stream objects cloned at their current
  content - and the two answers must agree.  Out of scope, and skipped exactly there: the recorded
  stale (property, key) pairs once one was triggered on a request, and a header view taken over
  from the original by `copy()`.
"""
import copy as _copy
import io
import json

from harness import core
from harness.core import hb, hs, Finding

CACHE = 'ombott.request.'
BODY_KEYS = (CACHE + 'body', CACHE + 'body.error')

ATTRS = ['app', 'route', 'url_args', 'headers', 'cookies', 'params', 'url', 'urlparts', 'fullpath', 'script_name',
         'is_json_requested', 'remote_route', 'content_length', 'content_type', 'ctype', 'query', 'GET', 'json',
         'POST', 'forms', 'files', 'body']

# which attributes the oracle of each check owns
DOMAIN = {
    'C04': ['content_length', 'content_type', 'ctype', 'body', 'json', 'files', 'app', 'route', 'url_args'],
    'C15': ['cookies', 'headers', 'is_json_requested', 'remote_route', 'script_name', 'fullpath', 'urlparts', 'url'],
    'C18': ['query', 'GET', 'forms', 'params', 'POST'],
}
# what each check's generator concentrates on: (attributes, keys)
FOCUS = {
    'C04': (['content_length', 'body', 'content_type', 'ctype', 'json', 'files', 'forms'],
            ['CONTENT_LENGTH', 'wsgi.input', 'CONTENT_TYPE', 'HTTP_TRANSFER_ENCODING']),
    'C15': (['cookies', 'headers', 'cookies', 'is_json_requested', 'remote_route', 'url', 'script_name'],
            ['HTTP_COOKIE', 'HTTP_COOKIE', 'HTTP_X_A', 'HTTP_ACCEPT', 'HTTP_HOST', 'HTTP_X_FORWARDED_FOR']),
    'C18': (['query', 'forms', 'params', 'GET', 'POST', 'params'],
            ['QUERY_STRING', 'QUERY_STRING', 'wsgi.input', 'CONTENT_LENGTH', 'CONTENT_TYPE']),
}

CACHE_KEY = {a: CACHE + a for a in ATTRS}
CACHE_KEY.update(app='ombott.app', route='ombott.route', url_args='route.url_args', GET=CACHE + 'query',
                 POST=CACHE + 'post')

# The PINNED residue: (attribute, environ key) pairs whose cache entry survives an assignment of the key
# although the attribute is computed from it.  They are outside the 20 property texts and are not repaired;
# the Lean theorem excludes exactly them (`pinnedStale` in Props/EnvCache.lean, proved equal to what the probe of
# the live code finds uncovered minus the by-design list), and the oracle skips exactly them.  A NEW uncovered
# pair is not in this list: the oracle reports it with an input.
_FORM = ('json', 'POST', 'forms', 'files', 'params')
_URLK = ('', 'HTTP_HOST', 'HTTP_X_FORWARDED_HOST', 'HTTP_X_FORWARDED_PROTO', 'HTTP_X_SCRIPT_NAME', 'PATH_INFO',
         'QUERY_STRING', 'SCRIPT_NAME', 'SERVER_NAME', 'SERVER_PORT', 'wsgi.url_scheme')
PINNED_STALE = (
    {(a, k) for a in _FORM for k in ('CONTENT_LENGTH', 'CONTENT_TYPE')} |
    {(a, k) for a in ('url', 'urlparts') for k in _URLK} |
    {('fullpath', k) for k in ('', 'HTTP_X_SCRIPT_NAME', 'PATH_INFO', 'SCRIPT_NAME')} |
    {('script_name', 'HTTP_X_SCRIPT_NAME'), ('script_name', 'SCRIPT_NAME'), ('is_json_requested', 'HTTP_ACCEPT'),
     ('remote_route', 'HTTP_X_FORWARDED_FOR'), ('remote_route', 'REMOTE_ADDR'),
     ('content_type', 'CONTENT_TYPE'), ('ctype', 'CONTENT_TYPE')})

# which attributes are computed THROUGH the cache entry of which (a stale entry makes these stale too)
USES = {'url': ['urlparts'], 'urlparts': ['fullpath'], 'fullpath': ['script_name'], 'ctype': ['content_type'],
        'json': ['ctype', 'content_length', 'body'], 'POST': ['content_type', 'json', 'content_length', 'body'],
        'forms': ['POST'], 'files': ['POST'], 'params': ['query', 'forms'], 'GET': ['query'], 'query': ['GET'],
        'body': ['content_length']}


BY_DESIGN = ({('headers', k) for k in ('CONTENT_LENGTH', 'CONTENT_TYPE')} |
             {(a, 'HTTP_TRANSFER_ENCODING') for a in ('params', 'json', 'POST', 'forms', 'files', '_body')} |
             {('_body', 'CONTENT_LENGTH'), ('_body', 'CONTENT_TYPE')})

_LIVE = None


def live_table():
    """the behavioural table of the tree under test (harness/tables/envcache.py), once per process"""
    global _LIVE
    if _LIVE is None:
        from harness.tables import envcache as t
        try:
            _LIVE = t.collect()
        except Exception:
            _LIVE = dict(uncovered=[], keys=[])
    return _LIVE


def new_uncovered():
    """pairs the live code leaves uncovered that are neither by design nor pinned: regressions to look for"""
    return [(a, k) for (a, k) in live_table().get('uncovered', []) if (a, k) not in BY_DESIGN and (a, k) not in PINNED_STALE]


def pinned_from_lean():
    """the literal list of Props/EnvCache.lean, to keep the two copies from drifting apart"""
    import os
    import re
    src = open(os.path.join(core.LEAN, 'OmbottModel', 'Props', 'EnvCache.lean')).read()
    m = re.search(r'def pinnedStale : List \(String × String\) :=\s*\[(.*?)\]\n', src, flags=re.S)
    return set(re.findall(r'\("([^"]*)", "([^"]*)"\)', m.group(1))) if m else None


def check_pinned():
    lean = pinned_from_lean()
    if lean != set(PINNED_STALE):
        raise core.Infra(f'PINNED_STALE of harness/envcachelib.py and pinnedStale of Props/EnvCache.lean differ: '
                         f'{sorted(set(PINNED_STALE) ^ (lean or set()))}')


# --------------------------------------------------------------------------------------
# canonical values (mirror of Drv/EnvCache.lean)

def hsl(l):
    return ','.join(hs(x) for x in l) if l else '~'


def canon_dv(v):
    if isinstance(v, str):
        return 'o' + hs(v)
    if isinstance(v, list) and all(isinstance(x, str) for x in v):
        return 'm' + '+'.join(hs(x) for x in v)
    return 'x' + hs(text_of(v))


def text_of(v):
    """canonical text of a FormsDict value that is neither a str nor a list of str"""
    if hasattr(v, 'raw_filename') and hasattr(v, 'file'):
        f = v.file
        pos = f.tell()
        f.seek(0)
        data = f.read()
        f.seek(pos)
        return f'upload({v.name!r},{v.raw_filename!r},{data.hex()})'
    if isinstance(v, list):
        return '[' + ','.join(x if isinstance(x, str) and False else text_of(x) for x in v) + ']'
    if isinstance(v, str):
        return 'str:' + v
    try:
        return json.dumps(v, sort_keys=True)
    except Exception:
        return repr(type(v))


def canon_fd(d):
    if not d:
        return '~'
    items = sorted(((hs(str(k)), canon_dv(d[k])) for k in d.keys()), key=lambda p: p[0])
    return '.'.join(f'{k}={v}' for k, v in items)


def canon(attr, v):
    from ombott.request_pkg.helpers import WSGIHeaderDict
    if attr == 'body':
        return 'Y' + hb(v)
    if v is None:
        return 'N'
    if attr == 'json':
        if isinstance(v, dict):
            return 'Jo' + canon_fd(v)
        return 'Jx' + hs(json.dumps(v, sort_keys=True))
    if isinstance(v, bool):
        return 'B1' if v else 'B0'
    if isinstance(v, int):
        return f'I{v}'
    if isinstance(v, str):
        return 'S' + hs(v)
    if isinstance(v, WSGIHeaderDict):
        items = sorted(((hs(k), hs(v[k])) for k in v.keys()), key=lambda p: p[0])
        return 'P' + ('.'.join(f'{k}={x}' for k, x in items) if items else '~')
    if attr == 'cookies':
        items = sorted(((hs(k), hs(v[k])) for k in v.keys()), key=lambda p: p[0])
        return 'P' + ('.'.join(f'{k}={x}' for k, x in items) if items else '~')
    if isinstance(v, tuple):
        return 'T' + '.'.join('~' if x is None else hs(x) for x in v)
    if isinstance(v, dict):
        return 'D' + canon_fd(v)
    if isinstance(v, list):
        return 'L' + hsl(v)
    return 'X' + type(v).__name__


def exc_name(e):
    sc = getattr(e, 'status_code', None)
    if sc is not None:
        return f'HTTP{sc}'
    n = type(e).__name__
    return {'UnicodeDecodeError': 'UnicodeError', 'UnicodeEncodeError': 'UnicodeError',
            'JSONDecodeError': 'ValueError'}.get(n, n)


# --------------------------------------------------------------------------------------
# a scenario: configuration, initial environ, operations

EMAPS = {'none': {}, 'default': {'RequestError': 400, 'BodySizeError': 413, 'BodyParsingError': 400},
         'size': {'BodySizeError': 413}, 'odd': {'RequestError': 422}}


def mk_config(cfg):
    from ombott.response import HTTPError
    from ombott.request_pkg import errors
    return {'max_memfile_size': cfg['memfile'], 'max_body_size': cfg['maxbody'],
            'allow_x_script_name': cfg['xsn'],
            'errors_map': {getattr(errors, k): HTTPError(v, 'mapped') for k, v in EMAPS[cfg['emap']].items()}}


def cfg_token(cfg):
    em = EMAPS[cfg['emap']]
    ems = '.'.join(f'{k}={v}' for k, v in em.items()) if em else '~'
    mb = '~' if cfg['maxbody'] is None else str(cfg['maxbody'])
    return f'{cfg["memfile"]}:{mb}:{1 if cfg["xsn"] else 0}:{ems}'


def sched_token(s):
    return '.'.join(str(x) for x in s) if s else '-'


def op_token(op):
    k = op[0]
    if k == 'r':
        return f'r{op[1]}:{op[2]}'
    if k == 's':
        return f's{op[1]}:{hs(op[2])}:{hs(op[3])}'
    if k == 'i':
        return f'i{op[1]}:{hb(op[2])}:{sched_token(op[3])}'
    if k == 'd':
        return f'd{op[1]}:{hs(op[2])}'
    if k == 'c':
        return f'c{op[1]}'
    raise AssertionError(op)


def env_token(env, stream):
    parts = [f'{hs(k)}={hs(v)}' for k, v in env.items()]
    if stream is not None:
        parts.append(f'I={hb(stream[0])}:{sched_token(stream[1])}')
    return ';'.join(parts) if parts else '~'


# --------------------------------------------------------------------------------------
# running a scenario on the real code, recording the library graphs

class Recorder:
    """records quote / urljoin / json.loads while the real code runs"""

    def __init__(self):
        self.entries = {}      # token -> None (ordered)

    def add(self, tok):
        self.entries.setdefault(tok, None)

    def token(self):
        return ';'.join(self.entries) if self.entries else '~'


class _JsonShim:
    def __init__(self, rec, mod):
        self._rec, self._mod = rec, mod

    def loads(self, b, *a, **kw):
        raw = b if isinstance(b, bytes) else str(b).encode()
        try:
            v = self._mod.loads(b, *a, **kw)
        except RecursionError:
            self._rec.add(f'J/{hb(raw)}/R')
            raise
        except ValueError:
            self._rec.add(f'J/{hb(raw)}/V')
            raise
        except Exception as e:
            self._rec.add(f'J/{hb(raw)}/T{type(e).__name__}')
            raise
        if v is None:
            self._rec.add(f'J/{hb(raw)}/N')
        elif isinstance(v, dict):
            self._rec.add(f'J/{hb(raw)}/O{canon_fd(v)}')
        else:
            self._rec.add(f'J/{hb(raw)}/X{hs(json.dumps(v, sort_keys=True))}')
        return v

    def __getattr__(self, n):
        return getattr(self._mod, n)


class Patched:
    """context: the library functions of props_mixin / body_mixin wrapped by recorders"""

    def __init__(self, rec):
        self.rec = rec

    def __enter__(self):
        from ombott.request_pkg import props_mixin, body_mixin
        self.pm, self.bm = props_mixin, body_mixin
        self.saved = (props_mixin.urlquote, props_mixin.urljoin, body_mixin.json_mod)
        rec, (q0, j0, m0) = self.rec, self.saved

        def urlquote(s, *a, **kw):
            r = q0(s, *a, **kw)
            rec.add(f'q/{hs(s)}/{hs(r)}')
            return r

        def urljoin(a, b, *x, **kw):
            r = j0(a, b, *x, **kw)
            rec.add(f'j/{hs(a)}/{hs(b)}/{hs(r)}')
            return r
        props_mixin.urlquote, props_mixin.urljoin = urlquote, urljoin
        body_mixin.json_mod = _JsonShim(rec, m0)
        return self

    def __exit__(self, *a):
        self.pm.urlquote, self.pm.urljoin, self.bm.json_mod = self.saved


def after_op(rec, reqs, cfg):
    """the graphs that are read off the objects a posteriori: geturl of a cached SplitResult, the multipart
    collector on a buffered body with a markup"""
    from ombott.request_pkg.request import Request
    from ombott.request_pkg.helpers import FormsDict
    for rq in reqs:
        if rq is None:
            continue
        env = rq.environ
        up = env.get(CACHE + 'urlparts')
        if isinstance(up, tuple):
            rec.add('g/' + '.'.join('~' if x is None else hs(x) for x in up) + '/' + hs(up.geturl()))
        b = env.get(CACHE + 'body')
        mk = getattr(b, 'ombott_markup', None)
        if b is None or mk is None or getattr(b, '_ec_done', False):
            continue
        try:
            b._ec_done = True
        except Exception:
            pass
        pos = b.tell()
        b.seek(0)
        data = b.read()
        bnd = mk._markuper.boundary[2:].decode('utf8')
        if mk.error is not None:
            rec.add(f'M/{hs(bnd)}/{hb(data)}/E{exc_name(mk.error)}')
        else:
            scratch = Request({}, config=mk_config(cfg))
            post, forms, files = FormsDict(), FormsDict(), FormsDict()
            exc = '~'
            try:
                b.seek(0)
                scratch._collect_multipart(b, mk, post, forms, files)
            except Exception as e:
                exc = exc_name(e)
            rec.add(f'M/{hs(bnd)}/{hb(data)}/C{canon_fd(forms)}/{canon_fd(files)}/{canon_fd(post)}/{exc}')
        b.seek(pos)


def read_attr(rq, attr):
    """the canonical answer of one read"""
    try:
        if attr == 'body':
            return canon('body', rq.body.read())
        return canon(attr, getattr(rq, attr))
    except core.Hang:
        raise
    except Exception as e:
        return 'e:' + exc_name(e)


def new_request(cfg, env, stream):
    from ombott.request_pkg.request import Request
    e = dict(env)
    if stream is not None:
        e['wsgi.input'] = core.SchedStream(stream[0], stream[1])
    return Request(e, config=mk_config(cfg))


def apply_op(reqs, op):
    """one operation on the real requests; returns the canonical answer for a read, `x:<Class>` when an assignment,
    a deletion or a copy raised (the model knows no such outcome), else None"""
    k, i = op[0], op[1]
    rq = reqs[i] if i < len(reqs) else None
    if rq is None:
        if k == 'c':
            reqs.append(None)
        return 'x:NoRequest'
    if k == 'r':
        return read_attr(rq, op[2])
    try:
        if k == 's':
            rq[op[2]] = op[3]
        elif k == 'i':
            rq['wsgi.input'] = core.SchedStream(op[2], op[3])
        elif k == 'd':
            del rq[op[2]]
        elif k == 'c':
            reqs.append(None)
            reqs[-1] = rq.copy()
    except core.Hang:
        raise
    except Exception as e:
        return 'x:' + exc_name(e)
    return None


def wipe_caches(rq):
    """what makes a request brand-new again: drop every cache entry (not the body state)"""
    env = rq.environ
    for k in [k for k in env if k.startswith(CACHE) and k not in BODY_KEYS]:
        dict.__delitem__(env, k)


def run_real(cfg, env, stream, ops, nocache=False):
    """returns (answers, tabs token); `nocache`: the cache entries are wiped before every read, which turns the
    real request into the cache-free reference machine (`envcache spec`)"""
    rec = Recorder()
    reqs = [new_request(cfg, env, stream)]
    outs = []
    with Patched(rec):
        for op in ops:
            if nocache and op[0] == 'r' and op[1] < len(reqs) and reqs[op[1]] is not None:
                wipe_caches(reqs[op[1]])
            r = core.with_timeout(lambda: apply_op(reqs, op), 3)
            if r is not None:
                outs.append(r)
            after_op(rec, reqs, cfg)
    close_all(reqs)
    return outs, rec.token()


def close_all(reqs):
    for rq in reqs:
        if rq is None:
            continue
        b = rq.environ.get(CACHE + 'body')
        if b is not None and not isinstance(b, io.BytesIO):
            try:
                b.close()
            except Exception:
                pass


def line_of(cfg, tabs, env, stream, ops, kind='run'):
    return (f'envcache {kind} {cfg_token(cfg)} {tabs} {env_token(env, stream)} '
            f'{",".join(op_token(o) for o in ops) if ops else "-"}')


def answer_of(outs):
    return '|'.join(outs) if outs else '-'


# --------------------------------------------------------------------------------------
# generators

COOKIES = ['a=1', 'a=1; b=2', 'sid=abc; t="x y"', '', 'k=v; k=w', 'n="q\\"r"; z=9', 'bad cookie;;=', 'a=b=c', 'x=1;y',
           'tok=!abc?def']
ACCEPTS = ['text/html', 'application/json', 'application/json, text/html', '', '*/*', 'Application/JSON']
HOSTS = ['h.example', 'h.example:8080', '', 'other.test']
PATHS = ['/p/q', '/', '', 'p', '//p//q', '/a%20b', '/x?y', '/é', '/a/../b', 'http://evil/x', '/p;q', '/:80']
SCRIPTS = ['/app', '', '/', 'app/', '//a//', '/a/b']
QSS = ['a=1&b=2&a=3', '', 'x=%C3%A9+y', 'k', 'a=1', '&&=&a==', 'q=1&q=2&q=3', 'sp=a+b%20c', '%zz=%', 'é=€']
CTS = ['application/x-www-form-urlencoded', 'application/json', 'application/json; charset=utf-8', 'text/plain', '',
       'multipart/form-data; boundary=bnd', 'Multipart/Form-Data; boundary=bnd', 'multipart/form-data',
       'multipart/form-data; boundary="bnd"', 'APPLICATION/JSON', 'application/jsonx', ' application/json',
       'multipart/form-data; boundary=other']
FORWARDED = ['1.1.1.1, 2.2.2.2', '3.3.3.3', '', ' 4.4.4.4 ,5.5.5.5,']
HTTPX = ['HTTP_X_A', 'HTTP_X_B', 'HTTP_USER_AGENT', 'HTTP_X_FORWARDED_PROTO', 'HTTP_X_FORWARDED_HOST', 'HTTP_X_SCRIPT_NAME',
         'HTTP_X_REQUESTED_WITH', 'HTTP_AUTHORIZATION']
PLAINK = ['SERVER_NAME', 'SERVER_PORT', 'wsgi.url_scheme', 'REMOTE_ADDR', 'REQUEST_METHOD', 'SERVER_PROTOCOL', 'X_CUSTOM', '']

MP_OK = (b'--bnd\r\nContent-Disposition: form-data; name="f"\r\n\r\nv\r\n'
         b'--bnd\r\nContent-Disposition: form-data; name="f"\r\n\r\nw\r\n'
         b'--bnd\r\nContent-Disposition: form-data; name="u"; filename="a.txt"\r\nContent-Type: text/plain\r\n\r\nxyz\r\n--bnd--\r\n')
MP_TRUNC = b'--bnd\r\nContent-Disposition: form-data; name="x"\r\n\r\n1\r\n--bnd\r\nContent-Disposition: form-data; name="y"\r\n\r\ntrunc'
MP_BADHDR = b'--bnd\r\nContent-Disposition form-data\r\n\r\n1\r\n--bnd--\r\n'
MP_NONAME = b'--bnd\r\nContent-Disposition: form-data\r\n\r\n1\r\n--bnd--\r\n'
JSONS = [b'{"k":"v"}', b'{"k":"v","n":1,"l":["a","b"],"m":[1,"a"]}', b'[1,2]', b'null', b'{bad', b'"s"', b'7', b'',
         b'{"a":{"b":null}}', b'\xff\xfe', b'{"k":"v"} ']
URLENC = [b'x=1&y=2', b'a=1&a=2', b'', b'k', b'x=%C3%A9+1&x=2', b'%zz&&==', b'\xe9=\xff', b'a=b=c&&']


def chunked(payload, bad=False):
    out = b''
    for i in range(0, len(payload), 3):
        part = payload[i:i + 3]
        out += format(len(part), 'x').encode() + b'\r\n' + part + b'\r\n'
    return out + (b'0\r\n' if bad else b'0\r\n\r\n')


def value_for(rng, key):
    if key == 'HTTP_COOKIE':
        return rng.choice(COOKIES)
    if key == 'HTTP_ACCEPT':
        return rng.choice(ACCEPTS)
    if key in ('HTTP_HOST', 'HTTP_X_FORWARDED_HOST', 'SERVER_NAME'):
        return rng.choice(HOSTS)
    if key == 'PATH_INFO':
        return rng.choice(PATHS)
    if key in ('SCRIPT_NAME', 'HTTP_X_SCRIPT_NAME', ''):
        return rng.choice(SCRIPTS)
    if key == 'QUERY_STRING':
        return rng.choice(QSS)
    if key == 'CONTENT_TYPE':
        return rng.choice(CTS)
    if key in ('HTTP_X_FORWARDED_FOR', 'REMOTE_ADDR'):
        return rng.choice(FORWARDED)
    if key == 'CONTENT_LENGTH':
        return rng.choice(['0', '1', '3', '5', '7', '9', '12', '40', '200', '', '-1', ' 4 ', 'abc', '1000000'])
    if key == 'HTTP_TRANSFER_ENCODING':
        return rng.choice(['chunked', 'identity', '', 'gzip, Chunked'])
    if key in ('HTTP_X_FORWARDED_PROTO', 'wsgi.url_scheme'):
        return rng.choice(['http', 'https', '', 'ws'])
    if key == 'SERVER_PORT':
        return rng.choice(['80', '443', '8080', ''])
    return rng.choice(['v', '', 'x y', 'XMLHttpRequest', 'é', 'Basic dTpw', '1'])


def gen_body(rng):
    """(bytes, content type that fits it)"""
    k = rng.randrange(10)
    if k < 4:
        return rng.choice(URLENC), 'application/x-www-form-urlencoded'
    if k < 6:
        return rng.choice(JSONS), rng.choice(['application/json', 'application/json; charset=utf-8'])
    if k < 8:
        return rng.choice([MP_OK, MP_OK, MP_TRUNC, MP_BADHDR, MP_NONAME, b'', b'junk']), 'multipart/form-data; boundary=bnd'
    return bytes(rng.randrange(256) for _ in range(rng.randint(0, 20))), rng.choice(['text/plain', '', 'application/octet-stream'])


def gen_stream(rng, data):
    k = rng.randrange(4)
    if k < 2:
        return data, []
    if k == 2:
        return data, [rng.randint(1, 4) for _ in range(rng.randint(1, 30))]
    return data, [1] * min(len(data) + 2, 60)


def gen_initial(rng, check):
    cfg = dict(memfile=rng.choice([102400] * 6 + [64, 16, 8, 3]), maxbody=rng.choice([None] * 7 + [10, 40]),
               xsn=rng.random() < .3, emap=rng.choice(['default', 'default', 'none', 'size', 'odd']))
    env = {'REQUEST_METHOD': rng.choice(['GET', 'POST']), 'SERVER_NAME': 'srv', 'SERVER_PORT': rng.choice(['80', '8080']),
           'wsgi.url_scheme': 'http', 'PATH_INFO': rng.choice(PATHS), 'SCRIPT_NAME': rng.choice(SCRIPTS)}
    for key, p in (('QUERY_STRING', .8), ('HTTP_COOKIE', .6), ('HTTP_HOST', .6), ('HTTP_ACCEPT', .5), ('REMOTE_ADDR', .6),
                   ('HTTP_X_FORWARDED_FOR', .2), ('HTTP_X_FORWARDED_HOST', .15), ('HTTP_X_FORWARDED_PROTO', .15),
                   ('HTTP_X_SCRIPT_NAME', .2), ('HTTP_X_A', .3)):
        if rng.random() < p:
            env[key] = value_for(rng, key)
    stream = None
    if rng.random() < .85:
        data, ct = gen_body(rng)
        if rng.random() < .85:
            env['CONTENT_TYPE'] = ct
        elif rng.random() < .5:
            env['CONTENT_TYPE'] = rng.choice(CTS)
        if rng.random() < .12:
            env['HTTP_TRANSFER_ENCODING'] = 'chunked'
            data = chunked(data, bad=rng.random() < .2)
        else:
            r = rng.random()
            if r < .7:
                env['CONTENT_LENGTH'] = str(len(data))
            elif r < .9:
                env['CONTENT_LENGTH'] = value_for(rng, 'CONTENT_LENGTH')
        stream = gen_stream(rng, data)
    elif rng.random() < .5:
        stream = (b'', [])
    return cfg, env, stream


class Tracker:
    """what the oracle may still demand (its own bookkeeping, read off the real objects): per request, the
    attributes whose answer may legitimately be stale because a PINNED pair was triggered"""

    def __init__(self):
        self.stale = {}        # request index -> set of attributes

    def stale_hit(self, rq, key):
        """the attributes a pinned pair leaves stale when `key` is assigned on this request right now"""
        env = rq.environ
        return [a for (a, k) in PINNED_STALE if k == key and CACHE_KEY[a] in env]

    def assigned(self, i, rq, key):
        hit = self.stale_hit(rq, key)
        if hit:
            self.stale.setdefault(i, set()).update(hit)

    def copied(self, i, j):
        if i in self.stale:
            self.stale[j] = set(self.stale[i])

    def may_be_stale(self, i, attr, seen=None):
        """`attr` itself, or something it is computed through, was left stale by a pinned pair"""
        st = self.stale.get(i)
        if not st:
            return False
        seen = seen or set()
        if attr in seen:
            return False
        seen.add(attr)
        return attr in st or any(self.may_be_stale(i, u, seen) for u in USES.get(attr, ()))


def gen_ops(rng, check, cfg, env, stream, n_ops, safe_bias):
    """adaptive generation on the real objects: returns the op list (the real run is repeated afterwards).
    With probability `safe_bias` an assignment that would trigger a recorded stale pair is re-drawn."""
    fattrs, fkeys = FOCUS[check]
    reqs = [new_request(cfg, env, stream)]
    tr = Tracker()
    ops = []
    for _ in range(n_ops):
        i = rng.randrange(len(reqs)) if rng.random() < .7 else len(reqs) - 1
        if reqs[i] is None:
            i = 0
        r = rng.random()
        if r < .5:
            attr = rng.choice(fattrs) if rng.random() < .7 else rng.choice(ATTRS)
            op = ('r', i, attr)
        elif r < .78:
            for _try in range(6):
                key = rng.choice(fkeys) if rng.random() < .65 else rng.choice(
                    ['QUERY_STRING', 'CONTENT_LENGTH', 'CONTENT_TYPE', 'HTTP_COOKIE', 'PATH_INFO', 'SCRIPT_NAME', 'HTTP_ACCEPT',
                     'HTTP_HOST', 'HTTP_TRANSFER_ENCODING'] + HTTPX + PLAINK +
                    [k for k in live_table().get('keys', []) if k != 'wsgi.input'])
                if key == 'wsgi.input' or rng.random() >= safe_bias or not tr.stale_hit(reqs[i], key):
                    break
            if key == 'wsgi.input':
                data, _ct = gen_body(rng)
                if rng.random() < .5:
                    old = reqs[i].environ.get('CONTENT_LENGTH')
                    data = (data * 3)[:int(old)] if (old or '').isdigit() and rng.random() < .5 else data
                op = ('i', i) + gen_stream(rng, data)
            else:
                cur = reqs[i].environ.get(key)
                val = cur if (isinstance(cur, str) and rng.random() < .1) else value_for(rng, key)
                op = ('s', i, key, val)
        elif r < .9:
            for _try in range(6):
                key = rng.choice(fkeys) if rng.random() < .6 else rng.choice(
                    ['QUERY_STRING', 'CONTENT_LENGTH', 'CONTENT_TYPE', 'HTTP_COOKIE', 'HTTP_X_A', 'X_CUSTOM', 'REMOTE_ADDR'])
                if key == 'wsgi.input' and rng.random() < .8:
                    continue
                if rng.random() >= safe_bias or not tr.stale_hit(reqs[i], key):
                    break
            op = ('d', i, key)
        else:
            if len(reqs) >= 3:
                op = ('r', i, rng.choice(fattrs))
            else:
                op = ('c', i)
        ops.append(op)
        try:
            core.with_timeout(lambda: apply_op(reqs, op), 3)
        except core.Hang:
            raise
        except Exception:
            pass
    close_all(reqs)
    return ops


def gen_case(rng, check, safe_bias=.6):
    cfg, env, stream = gen_initial(rng, check)
    ops = gen_ops(rng, check, cfg, env, stream, rng.choice([2, 4, 6, 8, 10, 14]), safe_bias)
    return cfg, env, stream, ops


def pack(cfg, env, stream, ops):
    return dict(cfg=cfg, env=env, stream=None if stream is None else [stream[0].hex(), list(stream[1])],
                ops=[[o[0], o[1]] + [x.hex() if isinstance(x, bytes) else x for x in o[2:]] for o in ops])


def unpack(d):
    st = d['stream']
    ops = []
    for o in d['ops']:
        if o[0] == 'i':
            ops.append(('i', o[1], bytes.fromhex(o[2]), list(o[3])))
        else:
            ops.append(tuple(o))
    return d['cfg'], d['env'], None if st is None else (bytes.fromhex(st[0]), list(st[1])), ops


def bump(stats, key, n=1):
    stats[key] = stats.get(key, 0) + n


def corr_stream(rng, n, check, stats):
    """[(line, impl answer, sample)]"""
    out = []
    hangs = 0
    for _ in range(n):
        # a faulty tree may spin: such a case is dropped here (the property's own streams and the search oracle
        # report the hang with an input); after three of them the stream stops instead of crashing the check
        try:
            cfg, env, stream, ops = gen_case(rng, check)
            outs, tabs = run_real(cfg, env, stream, ops)
        except core.Hang:
            hangs += 1
            bump(stats, 'envcache:hangs')
            if hangs >= 3:
                break
            continue
        out.append((line_of(cfg, tabs, env, stream, ops), answer_of(outs),
                    dict(kind='envcache', **pack(cfg, env, stream, ops))))
        if rng.random() < .35:      # the same sequence on the reference machine: real code with its caches wiped
            try:
                outs2, tabs2 = run_real(cfg, env, stream, ops, nocache=True)
            except core.Hang:
                hangs += 1
                bump(stats, 'envcache:hangs')
                if hangs >= 3:
                    break
                continue
            out.append((line_of(cfg, tabs2, env, stream, ops, 'spec'), answer_of(outs2),
                        dict(kind='envcache', spec=True, **pack(cfg, env, stream, ops))))
            bump(stats, 'envcache:spec-cases')
        bump(stats, 'envcache:cases')
        bump(stats, 'envcache:ops', len(ops))
        for o in ops:
            bump(stats, 'envcache:op-' + o[0])
        for a in outs:
            bump(stats, 'envcache:answer-' + (a if a.startswith('e:') else a[0]))
        if any(o[0] == 'c' for o in ops):
            bump(stats, 'envcache:with-copy')
    return out


# --------------------------------------------------------------------------------------
# the oracle

def clone_stream(s, memo):
    if id(s) in memo:
        return memo[id(s)]
    if isinstance(s, core.SchedStream):
        c = core.SchedStream(s.data[s.pos:], list(s.sched))
    elif hasattr(s, 'read') and hasattr(s, 'seek'):
        pos = s.tell()
        s.seek(0)
        c = io.BytesIO(s.read())
        s.seek(pos)
        c.seek(pos)
        if hasattr(s, 'ombott_markup'):
            c.ombott_markup = _copy.deepcopy(s.ombott_markup)
    else:
        c = s
    memo[id(s)] = c
    return c


def fresh_request(rq, cfg):
    """a brand-new Request on the current environ of `rq` without its cache entries"""
    from ombott.request_pkg.request import Request
    memo, env = {}, {}
    for k, v in rq.environ.items():
        if k == 'ombott.request' or (k.startswith(CACHE) and k not in BODY_KEYS):
            continue
        if k in ('wsgi.input', CACHE + 'body'):
            v = clone_stream(v, memo)
        env[k] = v
    return Request(env, config=mk_config(cfg))


def excluded(rq, attr):
    """the situations the statement does not cover (see the module docstring); None = in scope"""
    env = rq.environ
    if attr == 'headers':
        h = env.get(CACHE + 'headers')
        if h is not None and h.environ is not env:
            return 'copy-shares-header-view'
    return None


def oracle_case(cfg, env, stream, ops, domain, pid, stats=None):
    """runs the sequence on the real code; before each read compares with a brand-new request.
    Returns None or (key, what)."""
    reqs = [new_request(cfg, env, stream)]
    cause = {0: 'reread'}
    tr = Tracker()
    try:
        for n, op in enumerate(ops):
            k, i = op[0], op[1]
            rq = reqs[i] if i < len(reqs) else None
            if rq is None:
                core.with_timeout(lambda: apply_op(reqs, op), 3)
                continue
            if k == 'r':
                attr = op[2]
                if attr not in domain:
                    skip = 'other-domain'
                elif tr.may_be_stale(i, attr):
                    skip = 'pinned-pair-triggered'
                else:
                    skip = excluded(rq, attr)
                want = None
                if skip is None:
                    fr = fresh_request(rq, cfg)
                    want = core.with_timeout(lambda: read_attr(fr, attr), 10)
                    close_all([fr])
                got = core.with_timeout(lambda: read_attr(rq, attr), 10)
                if stats is not None:
                    bump(stats, 'envcache-oracle:' + (skip or 'compared'))
                if want is not None and want != got:
                    return (f'{pid}:{cause.get(i, "reread")}:stale-{attr}',
                            f'op {n} of {",".join(op_token(o) for o in ops)}: request{i}.{attr} answered {got[:80]}, a brand-new '
                            f'request on the current environ answers {want[:80]}')
            else:
                if k in ('s', 'd'):
                    key = op[2]
                    changed = True
                    if k == 's':
                        changed = not (key in rq.environ and rq.environ[key] == op[3])
                    elif key in rq.environ and rq.environ[key] == '':
                        changed = False
                    if changed:
                        tr.assigned(i, rq, key)
                    elif k == 'd':
                        # `del` of a key holding '' fires no event: dependents of a pinned pair stay as they are
                        tr.assigned(i, rq, key)
                    cause[i] = 'setitem'
                elif k == 'i':
                    cause[i] = 'setitem'
                elif k == 'c':
                    j = len(reqs)
                    cause[j] = 'copy'
                    tr.copied(i, j)
                x = core.with_timeout(lambda: apply_op(reqs, op), 3)
                if x is not None:
                    return (f'{pid}:{ {"s": "setitem", "i": "setitem", "d": "delitem", "c": "copy"}[k] }:raises',
                            f'op {n} of {",".join(op_token(o) for o in ops)} raised {x[2:]}')
    finally:
        close_all(reqs)
    return None


def search_stream(rng, n, check, pid, stats, seeds=()):
    """(evaluations, findings)"""
    findings, evals = [], 0
    cases = []
    for s in seeds:
        if isinstance(s, dict) and s.get('kind') == 'envcache':
            cases.append(unpack(s))
    cases += directed_cases()
    cases += guided_cases(rng)
    for _ in range(n):
        cases.append(gen_case(rng, check, safe_bias=.9))
    dom = DOMAIN[check]
    if check == 'C04':
        try:
            residue_witnesses(rng, stats)
        except Exception as e:
            stats['envcache:residue-error'] = f'{type(e).__name__}: {e}'
    for c in cases:
        evals += 1
        try:
            bad = oracle_case(*c, dom, pid, stats)
        except core.Hang:
            bad = (f'{pid}:envcache:hang', 'a read did not terminate')
        except Exception as e:
            bad = (f'{pid}:envcache:oracle-exception', f'{type(e).__name__}: {e}')
        if bad:
            findings.append(Finding(bad[0], bad[1], dict(probe='envcache', **pack(*c))))
    return evals, findings


def guided_cases(rng):
    """table-guided search: for every uncovered pair of the live table that is not pinned, the read / assign / read
    sequences (on the request and on a copy) over several base environs and values"""
    out = []
    for attr, key in new_uncovered():
        a = 'body' if attr == '_body' else attr
        for _ in range(6):
            cfg, env, stream = gen_initial(rng, 'C04')
            cfg = dict(cfg, memfile=102400, maxbody=None)
            vals = [value_for(rng, key), value_for(rng, key), '5', 'v']
            for v in vals:
                out.append((cfg, env, stream, [('r', 0, a), ('s', 0, key, v), ('r', 0, a)]))
            out.append((cfg, env, stream, [('r', 0, a), ('d', 0, key), ('r', 0, a)]))
            out.append((cfg, env, stream, [('r', 0, a), ('c', 0), ('s', 1, key, vals[0]), ('r', 1, a), ('r', 0, a)]))
            env2 = {k: v for k, v in env.items() if k not in ('CONTENT_LENGTH', 'CONTENT_TYPE', 'QUERY_STRING', 'HTTP_COOKIE')}
            out.append((cfg, env2, stream, [('r', 0, a), ('s', 0, key, vals[2]), ('r', 0, a)]))
    return out


def residue_witnesses(rng, stats, tries=10):
    """the pinned pairs are residue, not fiction: for each one look for a read / assign / read sequence on the real
    code whose second answer differs from a brand-new request's.  Counted in the evidence, never a finding."""
    confirmed = 0
    for attr, key in sorted(PINNED_STALE):
        hit = False
        for _ in range(tries):
            cfg, env, stream = gen_initial(rng, 'C04')
            cfg = dict(cfg, memfile=102400, maxbody=None, xsn=True)
            if key in ('CONTENT_LENGTH', 'CONTENT_TYPE'):
                env = dict(env, CONTENT_TYPE='application/x-www-form-urlencoded', CONTENT_LENGTH='7')
                env.pop('HTTP_TRANSFER_ENCODING', None)
                stream = (b'x=1&y=2', [])
                if attr == 'json':
                    env = dict(env, CONTENT_TYPE='application/json', CONTENT_LENGTH='9')
                    stream = (b'{"k":"v"}', [])
            if key == 'HTTP_X_SCRIPT_NAME':
                env = dict(env, SCRIPT_NAME='')
            reqs = [new_request(cfg, env, stream)]
            try:
                a0 = read_attr(reqs[0], attr)
                apply_op(reqs, ('s', 0, key, value_for(rng, key)))
                fr = fresh_request(reqs[0], cfg)
                if read_attr(reqs[0], attr) != read_attr(fr, attr):
                    hit = True
                close_all([fr])
            except Exception:
                pass
            finally:
                close_all(reqs)
            if hit:
                break
        confirmed += hit
        if not hit:
            bump(stats, 'envcache:residue-not-exhibited:' + attr + '/' + key)
    stats['envcache:residue-pairs'] = len(PINNED_STALE)
    stats['envcache:residue-exhibited-on-real-code'] = confirmed


def directed_cases():
    """the sequences the defects of this layer were found with, and their neighbours"""
    cfg = dict(memfile=102400, maxbody=None, xsn=False, emap='default')
    base = {'REQUEST_METHOD': 'POST', 'SERVER_NAME': 'srv', 'SERVER_PORT': '80', 'wsgi.url_scheme': 'http',
            'PATH_INFO': '/p', 'SCRIPT_NAME': '/app', 'QUERY_STRING': 'a=1', 'HTTP_COOKIE': 'a=1; b=2',
            'CONTENT_TYPE': 'application/x-www-form-urlencoded', 'CONTENT_LENGTH': '7'}
    st = (b'x=1&y=2', [])
    out = []
    for attr, key, val in (('content_length', 'CONTENT_LENGTH', '3'), ('cookies', 'HTTP_COOKIE', 'c=3'),
                           ('query', 'QUERY_STRING', 'z=9'), ('params', 'QUERY_STRING', 'z=9'), ('GET', 'QUERY_STRING', '')):
        out.append((cfg, base, st, [('r', 0, attr), ('s', 0, key, val), ('r', 0, attr)]))
        out.append((cfg, base, st, [('r', 0, attr), ('d', 0, key), ('r', 0, attr)]))
        out.append((cfg, base, st, [('r', 0, attr), ('c', 0), ('s', 1, key, val), ('r', 1, attr), ('r', 0, attr)]))
        out.append((cfg, base, st, [('c', 0), ('r', 0, attr), ('s', 0, key, val), ('r', 1, attr), ('r', 0, attr)]))
        out.append((cfg, base, st, [('r', 0, attr), ('c', 0), ('c', 1), ('d', 2, key), ('r', 2, attr), ('r', 1, attr)]))
    new = (b'n=5&m=6', [1, 2])
    for attr in ('forms', 'params', 'POST', 'body', 'files', 'json'):
        out.append((cfg, base, st, [('r', 0, attr), ('i', 0) + new, ('r', 0, attr)]))
        out.append((cfg, base, st, [('r', 0, attr), ('c', 0), ('i', 1) + new, ('r', 1, attr), ('r', 0, attr)]))
        out.append((cfg, base, st, [('c', 0), ('r', 1, attr), ('r', 0, attr)]))
    out.append((cfg, base, st, [('r', 0, 'cookies'), ('s', 0, 'HTTP_X_A', '1'), ('r', 0, 'cookies')]))
    out.append((cfg, base, st, [('r', 0, 'headers'), ('s', 0, 'HTTP_X_A', '1'), ('r', 0, 'headers'), ('d', 0, 'HTTP_X_A'),
                                ('r', 0, 'headers'), ('s', 0, 'CONTENT_TYPE', 'text/plain'), ('r', 0, 'headers')]))
    out.append((cfg, base, st, [('c', 0), ('r', 1, 'headers'), ('s', 0, 'HTTP_X_A', '1'), ('r', 1, 'headers'), ('r', 0, 'headers')]))
    return out


def replay_case(data, check, pid):
    c = unpack(data)
    outs, tabs = run_real(*c)
    return dict(line=line_of(c[0], tabs, c[1], c[2], c[3]), impl=answer_of(outs),
                oracle=oracle_case(*c, DOMAIN[check], pid))


# --------------------------------------------------------------------------------------
# hooking the stream into an existing check

EC_ANCHORS = ['ombott/request_pkg/request.py', 'ombott/request_pkg/helpers.py', 'ombott/request_pkg/props_mixin.py',
              'ombott/request_pkg/body_mixin.py']
EC_RULE = (' || cache layer (envcache): random operation sequences (read any cached property, request[k] = v, del request[k], '
           'a new wsgi.input, request.copy() and operations on copies of copies) on real Request objects vs Model/EnvCache.lean, '
           'and the same sequences with the caches wiped before every read vs the cache-free reference (envcache spec); '
           'oracle: every read equals the read on a brand-new Request built from the current environ without its cache entries '
           '(pinned residue pairs and a header view taken over by copy() excluded)')
EC_ASSUMPTIONS = ['cache layer: environ keys under ombott.* / route.* are the framework\'s own (not assigned by the application); '
                  'request["wsgi.input"] is assigned stream objects only; app_name_header has its default',
                  'cache layer: quote / urljoin / SplitResult.geturl / json.loads / the multipart collector enter the model as '
                  'recorded graphs of the real functions; SimpleCookie through the tokeniser model of C15']


def install(cls, quick=(500, 350), thorough=(12000, 5000)):
    """adds the cache-layer stream to check class `cls`: table, anchors, correspondence, oracle, replay"""
    pid = cls.pid
    cls.tables = list(cls.tables) + ['envcache']
    cls.anchors = list(cls.anchors) + [a for a in EC_ANCHORS if a not in cls.anchors]
    cls.rule = cls.rule + EC_RULE
    cls.assumptions = list(cls.assumptions) + EC_ASSUMPTIONS
    o_budget, o_corr, o_search, o_replay, o_nontrivial = cls.budget, cls.corr, cls.search, cls.replay, cls.nontrivial

    def budget(self, tier, escalated):
        self._ec = (tier, escalated)
        return o_budget(self, tier, escalated)

    def sizes(self):
        tier, esc = getattr(self, '_ec', ('quick', False))
        a, b = quick if tier == 'quick' else thorough
        return (a * 3, b * 3) if (esc and tier == 'quick') else (a, b)

    def corr(self, rng, n):
        out = o_corr(self, rng, n)
        check_pinned()
        if not hasattr(self, 'stats') or self.stats is None:
            self.stats = {}
        out += corr_stream(rng, sizes(self)[0], pid, self.stats)
        return out

    def search(self, rng, n, seeds):
        evals, findings = o_search(self, rng, n, [s for s in seeds if not (isinstance(s, dict) and s.get('kind') == 'envcache')])
        if not hasattr(self, 'stats') or self.stats is None:
            self.stats = {}
        try:
            ev, fs = core.with_timeout(lambda: search_stream(rng, sizes(self)[1], pid, pid, self.stats, seeds), 300)
        except core.Hang:
            ev, fs = 1, [Finding(f'{pid}:envcache:hang', 'a cached-property read did not terminate (300 s of CPU time in the '
                                 'cache-layer oracle stream)', dict(probe='envcache', sub='hang'))]
        return evals + ev, list(findings) + fs

    def replay(self, data):
        i = data.get('input')
        if isinstance(i, dict) and (i.get('probe') == 'envcache' or i.get('kind') == 'envcache'):
            return replay_case(i, pid, pid)
        return o_replay(self, data)

    def nontrivial(self, sample):
        if isinstance(sample, dict) and sample.get('kind') == 'envcache':
            kinds = {o[0] for o in sample.get('ops', [])}
            return 'r' in kinds and bool(kinds & {'s', 'd', 'i', 'c'})
        return o_nontrivial(self, sample)

    cls.budget, cls.corr, cls.search, cls.replay, cls.nontrivial = budget, corr, search, replay, nontrivial
    return cls
