"""C01 - Route resolution equals the plain rule-by-rule semantics."""
from harness import core
from harness.core import Check, Finding
from harness import router_gen as G

ADD_METHODS = [['GET'], ['GET'], ['GET'], ['POST'], ['GET', 'POST'], ['ANY'], ['get'], ['PUT', 'GET'], 'GET']
RES_METHODS = [['GET', 'ANY'], ['GET', 'ANY'], ['POST', 'ANY'], ['HEAD', 'GET', 'ANY'], ['PUT', 'ANY'], ['GET']]
SPECIAL_RULES = ['/a/:x\n', '/', '/a/', '//', '/a//b', '/a/:', '/<p:path><q>', '/x/<p:path>/end', '/:x', '/a:b',
                 '/n/<x:int>', '/u/:a', '/u/:b', '/<x:re:None>', '/<a>-<b>', '/<a><b>', '/<a:int><b>']


# built-in filters: `path` before literals made of regex metacharacters, continuing afterwards, with
# decoy occurrences later in the path; int / float with signs, leading zeros, Unicode digits,
# exponent-like text
BUILTIN_RULES = ['/dl/<p:path>.tar/img/<n:int>.png', '/dl/<p:path>.tar/<rest:path>', '/dl/<p.path()>.', '/f/<p:path>+x',
                 '/f/<p:path>(1)/e', '/g/<p:path>[a]', '/g/{p:path}[a]/<n:int>', '/h/<p:path>$', '/h/<p:path>^a',
                 '/h/<p:path>|b', '/q/<p:path>?', '/q/<p:path>*z', '/q/<p:path>\\d', '/v/<x:int>', '/v/<x:int>/t',
                 '/v/<x.int()>-<y:int>', '/w/<x:float>', '/w/<x:float>x', '/w/<x:float>e<y:int>', '/n<x:int><y>',
                 '/m/<x:float>.<y:int>', '/p/<p:path>', '/p/<p:path>/end', '/r/<p:path>.<ext>', '/v/<x:re:-?\\d+>/t']
BUILTIN_PATHS = ['/dl/site.tar/img/avatar/1.png', '/dl/site.tar/img/7.png', '/dl/a.tar/b.tar/img/12.png', '/dl/xtar/img/1.png',
                 '/dl/a.tar/rest/x', '/dl/a.tar/', '/dl/a.b.', '/dl/.tar/img/1.png', '/f/a+x', '/f/a+x+x', '/f/aax', '/f/a(1)/e',
                 '/f/a(1)(1)/e', '/f/a1/e', '/f/a+x(1)/e', '/g/x[a]', '/g/xa', '/g/x[a][a]', '/g/x[a]/12', '/g/x[a]/x[a]/3',
                 '/h/a$', '/h/a', '/h/a^a', '/h/aa', '/h/a|b', '/h/ab', '/h/b', '/q/a?', '/q/a', '/q/a*z', '/q/aaz', '/q/az',
                 '/q/a\\d', '/q/a5', '/v/12', '/v/-7', '/v/007', '/v/+1', '/v/٣', '/v/1٣', '/v/1e3', '/v/12/t', '/v/-12/t',
                 '/v/1.5', '/v/-', '/v/--1', '/v/1-2', '/v/1--2', '/v/-1--2', '/w/1.5', '/w/-0.25', '/w/3', '/w/1.', '/w/.5',
                 '/w/1e3', '/w/1.5e3', '/w/1.5x', '/w/١.٥', '/w/00.10', '/w/1.5.2', '/n12ab', '/n-1', '/n12', '/m/1.5.2',
                 '/m/1.2', '/m/-3.0.00001', '/m/3.00001', '/p/a/b/c', '/p/x/end', '/p/end', '/p//end', '/p/a/end/end',
                 '/r/a.b.c', '/r/.x', '/r/a.', '/r/a.b/c.d']


def gen_builtin_history(rng):
    ops = []
    rules = rng.sample(BUILTIN_RULES, rng.randint(2, 6))
    for r in rules:
        ops.append(['A', r, ['GET'], None, False])
        for _ in range(rng.randint(0, 2)):
            ops.append(_builtin_lookup(rng, rules))
    for _ in range(rng.randint(4, 10)):
        ops.append(_builtin_lookup(rng, rules))
    return ops


def _builtin_lookup(rng, rules):
    pre = rng.choice(rules)[:3]
    cand = [p for p in BUILTIN_PATHS if p.startswith(pre)] or BUILTIN_PATHS
    p = rng.choice(cand)
    if rng.random() < .25:
        p = '/' + G.mutate(rng, p[1:])
    k = rng.random()
    if k < .6:
        return ['R', p, ['GET', 'ANY']]
    if k < .8:
        return ['W', 'GET', p]
    return ['G', p.strip('/')]


#: what the context-sensitive regexes of G.CTX_RE_POOL contain (statistics only)
CTX_MARKS = ('(?<', '\\b', '\\B', '\\A', 're:^', 're(^', 'rex:^', 'rex(^', '(?m)^')


def has_hooks(ops):
    return any(op[0] == 'H' for op in ops)


def make_runner(ops):
    """the runner for a history: with route hooks in it, the edit runner of C11 (`redit hist` lines:
    the ops of `router hist` plus `H`, `P`, `V`, see lean/OmbottModel/Drv/RouterEdit.lean)"""
    if has_hooks(ops):
        from harness.router_edit_gen import EditRunner
        return EditRunner()
    return G.Runner()


def play(run, ops):
    """replay a recorded op list on a Runner"""
    hooked = has_hooks(ops)
    for op in ops:
        if op[0] == 'A':
            run.add(op[1], op[2], op[3], op[4])
        elif op[0] == 'H':
            run.add_hook(op[1], op[2])
        elif op[0] == 'R':
            if hooked and op[2] and len(run.ops) % 3 == 0:
                run.resolve_h(op[1], op[2])         # the same lookup with the collected hooks shown
            else:
                run.resolve(op[1], op[2])
        elif op[0] == 'G':
            run.get(op[1])
        elif op[0] == 'W':
            if hooked:
                run.serve(op[1], op[2])             # hooks observed: a per-prefix 404 hook answers for the router
            else:
                run.wsgi(op[1], op[2])
        elif op[0] == 'D':
            run.remove_method(op[1], op[2])


def rename_ast(rng, ast):
    """the same pattern spelled with other wildcard names (anonymous ones included)"""
    out, seen = [], set()
    for s in ast:
        if s[0] == 'w':
            nm = rng.choice(G.NAMES + ['hk', 'q'])
            while nm in seen:
                nm += '_'
            seen.add(nm)
            s = ('w', nm) + tuple(s[2:])
        out.append(tuple(s))
    return out


def gen_hook_op(rng, asts):
    """a route hook (simple or per-prefix 404 handler) on the pattern of a rule of the history or on
    a prefix of it, mostly spelled with OTHER wildcard names than the rule's own"""
    from harness.router_edit_gen import cut_ast
    ast = rng.choice(asts) if asts else [('lit', 'a')]
    if rng.random() < .35:
        ast = cut_ast(rng, ast)
    if rng.random() < .85:
        ast = rename_ast(rng, ast)
    for _ in range(6):
        t = G.print_rule(rng, ast)
        if t is not None and G.in_domain(t):
            return ['H', t, rng.random() < .35]
    return ['H', '/a', False]


def gen_history(rng, stats, names=True, max_adds=8):
    with G.ctx_regexes(.3):
        return _gen_history(rng, stats, names, max_adds)


def _gen_history(rng, stats, names=True, max_adds=8):
    """op list (not yet played): adds interleaved with lookups; a quarter of the histories also install
    route hooks (before / after the registrations they share a pattern with)"""
    if rng.random() < .2:
        return gen_builtin_history(rng)
    ops = []
    asts = []
    n_add = rng.randint(1, max_adds)
    hooks = rng.random() < .25
    # lookups after (almost) every registration, so that every intermediate tree is probed
    head, tail = [], ['Q'] * rng.randint(2, 5)
    for _ in range(n_add):
        if hooks and rng.random() < .2:
            head.append('H')
        head.append('A')
        if rng.random() < .7:
            head += ['Q'] * rng.randint(1, 3)
        if hooks and rng.random() < .45:
            head += ['H'] + ['Q'] * rng.randint(1, 2)
    from ombott.router.radirouter import RadiRouter
    shadow = RadiRouter()          # only to know which rules are accepted (paths are derived from those)
    live = []
    for what in head + tail:
        if what == 'H':
            ops.append(gen_hook_op(rng, live or asts))
        elif what == 'A':
            if rng.random() < .08:
                rule, ast = rng.choice(SPECIAL_RULES), None
            else:
                rule, ast = G.gen_rule(rng, asts)
            if ast is not None:
                asts.append(ast)
                try:
                    shadow.add(rule, 'X%d' % len(ops), len)
                    live.append(ast)
                except Exception:
                    pass
            name = None
            if names and rng.random() < .12:
                name = rng.choice(['n1', 'n2', ''])
            ops.append(['A', rule, rng.choice(ADD_METHODS), name, rng.random() < .15])
            if rule in ('/u/:a', '/n/<x:int>'):
                asts.append([('lit', rule[1:3]), ('w', 'q', 'int' if 'int' in rule else None, None, None)])
        else:
            p = G.gen_path(rng, live if (live and rng.random() < .85) else asts)
            k = rng.random()
            if k < .55:
                ops.append(['R', p, rng.choice(RES_METHODS)])
            elif k < .62:
                ops.append(['R', p, []])
            elif k < .8:
                ops.append(['G', p.strip('/') if rng.random() < .8 else p])
            else:
                ops.append(['W', rng.choice(['GET', 'GET', 'POST', 'HEAD', 'get']), '/' + p if rng.random() < .7 else p])
    return ops


class C01(Check):
    pid = 'C01'
    props_mod = 'OmbottModel.Props.C01'
    tables = ['router', 'routerbuiltin', 'routeurl']
    design_ref = '6/C01'
    anchors = ['ombott/router/radidict.py', 'ombott/router/radirouter.py', 'ombott/router/filter_factory.py',
               'ombott/router/parser.py', 'ombott/router/sym_stream.py', 'ombott/ombott.py']
    level_text = ('Lean theorems over the model of Route.parse_rule, RadiDict (_match/_set/_split/_make_route/get) and '
                  'RadiRouter.add/resolve: lookup in every well-formed tree equals the plain rule-by-rule matcher with '
                  'literal-before-wildcard priority (get_eq_spec); insertion keeps the tree well formed and adds exactly '
                  'the rule (insert_wf, insert_denote); after every history of add/remove_method the tree holds exactly '
                  'the routes table and resolve = plain matcher over it (resolve_eq_rule_by_rule); kwargs are the names of '
                  'the rule text the handler was registered with, bound to its own filters\' values '
                  '(params_are_rule_names, filter_guard); for every filter environment, rex selectors included, a '
                  'handler is only called when its own rule matches and only with filter answers (get_sound, '
                  'handler_called_only_on_match); installing a route hook / per-prefix 404 handler after any edit history, on any pattern under any wildcard names, leaves handler, method and kwargs of every lookup unchanged (hooks_keep_handler_kwargs); every syntax flavour parses to the same abstract rule (parse_print). For rule sets that use only plain / int / '
                  'float / path wildcards the filter environment is no longer a parameter: resolve_eq_rule_by_rule_builtin and '
                  'filter_guard_builtin state the property over the concrete handlers of Model/RouterBuiltinEnv.lean (an int kwarg is '
                  'the integer value of the -?\\d+ text at that position, a float kwarg the numeral matched by -?\\d+(\\.\\d+)?, a '
                  'path kwarg the longest newline-free prefix followed by the literal that follows the wildcard), tied to the live '
                  'handlers by builtin_env_probes_agree (decide over a regenerated table). Model tied to the code by differential runs of whole registration/lookup histories, half of them replayed with the concrete built-in handlers (router histb).')
    level_note_extra = ('regex filters are a parameter (real handler results shipped per lookup); filters answering '
                        'with a rex selector are outside the completeness/priority theorems (NoSel; soundness holds for '
                        'every environment) and are covered there by correspondence only')
    rule = ('histories of 1-8 RadiRouter.add calls (rule ASTs printed in every syntax flavour, sharing/splitting prefixes, '
            'all filter kinds incl. rex selectors, malformed rules, several methods/names per pattern, names, overwrite) '
            'with lookups after almost every registration through RadiRouter.resolve, RadiDict.get(allow_partial) and '
            'Ombott.__call__ on paths derived from the accepted rules (per-regex samples) and mutated (empty segments, '
            'CR, LF, non-ASCII, extra text, extra slashes); 30% of the regex filters carry context-sensitive zero-width assertions '
            '(^ \\A \\b \\B, look-behinds on the characters literal runs are made of) so that matching on the remaining text and matching '
            'in place differ behind a literal; a quarter of the histories install route hooks / per-prefix 404 handlers on registered '
            'patterns and their prefixes under other wildcard names, before and after the registrations (compared with the model as '
            '`redit hist` lines, requests with the hooks observed); non-trivial = some lookup hits a wildcard rule. Thorough '
            'search adds the exhaustive scope: every rule set of <= 3 rules of a 14-rule universe x every path of '
            'length <= 5 over {a / 1 - CR}. A fifth of the histories use the built-in filter pool: path wildcards before '
            'literals made of regex metacharacters (.tar/ +x (1) [a] $ ^ | ? * \\d) continuing afterwards, with decoy '
            'occurrences later in the path; int/float with signs, leading zeros, Unicode digits, exponent-like text; '
            'plus driver probes of the live int/float/path handlers against the Lean reference semantics and against the concrete '
            'filter environment (router bfilter: value as shipped and characters consumed; Unicode digits, newlines, 15/16/17-digit and '
            'very long numerals, exponent-notation reprs).')
    assumptions = ['user regular expressions (re / rex filters) are a parameter of the tree-walk model (real handler results and compile errors shipped per lookup); the built-in filters int/float/path are concrete Lean functions in the `…_builtin` theorems and in the `router histb` lines (Model/RouterBuiltinEnv.lean, tied to the live handlers by builtin_env_probes_agree and by >= 1200 direct probes per run); float(text) is computed for numerals of at most 15 significant digits between 1e-291 and 1e300 (IEEE-754 15-digit round trip, not proved in Lean) and is a parameter beyond; in the remaining (opaque-environment) theorems the built-in filters are pinned separately: reference semantics Model/RouterBuiltin.lean tied to the live handlers by the regenerated mask/probe tables (builtin_masks_pinned, builtin_probes_agree) and by driver probes on random texts, and the search oracle re-states them from their documentation (Unicode digits included) and compiles user regexes itself',
                   're itself (matching of a compiled pattern) is trusted',
                   'rule text contains no CR (the router\'s own wildcard marker; rule_without_marker_ok) and no repeated wildcard name: outside, Python pairs filters and markers wrongly and the model does not follow',
                   'for filters answering with a rex selector (two-pass lookup) only soundness is proved (get_sound, handler_called_only_on_match); which rule wins / 404-completeness there is covered by correspondence (hypothesis NoSel of the other theorems)',
                   'str.upper on method names is a parameter of the model (ASCII in the correspondence run)',
                   '\\w of re is taken from the interpreter (generated code point ranges)']

    def __init__(self):
        self.stats = {}

    def budget(self, tier, escalated):
        n = 900 if tier == "quick" else 40000
        return n * (3 if escalated and tier == 'quick' else 1)

    def nontrivial(self, sample):
        return bool(sample.get('wild_hit'))

    def _bump(self, k, n=1):
        self.stats[k] = self.stats.get(k, 0) + n

    # ------------------------------------------------------------------
    def corr(self, rng, n):
        out = []
        for _ in range(n):
            ops = gen_history(rng, self.stats)
            run = make_runner(ops)
            # half of the histories are replayed by the model with the handlers of int / float / path
            # computed concretely (`router histb`, Model/RouterBuiltinEnv.lean) instead of shipped
            # (histories with route hooks go to the model as `redit hist` lines)
            run.histb = rng.random() < .5 and not has_hooks(ops)
            try:
                play(run, ops)
            except core.Hang:
                self._bump('hang-skipped')
                continue
            if run.env_overflow:
                self._bump('env-overflow-skipped')
                continue
            wild_hit = False
            for op, ans in zip(run.ops, run.answers):
                kind = op[0] + ':' + ans.split(':')[0]
                self._bump(kind)
                if ans.startswith('err:'):
                    self._bump('add-' + ans)
                if ans.startswith('hit:') and ('=s.' in ans or '=c.' in ans or ':s.' in ans or ':c.' in ans):
                    wild_hit = True
            self._bump('ops', len(run.ops))
            self._bump('hist-with-route-hooks' if has_hooks(ops) else
                       'hist-concrete-builtins' if run.histb else 'hist-shipped-filters')
            if any(op[0] == 'A' and any(x in op[1] for x in CTX_MARKS) for op in ops):
                self._bump('hist-context-sensitive-regex')
            out.append((run.line(), run.answer(), dict(ops=ops, wild_hit=wild_hit)))
        out += self.corr_builtin(rng, n)
        return out

    BUILTIN_ALPHA = list('0123456789--..e/+x(1)[a]$^|?*a') + ['.tar/', 'é']

    def corr_builtin(self, rng, n):
        """the live handlers of int / float / path against the reference semantics of
        Model/RouterBuiltin.lean on random ASCII-digit texts"""
        from ombott.router.filter_factory import FilterFactory
        from harness.tables.routerbuiltin import PATH_CONFS, val_text
        out = []
        for _ in range(n):
            name = rng.choice(['int', 'float', 'path', 'path'])
            conf = None
            if name == 'path':
                conf = rng.choice(PATH_CONFS + ['+x(1)', 'a.', '//', '1'])
            text = ''.join(rng.choice(self.BUILTIN_ALPHA) for _ in range(rng.randint(0, 9)))
            if name != 'path' and rng.random() < .7:
                text = rng.choice(['', '-', '', '00']) + str(rng.randrange(1000)) + rng.choice(['', '.', '.5', '.50']) + text
            if name == 'path' and conf and rng.random() < .6:
                text = text + conf + (text[:2] + conf if rng.random() < .4 else '')
            try:
                h = FilterFactory.make_filter(name, conf)[0]
                v, k, sel = h(text)
                ans = '~' if v is None else '%s:%d' % (core.hs(val_text(name, v, text, k)), k)
            except Exception as e:          # a built-in filter that cannot be built / applied
                v, ans = None, 'err:' + G.err_name(e)
            self._bump('builtin-' + name + ('-hit' if v is not None else '-miss'))
            out.append(('router builtin %s %s %s' % (core.hs(name), core.hs(conf or ''), core.hs(text)), ans,
                        dict(kind='builtin', filter=name, conf=conf, text=text)))
        out += self.corr_concrete(rng, n + 300)
        return out

    CONCRETE_ALPHA = list('0123456789--..e/+x(1)[a]$^|?*a\n') + ['.tar/', 'é', '٣', '۵', '\r', '00', '.0']

    def corr_concrete(self, rng, n):
        """the live handlers against the *concrete* filter environment the `…_builtin` theorems are
        stated over (`router bfilter`: value as shipped and characters consumed; Unicode digits,
        newlines, long numerals, values whose repr uses exponent notation)"""
        from ombott.router.filter_factory import FilterFactory
        from harness.tables.routerbuiltin import PATH_CONFS
        out = []
        for _ in range(n):
            name = rng.choice(['int', 'float', 'float', 'path', 'path'])
            conf = None
            if name == 'path':
                conf = rng.choice(PATH_CONFS + ['+x(1)', 'a.', '//', '1', '\n', '-5', '.0', 'é'])
            elif name == 'int':
                conf = rng.choice([None, None, ''])
            text = ''.join(rng.choice(self.CONCRETE_ALPHA) for _ in range(rng.randint(0, 9)))
            if name != 'path' and rng.random() < .8:
                k = rng.random()
                if k < .5:
                    num = str(rng.randrange(1000)) + rng.choice(['', '.', '.5', '.50', '.0', '.000'])
                elif k < .7:
                    num = '0.' + '0' * rng.randint(0, 25) + str(rng.randrange(1, 10 ** rng.randint(1, 17)))
                elif k < .9:
                    num = str(rng.randrange(1, 10 ** rng.randint(1, 18))) + '0' * rng.choice([0, 0, 3, 8, 20]) + \
                        rng.choice(['', '.0', '.5', '.' + str(rng.randrange(10 ** 6))])
                else:
                    num = rng.choice(['1' + '0' * 309, '0.' + '0' * 330 + '1', '9' * 15 + '0' * 290, '0.' + '0' * 288 + '12',
                                      '٣.٥', '۱۲', '1٣.٥0'])
                text = rng.choice(['', '-', '', '00']) + num + text
            if name == 'path' and conf and rng.random() < .6:
                text = text + conf + (text[:2] + conf if rng.random() < .4 else '')
            fid = '%s(%s)' % (name, conf)
            fc = '~'
            try:
                h = FilterFactory.make_filter(name, conf)[0]
                v, k, sel = h(text)
                ans = '~' if v is None else '%s:%d' % (G.enc_val(v), k)
                if name == 'float' and v is not None:
                    fc = G.enc_val(v)
                    self._bump('concrete-float-' + ('shipped-conv' if G.float_inexact(text[:k]) else 'exact'))
            except Exception as e:
                v, ans = None, 'err:' + G.err_name(e)
            self._bump('concrete-' + name + ('-hit' if v is not None else '-miss'))
            out.append(('router bfilter %s %s %s' % (core.hs(fid), core.hs(text), fc), ans,
                        dict(kind='bfilter', fid=fid, text=text)))
        return out

    # ------------------------------------------------------------------
    def oracle(self, ops):
        """plays ops on the real code and checks every lookup against the plain rule-by-rule
        semantics; returns list of (key, what)"""
        from ombott.router.radirouter import Route
        run = G.Runner()
        rules = {}        # pattern -> filters (real handlers)
        reg = {}          # pattern -> {METHOD: param names of the rule it was registered under}
        bad = []
        nh = 0
        for op in ops:
            if op[0] == 'A':
                _, rule, methods, name, ow = op
                ans = run.add(rule, methods, None, ow)      # names are not part of C01
                if rule in BUILTIN_RULES and ans.startswith('err:') and \
                        ans not in ('err:RadiDictKeyError', 'err:RouteMethodError'):
                    bad.append(('valid-rule-rejected', f'registration of {rule!r} raised {ans[4:]}'))
                if ans.startswith('ok:'):
                    pat, filters, params = G.rule_spec(rule)
                    if G.TOKEN in rule or len(set(params)) != len(params):
                        return bad                            # outside the property's rules
                    rules[pat] = filters
                    ms = [methods] if isinstance(methods, str) else methods
                    for m in ms:
                        reg.setdefault(pat, {})[m.upper()] = params
            elif op[0] == 'D':
                return bad
            elif op[0] == 'H':
                # a route hook / per-prefix 404 handler is not a rule: whatever its pattern and however it
                # spells the wildcards, `rules` and `reg` (what every handler must be called with) stay
                run.ops.append('N')
                run.answers.append('skip')
                nh += 1
                hook = (lambda path, values, k=nh: 'p%d' % k) if op[2] else (lambda path: None)
                try:
                    core.with_timeout(lambda: run.router.add_hook(op[1], hook, 1 if op[2] else 0))
                except core.Hang:
                    raise
                except Exception:
                    pass
            elif op[0] in ('R', 'W', 'G'):
                run.ops.append('N')          # keeps Runner positions equal to op positions
                run.answers.append('skip')
                if op[0] == 'R':
                    path, methods = op[1], op[2] or ['GET', 'ANY']
                elif op[0] == 'G':
                    path, methods = op[1], ['GET', 'ANY']
                else:
                    verb = op[1].upper()
                    path, methods = op[2], [verb] + (['GET'] if verb == 'HEAD' else []) + ['ANY']
                p = path.strip('/')
                spec = core.with_timeout(lambda: G.spec_resolve(rules, p))
                if spec[0] == 'skip':
                    continue
                ep, err = core.with_timeout(lambda: run.router.resolve(path, list(methods)))
                ctx = f'rules={sorted(reg)!r} path={path!r} methods={methods}'
                if spec[0] == 'none':
                    if ep or err[0] != 404:
                        bad.append(('false-match', f'no rule matches, router answered {"a handler" if ep else err[0]}: {ctx}'))
                    continue
                _, pat, vals = spec
                if not ep:
                    if err[0] == 404:
                        bad.append(('false-404', f'rule {pat!r} matches, router answered 404: {ctx}'))
                    continue
                meth, kw, hooks = ep
                if meth.route.pattern != pat:
                    bad.append(('wrong-route', f'selected {meth.route.pattern!r}, rule-by-rule selects {pat!r}: {ctx}'))
                    continue
                names = reg[pat].get(meth.name)
                if names is None:
                    continue
                exp = {n: v for n, v in zip(names, vals) if not n.startswith('anon-')}
                if set(kw) != set(exp):
                    bad.append(('kwargs-names', f'handler kwargs {sorted(kw)} but its rule names {sorted(exp)}: {ctx}'))
                elif kw != exp or any(type(kw[k]) is not type(exp[k]) for k in kw):
                    bad.append(('kwargs-values', f'handler kwargs {kw!r}, filters give {exp!r}: {ctx}'))
                if op[0] == 'W':
                    status, allow, calls = run.wsgi_raw(op[1], op[2])
                    if status == 404:
                        bad.append(('false-404', f'through WSGI: rule {pat!r} matches, answered 404: {ctx}'))
                    elif status == 200 and (len(calls) != 1 or calls[0][2] != exp):
                        # (which handler / 405 is C02's business)
                        bad.append(('wsgi-kwargs', f'through WSGI: calls {calls!r}, expected kwargs {exp!r}: {ctx}'))
        return bad

    UNIVERSE = ['/a', '/a/b', '/a/:x', '/a/<x:int>', '/:x', '/:x/a', '/a<x:int>', '/<p:path>', '/a/<x:re:a+>',
                '/:x/:y', '/a/:x/b', '/<x:int>/a', '/a/1', '/<x>-<y>']
    SCOPE_ALPHA = ['a', '/', '1', '-', '\r']

    def exhaustive(self):
        """thorough tier: every rule set of <= 3 rules of UNIVERSE x every path of length <= 5 over
        SCOPE_ALPHA, real router against the plain rule-by-rule matcher (validation of the code
        against the specification, not of the model)"""
        import itertools
        from ombott.router.radirouter import RadiRouter, Route
        paths = ['']
        for L in range(1, 6):
            paths += [''.join(t) for t in itertools.product(self.SCOPE_ALPHA, repeat=L)]
        findings, evals = [], 0
        for k in (1, 2, 3):
            for combo in itertools.combinations(self.UNIVERSE, k):
                R = RadiRouter()
                rules, names = {}, {}
                for i, rule in enumerate(combo):
                    try:
                        R.add(rule, 'GET', (lambda i: (lambda **kw: i))(i))
                    except Exception:
                        continue
                    pat, filters, params = G.rule_spec(rule)
                    rules[pat], names[pat] = filters, params
                for path in paths:
                    evals += 1
                    spec = G.spec_resolve(rules, path.strip('/'))
                    ep, err = R.resolve(path, ['GET'])
                    bad = None
                    if spec[0] == 'none':
                        if ep:
                            bad = ('false-match', 'no rule matches, router answered a handler')
                    elif spec[0] == 'one':
                        exp = {n: v for n, v in zip(names[spec[1]], spec[2]) if not n.startswith('anon-')}
                        if not ep:
                            bad = ('false-404', f'rule {spec[1]!r} matches, router answered 404')
                        elif ep[0].route.pattern != spec[1]:
                            bad = ('wrong-route', f'selected {ep[0].route.pattern!r}, rule-by-rule selects {spec[1]!r}')
                        elif ep[1] != exp:
                            bad = ('kwargs-values', f'kwargs {ep[1]!r}, filters give {exp!r}')
                    if bad:
                        ops = [['A', r, ['GET'], None, False] for r in combo] + [['R', path, ['GET']]]
                        findings.append(Finding(f'C01:{bad[0]}', f'{bad[1]}: rules={list(combo)} path={path!r}', dict(ops=ops)))
                        if len(findings) > 50:
                            return evals, findings
        self.stats['exhaustive-scope-lookups'] = evals
        return evals, findings

    def search(self, rng, n, seeds):
        findings, evals = [], 0
        if n >= 20000:
            evals, findings = self.exhaustive()
        cases = [s['ops'] for s in seeds if 'ops' in s]
        # the two historical defects and their neighbourhood, always
        cases.append([['A', '/n/<x:int>', ['GET'], None, False], ['R', '/n/\r', ['GET', 'ANY']], ['W', 'GET', '/n/\r']])
        cases.append([['A', '/u/:a', ['GET'], None, False], ['A', '/u/:b', ['POST'], None, False],
                      ['R', '/u/1', ['POST', 'ANY']], ['W', 'POST', '/u/1']])
        for _ in range(n):
            cases.append(gen_history(rng, {}, names=False))
        for ops in cases:
            evals += 1
            try:
                bad = self.oracle(ops)
            except core.Hang:
                bad = [('hang', 'lookup did not return within the watchdog')]
            except Exception as e:
                bad = [('exception', f'{type(e).__name__}: {e}')]
            for key, what in bad:
                findings.append(Finding(f'C01:{key}', what, dict(ops=ops)))
        return evals, findings

    def replay(self, data):
        ops = data['input']['ops']
        run = make_runner(ops)
        play(run, ops)
        return dict(ops=ops, implementation=list(zip(run.ops, run.answers)) if len(run.ops) < 40 else run.answers,
                    oracle=self.oracle(ops))


# the composed stream (one real application, one request, against App.serve of Model/App.lean)
from harness import applib as _applib  # noqa: E402
_applib.install(C01, quick=(300, 120), thorough=(10000, 3000))
from harness import intlimlib as _intlim  # noqa: E402
_intlim.install(C01)
