"""writes harness/pins.json: a hash of the anchored source files of every check as they are in the
repository now.  A run whose anchors hash differently is not failed; its correspondence simply runs
at the escalated budget (DESIGN.md section 3.2, source-drift escalation).
    PYTHONPATH=/verif /venv/bin/python -m harness.mkpins"""
import importlib
import json
import os

from harness import core


def main():
    pins = {}
    for i in range(1, 21):
        pid = f'C{i:02d}'
        if os.path.exists(os.path.join(core.VERIF, 'harness', pid.lower() + '.py')):
            cls = getattr(importlib.import_module('harness.' + pid.lower()), pid)
            pins[pid] = core.anchor_hash(cls.anchors)
    with open(os.path.join(core.VERIF, 'harness', 'pins.json'), 'w') as f:
        json.dump(pins, f, indent=1, sort_keys=True)
    print(pins)


if __name__ == '__main__':
    main()
