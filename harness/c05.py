"""C05 - Chunked transfer decoding is exact and rejects every truncation."""
from harness import core, bodylib as bl
from harness.core import Check, Finding, hb

TES = ['chunked', 'chunked', 'Chunked', 'CHUNKED', 'gzip, chunked', ' chunked ']
CLIENT_ERRORS = ('BodyParsingError', 'BodySizeError')


def mutate(rng, enc):
    """a malformed relative of a legal encoding; returns (bytes, kind)"""
    raw = enc.encode()
    k = rng.randrange(8)
    if k == 0 and raw:                                  # truncation
        return raw[:rng.randrange(len(raw))], 'cut'
    if k == 1:                                          # substitute one framing byte
        offs = enc.framing_offsets()
        o = rng.choice(offs)
        return raw[:o] + bytes([rng.choice(bl.GARBAGE)]) + raw[o + 1:], 'subst-framing'
    if k == 2:                                          # delete one framing byte
        o = rng.choice(enc.framing_offsets())
        return raw[:o] + raw[o + 1:], 'del-framing'
    if k == 3:                                          # insert a byte somewhere
        o = rng.randint(0, len(raw))
        return raw[:o] + bytes([rng.choice(bl.GARBAGE)]) + raw[o:], 'insert'
    if k == 4 and enc.chunks:                           # wrong size
        i = rng.randrange(len(enc.chunks))
        p, sp, ext = enc.chunks[i]
        cs = list(enc.chunks)
        cs[i] = (p, bl.spell(max(0, len(p) + rng.choice([-1, 1, 2, 16]))), ext)
        return bl.Enc(cs, enc.last, enc.trailer).encode(), 'wrong-size'
    if k == 5:                                          # lenient / odd size spellings
        sp = rng.choice([b'0x5', b'0X5', b'+5', b'-5', b'-0', b'0_5', b'5_', b'_5', b' 5', b'5 ', b'\t5',
                         b'0x', b'', b'5\r5', b'5\n', b'g', b'1\r2', b'00005', b'5;', b'--5', b'0x_5',
                         b'\x0b5', b'5\x0c', b'\xb5', b'5\x00'])
        p = bl.gen_payload(rng, rng.choice([0, 5, 5, 18, 21]))
        return sp + b'\r\n' + p + b'\r\n' + rng.choice([b'0\r\n', b'0\r\n\r\n', b'', b'-0\r\n']), 'odd-spelling'
    if k == 6:
        return bl.gen_garbage(rng), 'garbage'
    return raw + bl.gen_garbage(rng), 'appended'


class C05(Check):
    pid = 'C05'
    props_mod = 'OmbottModel.Props.C05'
    tables = ['body']
    design_ref = '6/C05'
    anchors = ['ombott/request_pkg/body_mixin.py', 'ombott/request_pkg/errors.py', 'ombott/ombott.py',
               'ombott/request_pkg/request.py']
    level_text = ('Lean theorems over the model of _iter_chunked (byte-wise size-line scanner with its flags and '
                  'buffer bound, int(x,16) grammar, payload loop, CRLF check) for all encodings, schedules and '
                  'buffers: exact decoding of every legal encoding, rejection of every strict prefix and of a '
                  'missing CRLF, totality (only acceptance, BodyParsingError or BodySizeError), a rejected body '
                  'stays rejected over every later access on the request, canonical hex spellings are legal, 4xx via the '
                  'generated errors_map; model tied to the code by a differential run through _body_read and WSGI.')
    level_note_extra = 'a size line longer than the buffer is rejected by design (resource bound), proved as such'
    rule = ('chunk lists (sizes 1..40, upper/lower hex, leading zeros, extensions, trailers) x buffer x read '
            'schedules; strict prefixes, single-byte substitution/deletion/insertion in framing, wrong sizes, '
            'lenient int() spellings, garbage over the framing alphabet; through _body_read and a WSGI call; '
            'plus the encoder of the round-trip theorem against an independent Python encoder; overlap axis: a '
            'complete decode of another request runs inside this request\'s read callback (every k-th / every single '
            'call, same thread or another thread, unit and WSGI) or the two generators are advanced alternately - '
            'results must equal the solo results; '
            'non-trivial = at least one chunk or a malformed input')
    assumptions = ['wsgi.input.read(n) returns at most n bytes and returns b"" only at end of data (the stream model)',
                   'legal encoding = RFC 7230 chunked-body whose chunk extensions contain no LF',
                   'a size line (CRLF included) longer than max_memfile_size is rejected by design']

    def __init__(self):
        self.stats = {}

    def budget(self, tier, escalated):
        n = 3000 if tier == "quick" else 240000
        return n * (4 if escalated and tier == 'quick' else 1)

    def nontrivial(self, sample):
        return sample.get('kind') != 'encode' and (sample.get('chunks', 0) > 0 or sample.get('mut') is not None)

    # ------------------------------------------------------------------
    def _emit(self, out, rng, raw, buf, sched, maxb, meta, wsgi):
        st = self.stats
        hook, ov = None, None
        if rng.random() < .2:
            # overlap axis: a complete decode of another request runs inside this one's read callback;
            # the model has no shared state, so the expected answer is the solo line
            b = bl.gen_overlap_b(rng, rng.random() < .85)
            mode = rng.choice(['wsgi', 'thread-wsgi'] if wsgi else ['unit', 'unit', 'thread-unit'])
            spec = bl.gen_spec(rng, max(4, len(raw) + 2))
            sink = []
            hook = (bl.when_of(spec), bl.b_runner(mode, b, sink))
            ov = dict(mode=mode, spec=spec, b=bl.pack_req(b))
            meta = dict(meta, overlap=ov)
            bl.bump(st, 'overlap:' + mode)
        if not wsgi:
            cl = rng.choice([-1, 0, len(raw), 3])
            res = bl.run_read(raw, sched, buf, cl, True, maxb, hook=hook)
            if ov and ov['mode'] == 'unit':
                for ans in sink[:2]:       # B itself, decoded in the middle of A, against its model line
                    out.append((bl.line_read(b['raw'], b['sched'], b['buf'], b['cl'], b['chunked'], None), ans,
                                dict(kind='read', buf=b['buf'], max=None, sched=b['sched'][:8], full_sched=b['sched'],
                                     raw=b['raw'].hex(), chunks=1, mut=None, nested_in=raw.hex())))
            out.append((bl.line_read(raw, sched, buf, cl, True, maxb), bl.ans_read(res),
                        dict(kind='read', buf=buf, max=maxb, sched=sched[:8], full_sched=sched, raw=raw.hex(), **meta)))
            bl.bump(st, f'unit:{meta.get("mut") or "legal"}:' + ('ok' if res['ok'] else res['err']))
        else:
            te = rng.choice(TES)
            clh = rng.choice([None, None, None, str(len(raw)), '2'])
            ops = rng.choice([['B'], ['B'], ['B', 'B'], ['B', 'S'], ['S'], ['P2', 'B', 'I'], ['?B', 'B'], ['?B', '?B', 'I'],
                              ['?S', '?B'], ['?B', '?S', '?B']])
            if rng.random() < .15:      # the application replaces wsgi.input (another chunked body) and reads again
                e2 = bl.gen_enc(rng, 3, 20)
                r2 = e2.encode() if rng.random() < .7 else mutate(rng, e2)[0]
                rp = bl.rop(r2, bl.gen_sched(rng, max(1, len(r2)))[:40])
                ops = rng.choice([['?B', rp, 'B'], ['B', rp, 'B', 'I'], ['?B', rp, '?B', '?S'], ['?S', 'K', rp, '?B', 'O', '?B']])
                bl.bump(st, 'wsgi:replace-input')
            mk = '@' if rng.random() < .8 else rng.choice(list(bl.MAPS))
            res = bl.run_wsgi(mk, buf, maxb, clh, te, raw, sched, ops, hook=hook)
            out.append((bl.line_wsgi(mk, buf, maxb, clh, te, raw, sched, ops), bl.ans_wsgi(res),
                        dict(kind='wsgi', buf=buf, max=maxb, te=te, cl_header=clh, ops=ops, map=mk, sched=sched[:8],
                             full_sched=sched, raw=raw.hex(), **meta)))
            bl.bump(st, f'wsgi:{meta.get("mut") or "legal"}:status{res["status"]}')

    def corr(self, rng, n):
        out, st = [], self.stats
        for i in range(n):
            enc = bl.gen_enc(rng)
            legal = rng.random() < .45
            if legal:
                raw, mut = enc.encode(), None
                buf = bl.buf_for(rng, enc, rng.random() < .8)
            else:
                raw, mut = mutate(rng, enc)
                buf = bl.buf_for(rng, enc, rng.random() < .6)
            sched = bl.gen_sched(rng, max(1, len(raw)))
            maxb = None      # size limits under chunked framing are exercised by C13
            meta = dict(chunks=len(enc.chunks), mut=mut, payload_len=len(enc.payload()))
            self._emit(out, rng, raw, buf, sched, maxb, meta, wsgi=(i % 3 == 2))
            bl.bump(st, f'chunks{len(enc.chunks)}')
        # the encoder and speller of the round-trip theorem against the independent Python encoder
        for i in range(max(50, n // 20)):
            enc = bl.gen_enc(rng)
            out.append((f'body encode {enc.line_arg()}', hb(enc.encode()), dict(kind='encode')))
            v, up, z = rng.choice([0, 1, 9, 10, 15, 16, 255, 256, 4095, rng.randrange(1 << 20)]), rng.random() < .5, rng.randrange(4)
            out.append((f'body spell {1 if up else 0} {z} {v}', hb(bl.spell(v, up, z)), dict(kind='encode')))
        return out

    # ------------------------------------------------------------------
    def _check_one(self, raw, buf, sched, expect, what, clk=None):
        bad = self._check_one_cl(raw, buf, sched, expect, what, clk)
        if bad and clk is not None:      # the key stays the site; the message says which framing headers were sent
            bad = (bad[0], bad[1] + f' [Transfer-Encoding: chunked together with a Content-Length header ({clk})]')
        return bad

    def _check_one_cl(self, raw, buf, sched, expect, what, clk):
        """expect: ('ok', payload) | ('reject',) | ('total',) | ('ok-or-reject', payload)"""
        # a Content-Length header next to Transfer-Encoding: chunked (rfc7230 3.3.3: the transfer coding decides
        # the framing, the length does not) - equal to the bytes sent, shorter, longer, zero; for the same request
        # without one the answer must be the same, so one expectation serves all of them
        clv = {None: None, 'len': len(raw), 'short': max(0, len(raw) - 3), 'long': len(raw) + 9, 'zero': 0, 'three': 3}[clk]
        r = bl.run_read(raw, sched, buf, -1 if clv is None else clv, True, None)
        w = bl.run_wsgi('@', buf, None, None if clv is None else str(clv), 'chunked', raw, sched, ['B'])
        got_w = w['info'].get('bodies', [None])[0] if w['status'] == 200 else None
        if r['err'] == 'HANG' or w['status'] == 'HANG':
            return 'hang', f'{what}: the decoder does not terminate'
        if expect[0] == 'ok':
            if not r['ok'] or r['bytes'] != expect[1]:
                return 'legal:unit-wrong', f'{what}: _body_read gave {r["err"] or "other bytes"} for a legal encoding'
            if w['status'] != 200 or got_w != expect[1]:
                return 'legal:wsgi-wrong', f'{what}: WSGI answered {w["status"]} / other bytes for a legal encoding'
        elif expect[0] == 'reject':
            if r['ok'] or r['err'] != 'BodyParsingError':
                return f'{what}:unit-accepted', f'{what}: _body_read ' + ('accepted it' if r['ok'] else f'raised {r["err"]}')
            if w['status'] != 400:
                return f'{what}:wsgi-status', f'{what}: WSGI answered {w["status"]}, expected 400'
        elif expect[0] == 'ok-or-reject':
            if r['ok'] and r['bytes'] != expect[1]:
                return f'{what}:wrong-body', f'{what}: accepted with a body other than the payload'
            if not r['ok'] and r['err'] not in CLIENT_ERRORS:
                return f'{what}:unit-exception', f'{what}: _body_read raised {r["err"]}'
            if w['status'] not in (200, 400, 413) or (w['status'] == 200 and got_w != expect[1]):
                return f'{what}:wsgi-status', f'{what}: WSGI answered {w["status"]}'
        else:
            if not r['ok'] and r['err'] not in CLIENT_ERRORS:
                return 'garbage:unit-exception', f'{what}: _body_read raised {r["err"]}'
            if w['status'] not in (200, 400, 413):
                return 'garbage:wsgi-status', f'{what}: WSGI answered {w["status"]}'
        if not r['ok']:
            # a rejected body stays rejected: a handler that caught the error and asks again must not be
            # handed whatever is left of the stream as a complete body
            w2 = bl.run_wsgi('@', buf, None, None, 'chunked', raw, sched, ['?B', '?B', '?S'])
            toks = w2['outs']
            if len(toks) != 3 or any(not t.startswith('e:HTTP4') for t in toks):
                return ('second-access-after-error',
                        f'{what}: first Request.body access was rejected, later accesses gave {toks[1:]}')
            # ... unless the application supplies a new stream: that one is decoded afresh
            good = bl.Enc([(b'fresh body', b'A', b'')])
            w3 = bl.run_wsgi('@', buf, None, None, 'chunked', raw, sched, ['?B', bl.rop(good.encode(), [1, 2]), 'B'])
            if buf >= 3 and (w3['status'] != 200 or w3['info'].get('bodies') != [b'fresh body']):
                return ('replace:after-rejected-read',
                        f'{what}: rejected, then request["wsgi.input"] = a legal encoding: status {w3["status"]}, outs {w3["outs"]}')
        else:
            # what forms / json are built from is never a silent truncation of what request.body shows:
            # _get_body_string returns the whole decoded body or is refused (413 over the threshold)
            w4 = bl.run_wsgi('@', buf, None, None, 'chunked', raw, sched, ['M', 'B'], ctype='application/x-www-form-urlencoded')
            if w4['status'] == 200:
                shown = w4['info']['bodies'][0]
                m = int(w4['outs'][0][2:])
                if m != len(shown):
                    return ('form-text-truncated', f'{what}: request.body shows {len(shown)} bytes, the form/JSON text '
                            f'accessor returned {m} of them without an error')
            elif w4['status'] != 413:
                return ('form-text-status', f'{what}: form text accessor on a decodable chunked body answered {w4["status"]}')
        return None

    def _oracle(self, case):
        """case = dict(chunks=[(payload,spelling,ext)..] hex, last, trailer, buf, sched, probe, ...)"""
        kind = case['probe']
        if kind == 'overlap':
            bad = bl.overlap_check(bl.unpack_req(case['a']), bl.unpack_req(case['b']), case['mode'], case['spec'])
            return ('overlap:result-differs-from-solo', bad) if bad else None
        sched = case['sched']
        if kind == 'raw':
            return self._check_one(bytes.fromhex(case['raw']), case['buf'], sched, ('total',), 'garbage', case.get('clh'))
        enc = bl.Enc([(bytes.fromhex(p), bytes.fromhex(s), bytes.fromhex(e)) for p, s, e in case['chunks']],
                     (bytes.fromhex(case['last'][0]), bytes.fromhex(case['last'][1])), bytes.fromhex(case['trailer']))
        raw, buf = enc.encode(), case['buf']
        if kind == 'legal':
            if buf >= enc.max_line():
                return self._check_one(raw, buf, sched, ('ok', enc.payload()), 'legal', case.get('clh'))
            return self._check_one(raw, buf, sched, ('ok-or-reject', enc.payload()), 'long-line', case.get('clh'))
        if kind == 'prefix':
            return self._check_one(raw[:case['cut']], buf, sched, ('reject',), 'prefix', case.get('clh'))
        if kind == 'crlf':
            o = case['off']
            bad = raw[:o] + bytes.fromhex(case['pair']) + raw[o + 2:]
            return self._check_one(bad, buf, sched, ('reject',), 'missing-crlf', case.get('clh'))
        if kind == 'crlf-del':
            o = case['off']
            bad = raw[:o] + raw[o + 1:]
            return self._check_one(bad, buf, sched, ('reject',), 'missing-crlf', case.get('clh'))
        if kind == 'subst':
            o = case['off']
            bad = raw[:o] + bytes([case['byte']]) + raw[o + 1:]
            return self._check_one(bad, buf, sched, ('total',), 'garbage', case.get('clh'))
        raise AssertionError(kind)

    def _cases_of(self, rng, enc, buf, dense):
        base = dict(chunks=[(p.hex(), s.hex(), e.hex()) for p, s, e in enc.chunks],
                    last=(enc.last[0].hex(), enc.last[1].hex()), trailer=enc.trailer.hex(), buf=buf)
        raw = enc.encode()
        scheds = [[], [1] * (len(raw) + 2)]

        def mk(**kw):
            if rng.random() < (.5 if dense else .3):
                kw['clh'] = rng.choice(['len', 'len', 'short', 'long', 'zero', 'three'])
            if kw['probe'] in ('crlf', 'crlf-del') or dense:     # full 2-byte reads and 1-byte reads alike
                scheds.append(scheds.pop(0))
                if rng.random() < .8:
                    return dict(base, sched=scheds[0], **kw)
            return dict(base, sched=bl.gen_sched(rng, max(1, len(raw))), **kw)
        yield mk(probe='legal')
        cuts = range(enc.end_lf() + 1) if dense else sorted({rng.randint(0, enc.end_lf()) for _ in range(4)}
                                                             | {enc.end_lf(), enc.end_lf() - 1})
        for c in cuts:
            yield mk(probe='prefix', cut=c)
        for o in enc.crlf_after_data_offsets():
            pairs = [b'\r\r', b'\n\n', b'\n\r', b'\rX', b'X\n', b'ab', b'0\r'] if dense else \
                [rng.choice([b'\r\r', b'\n\n', b'\n\r', b'\rX', b'X\n', bytes([rng.randrange(256), rng.randrange(256)])])]
            for pr in pairs:
                if pr != b'\r\n':
                    yield mk(probe='crlf', off=o, pair=pr.hex())
            yield mk(probe='crlf-del', off=o)
            yield mk(probe='crlf-del', off=o + 1)
        offs = enc.framing_offsets()
        for o in (offs if dense else rng.sample(offs, min(3, len(offs)))):
            if dense == 'all':       # thorough tier: every byte of the framing alphabet at every framing offset
                for b in sorted(set(bl.GARBAGE)):
                    yield mk(probe='subst', off=o, byte=b)
            else:
                yield mk(probe='subst', off=o, byte=rng.choice(bl.GARBAGE))

    def _overlap_cases(self, rng, n):
        """overlap axis: B decoded completely at every single read call of A (inside a size line after
        the first digit, between line and payload, inside the payload, before the CRLF, before the
        last chunk ...), every k-th call, and the two generators advanced alternately"""
        out = []
        modes = ['unit', 'wsgi', 'thread-unit', 'thread-wsgi']
        fixed = [bl.Enc([(b'hello', b'5', b''), (b'w' * 0x1a, b'1a', b';x')]),
                 bl.Enc([(b'ab', b'02', b''), (b'cde', b'3', b''), (b'f', b'1', b'')], (b'00', b''), b'\r\n')]
        k = 0
        for enc in fixed:
            raw = enc.encode()
            for sched in ([], [1] * (len(raw) + 2)):
                a = dict(raw=raw, sched=sched, buf=max(8, enc.max_line()), cl=-1, chunked=True)
                for j in range(bl.solo_calls(a) + 1):
                    b = bl.gen_overlap_b(rng, j % 5 != 4)
                    out.append(dict(probe='overlap', a=bl.pack_req(a), b=bl.pack_req(b), mode=modes[k % 4], spec=['at', j]))
                    k += 1
                b = bl.gen_overlap_b(rng)
                for order in ('ab', 'aab', 'abb', 'aaab', 'ba'):
                    out.append(dict(probe='overlap', a=bl.pack_req(a), b=bl.pack_req(b), mode='alternate', spec=order))
        for _ in range(max(10, n // 25)):
            enc = bl.gen_enc(rng)
            raw = enc.encode() if rng.random() < .7 else mutate(rng, enc)[0]
            a = dict(raw=raw, sched=bl.gen_sched(rng, max(1, len(raw))), buf=bl.buf_for(rng, enc, True), cl=-1, chunked=True)
            b = bl.gen_overlap_b(rng, rng.random() < .85)
            if rng.random() < .25:
                out.append(dict(probe='overlap', a=bl.pack_req(a), b=bl.pack_req(b), mode='alternate',
                                spec=''.join(rng.choice('ab') for _ in range(rng.randint(2, 6))) + 'ab'))
            else:
                out.append(dict(probe='overlap', a=bl.pack_req(a), b=bl.pack_req(b), mode=rng.choice(modes),
                                spec=bl.gen_spec(rng, max(4, len(raw) + 2))))
        return out

    def search(self, rng, n, seeds):
        findings, evals, cases = [], 0, []
        for s in seeds:
            if 'raw' in s:
                cases.append(dict(probe='raw', raw=s['raw'], buf=s['buf'], sched=s['full_sched']))
            if s.get('overlap'):
                o = s['overlap']
                cases.append(dict(probe='overlap', mode=o['mode'], spec=o['spec'], b=o['b'],
                                  a=dict(raw=s['raw'], sched=s['full_sched'], buf=s['buf'], cl=-1, chunked=True)))
        cases += self._overlap_cases(rng, n)
        # dense scope on a few small encodings: every cut, every CRLF pair, every framing byte
        fixed = [bl.Enc([(b'hello', b'5', b'')]),
                 bl.Enc([(b'ab', b'2', b';x=1'), (b'\r\n0\r\n\r\n' + b'c' * 8, b'0F', b'')], (b'00', b';z'), b'T: 1\r\n\r\n'),
                 bl.Enc([], (b'0', b''), b'\r\n')]
        for enc in fixed:
            for buf in (enc.max_line(), 64):
                cases += list(self._cases_of(rng, enc, buf, 'all' if n >= 20000 else True))
        for _ in range(max(1, n // 30)):
            enc = bl.gen_enc(rng)
            cases += list(self._cases_of(rng, enc, bl.buf_for(rng, enc, rng.random() < .85), False))
        # the coordinator's red-team input: a rejected chunk followed by something decodable
        cases.append(dict(probe='raw', raw=b'3\r\nabcXX5\r\nhello\r\n0\r\n\r\n'.hex(), buf=64, sched=[]))
        for _ in range(n // 6):
            enc = bl.gen_enc(rng)
            raw, _ = mutate(rng, enc)
            cases.append(dict(probe='raw', raw=raw.hex(), buf=rng.choice([0, 1, 2, 4, 8, 64]),
                              sched=bl.gen_sched(rng, max(1, len(raw)))))
            if rng.random() < .3:
                cases[-1]['clh'] = rng.choice(['len', 'short', 'long', 'zero', 'three'])
        for c in cases:
            evals += 1
            try:
                bad = self._oracle(c)
            except Exception as e:
                bad = ('oracle-exception', f'{type(e).__name__}: {e}')
            bl.bump(self.stats, 'search:' + c['probe'])
            if bad:
                findings.append(Finding(f'C05:{bad[0]}', bad[1], c))
        return evals, findings

    def replay(self, data):
        if data.get('kind') == 'proof':
            return dict(note='proof obligation replay: rebuild the Props module', theorem=data.get('theorem'))
        if data.get('kind') == 'correspondence':
            return bl.replay_correspondence(data)
        i = data['input']
        return dict(input=i, oracle=self._oracle(i))
