"""C07 - multipart forms and uploads round-trip exactly."""
import io
import tempfile

from harness import core, formlib as fl
from harness.core import hb, hs, hbl, Check, Finding

JUNK = ['a', 'A', 'b', '=', ';', '"', ' ', ':', '\t', 'é', 'É', 'name', 'filename', '=""', '="', '";', 'x=y', 'form-data',
        '\\', "'", ',', 'NAME', 'FileName']


def gen_header_line(rng):
    k = rng.random()
    if k < .35:
        fn = None if rng.random() < .5 else fl.gen_name(rng, fl.FILENAME_POOL)
        return fl.disp_line(fl.gen_name(rng), fn)
    if k < .45:
        return 'Content-Type: ' + rng.choice(['text/plain', 'text/plain; charset=utf-8', 'a/b;x="y;z"; q=1', ' x ', 'a=b', ''])
    if k < .55:
        # parameters in other orders / spellings
        return rng.choice(['Content-Disposition: form-data; filename="f"; name="n"', 'Content-Disposition: form-data; NAME="n"',
                           'Content-Disposition: form-data; name=n', 'Content-Disposition: form-data; name', 'X:', 'X: ', ':',
                           'Content-Disposition: form-data; name=""', 'Content-Disposition: form-data; name="a"; name="b"',
                           'Content-Disposition: form-data; name="a"x; filename="b"', 'A: b; c="d;e"f; g', 'A: b; c="d', 'nocolon',
                           'Content-Disposition:form-data;name="a";filename=""', 'A: =', 'A: ;', 'A: ;;', 'A: b;=c', 'A: b; c=;d'])
    return ''.join(rng.choice(JUNK) for _ in range(rng.randint(0, 8)))


def show_header(h):
    opts = ','.join('%s:%s' % (hs(k), fl.show_opt(v)) for k, v in h.options.items()) or '-'
    return 'ok %s %s %s' % (hs(h.name), hs(h.value), opts)


def show_field(f):
    file = '~' if f.file is None else '%d:%d' % (f.file._st, f.file._end)
    return '(%s|%s|%s|%s|%s)' % (hs(f.name), fl.show_opt(f.value), fl.show_opt(f.filename), file, fl.show_opt(f.ctype))


def real_markups(boundary, chunks):
    from ombott.request_pkg.multipart import MultipartMarkup
    mm = MultipartMarkup(boundary)
    for c in chunks:
        mm.parse(c)
    return mm


def markups_arg(ms):
    return '.'.join('%s:%d:%d' % (m[0][0], m[1][0], m[1][1]) for m in ms) or '-'


def run_items(body, spooled, markups, max_read):
    from ombott.request_pkg.multipart import FieldStorage
    if spooled:
        src = tempfile.TemporaryFile(dir=None)
        src.write(body)
    else:
        src = io.BytesIO(body)
    items, exc = [], '-'
    try:
        for f in FieldStorage.iter_items(src, markups, max_read):
            items.append(show_field(f))
    except Exception as e:
        exc = fl.exc_name(e)
    finally:
        src.close()
    return 'items=%s exc=%s' % (''.join(items), exc)


def expected_views(fields):
    """(forms, files, POST) the property promises, printed like formlib.show_dict"""
    def item(f):
        if f[0] == 't':
            return 't:' + hs(f[2])
        return 'f:%s:%s:%s:%s' % (hs(f[1]), hs(f[2]), fl.show_opt(f[3]), hb(f[4]))

    def view(sel):
        d = {}
        for f in fields:
            if sel(f):
                d.setdefault(f[1], []).append(item(f))
        return '{' + ';'.join(hs(k) + '=' + (v[0] if len(v) == 1 else '[' + ' '.join(v) + ']') for k, v in d.items()) + '}'
    return view(lambda f: f[0] == 't'), view(lambda f: f[0] == 'f'), view(lambda f: True)


def readbacks(upload, n):
    """the content of an upload read back in several ways: [(how, bytes)]; `n` = expected length"""
    f = upload.file
    out = []

    def run(how, fn):
        try:
            f.seek(0)
            out.append((how, fn()))
        except Exception as e:
            out.append((how, 'raised %s' % type(e).__name__))

    def loop(k):
        def go():
            parts, guard = [], 0
            while True:
                p = f.read(k)
                guard += 1
                if not p or guard > n + 8:
                    return b''.join(parts)
                parts.append(p)
        return go
    run('read()', lambda: f.read())
    run('read(-1)', lambda: f.read(-1))
    run('read(None)', lambda: f.read(None))
    run('read(0)+read()', lambda: f.read(0) + f.read())
    for k in sorted({1, 7, max(1, n - 1), max(1, n), n + 1}):
        run('read(%s) loop' % ('len%+d' % (k - n) if k >= n - 1 and n > 8 else k), loop(k))
    run('partial read then read(-1)', lambda: f.read(max(1, n // 2)) + f.read(-1))
    run('partial read then read()', lambda: f.read(1) + f.read())
    run('seek(0,2);tell', lambda: b'x' * f.seek(0, 2))
    run('seek(-k,2);read', lambda: (f.seek(-min(3, n), 2), f.read())[1] if n else b'')
    if hasattr(f, 'readline'):
        run('readline loop', lambda: b''.join(iter(f.readline, b'')))
    if hasattr(f, '__iter__'):
        run('iteration', lambda: b''.join(f))
    buf = io.BytesIO()
    run('save()', lambda: (upload.save(buf, chunk_size=5), buf.getvalue())[1])
    return out


def interleaved_readback(ups, salt=0):
    """ups: [(label, upload, content)] - all uploads of ONE request, which share the buffered body.  A handler may read
    them in interleaved blocks (diffing / zipping two uploads, round-robin streaming): every single operation must
    answer as it would on a private copy of that upload's content (a BytesIO of the bytes posted).
    Returns None or a description of the first operation that differs."""
    import random
    for u in ups:
        u[1].file.seek(0)

    def check(refs, i, op, *args):
        label, up, content = ups[i]
        try:
            got = getattr(up.file, op)(*args)
        except Exception as e:
            got = 'raised %s' % type(e).__name__
        want = getattr(refs[i], op)(*args)
        if got != want:
            shown = got if not isinstance(got, bytes) else got[:40].hex() + ('...' if len(got) > 40 else '')
            wshown = want if not isinstance(want, bytes) else want[:40].hex() + ('...' if len(want) > 40 else '')
            return (f'{len(ups)} uploads of one form read in interleaved blocks: {op}{args} on upload {label} gave {shown} '
                    f'({len(got) if isinstance(got, bytes) else "-"} bytes), its own content gives {wshown}')
        return None
    # round-robin block reads, several block sizes, until every upload is exhausted
    longest = max(len(c) for _, _, c in ups)
    for k in sorted({1, 2, 5, max(1, longest // 3), 64}):
        refs = [io.BytesIO(c) for _, _, c in ups]
        for i in range(len(ups)):
            ups[i][1].file.seek(0)
        for _ in range(longest // k + 2):
            for i in range(len(ups)):
                bad = check(refs, i, 'read', k)
                if bad:
                    return bad
    # a random interleaving of partial reads, repositionings and tells
    rnd = random.Random(salt * 7919 + longest)
    refs = [io.BytesIO(c) for _, _, c in ups]
    for i in range(len(ups)):
        ups[i][1].file.seek(0)
    for _ in range(12 + 4 * len(ups)):
        i = rnd.randrange(len(ups))
        n = len(ups[i][2])
        r = rnd.random()
        if r < .6:
            bad = check(refs, i, 'read', rnd.choice([1, 2, 3, max(1, n // 2), max(1, n - 1), n + 5]))
        elif r < .8:
            bad = check(refs, i, 'seek', rnd.randint(0, n))
        elif r < .9:
            bad = check(refs, i, 'tell')
        else:
            bad = check(refs, i, 'read')
        if bad:
            return bad
    return None


def data_zones(boundary, fields):
    """[(start, end)] of every part's data in encode_form(...)"""
    pos, out = 2 + len(boundary.encode('utf8')), []
    for f in fields:
        pos += 2 + sum(len(l.encode('utf8')) + 2 for l in fl.field_lines(f)) + 2
        n = len(fl.field_data(f))
        out.append((pos, pos + n))
        pos += n + len(fl.delim(boundary))
    return out


class C07(Check):
    pid = 'C07'
    props_mod = 'OmbottModel.Props.C07'
    tables = ['forms', 'multipart']
    design_ref = '6/C07'
    level_text = ('Lean theorems over the model of FieldStorage.iter_items/read/parse_header (the _patt scanner as a direct '
                  'function), BytesIOProxy, _collect_multipart, POST and the boundary extraction of _body: for every field list '
                  'of the domain, every boundary nameable in the header, every memory budget covering the text parts and every '
                  'fragmentation of the encoded body, POST/forms/files show exactly those fields (uploads with name, raw '
                  'filename, content type, exact bytes; repeated names in order, also across kinds); every upload window is '
                  'its own part\'s data range, ranges are pairwise separated by a delimiter. The markup of the encoded body '
                  'comes from C06 section_ranges_exact (no hypothesis left on it). Model tied to the code by a differential '
                  'run (unit level and through a real Ombott() WSGI call with both framings) on every run.')
    level_note_extra = ('re is re-expressed as direct functions for the two fixed patterns (probed tables checked by decide, '
                        'exhaustive small scope in the thorough tier); str.lower is modelled on ASCII/Latin-1; the body readers '
                        'are C04/C05 (the theorem takes the parts they yield, whose concatenation is the encoded body)')
    anchors = ['ombott/request_pkg/multipart.py', 'ombott/request_pkg/body_mixin.py', 'ombott/request_pkg/helpers.py']
    rule = ('field lists (0-5 parts; names/filenames with ; = space backslash non-ASCII, empty, duplicates, option look-alikes; '
            'empty/UTF-8 values; binary contents with CR LF dashes and delimiter prefixes; adjacent and trailing backslashes in names and file names) x RFC 2046 boundaries (quoted when '
            'needed) x max_memfile_size around the text budget and the body length (spilling) x Content-Length/chunked x read '
            'schedules x accessor orders; plus unit streams for parse_header, splitlines, UTF-8, boundary extraction, '
            'BytesIOProxy (one window; several windows over one shared source with interleaved operations and the cursor of the body moved in between), iter_items; the oracle reads every upload back by read(), read(-1), read(None), read(k) loops, partial reads, seek/tell, iteration and save(), and all uploads of a form in interleaved blocks (round-robin block sizes, random read/seek/tell interleavings). non-trivial = a name/filename with a separator or non-ASCII character, or a repeated name')
    assumptions = ['re (FieldStorage._patt, MULTIPART_BOUNDARY_PATT) behaves as the direct functions pattIter / boundaryOf '
                   '(probed tables in Gen/Forms.lean, checked by decide; exercised by the correspondence)',
                   'str.lower only matters on ASCII letters for the option keys name/filename',
                   'bytes.decode() is strict UTF-8 as core Lean\'s utf8Decode? (exercised incl. overlong forms and surrogates)',
                   'the body readers deliver the sent payload (C04/C05); the markup of an encoded body is exact (C06)',
                   'chunked framing: max_memfile_size (the read buffer) is at least the length of a chunk-size line (C05)',
                   'domain: names and file names free of " and of line breaks, where "line break" = the set str.splitlines '
                   'breaks at (LF VT FF CR FS GS RS NEL LS PS): such a character inside a name cuts the header line and the '
                   'request is answered 400',
                   'domain: file names non-empty (filename="" is what a browser sends for "no file"; the code stores None '
                   'under that name in forms); content types without parameters (FileUpload.content_type is a Header '
                   'namespace, its .value is what is compared); the delimiter does not occur in any value']

    def __init__(self):
        self.stats = {}

    def bump(self, k, n=1):
        self.stats[k] = self.stats.get(k, 0) + n

    def budget(self, tier, escalated):
        n = 600 if tier == 'quick' else 12000
        return n * (3 if escalated and tier == 'quick' else 1)

    def nontrivial(self, sample):
        return bool(sample.get('tricky'))

    # ------------------------------------------------------------------
    def corr(self, rng, n):
        from ombott.request_pkg.multipart import FieldStorage, BytesIOProxy
        from ombott.request_pkg.request import Request
        out = []
        # A. parse_header
        for _ in range(n * 4):
            s = gen_header_line(rng)
            try:
                ans = show_header(FieldStorage.parse_header(s))
            except Exception as e:
                ans = 'err ' + fl.exc_name(e)
            self.bump('hdr=' + ans.split()[0] + (':' + ans.split()[1] if ans.startswith('err') else ''))
            out.append((f'forms hdr {hs(s)}', ans, dict(kind='hdr', line=s, tricky=any(c in s for c in ';=\\é'))))
        if n >= 5000:
            # thorough tier: exhaustive small scope for the two direct regex functions
            import itertools
            for k in range(0, 8):
                for t in itertools.product('a=;" ', repeat=k):
                    if k == 7 and t.count('"') < 2:
                        continue
                    s = 'X:' + ''.join(t)
                    try:
                        ans = show_header(FieldStorage.parse_header(s))
                    except Exception as e:
                        ans = 'err ' + fl.exc_name(e)
                    out.append((f'forms hdr {hs(s)}', ans, dict(kind='hdr', line=s, tricky=False)))
            atoms_x = ['x', ';', '\n', '"', 'boundary=', ' ']
            for k in range(0, 6):
                for t in itertools.product(atoms_x, repeat=k):
                    ct = 'multipart/' + ''.join(t)
                    rq = Request({'CONTENT_TYPE': ct, 'CONTENT_LENGTH': '0', 'wsgi.input': io.BytesIO(b'')})
                    mk = rq.body.ombott_markup
                    ans = 'none' if mk is None else 'some ' + hs(mk._markuper.boundary[2:].decode('utf8'))
                    out.append((f'forms bnd {hs(ct)}', ans, dict(kind='bnd', ct=ct, tricky=False)))
            self.bump('exhaustive_small_scope', 1)
        # B. splitlines
        alpha = ['a', '\n', '\r', '\x0b', '\x0c', '\x1c', '\x1d', '\x1e', '\x85', ' ', ' ', '\x1f', ' ', '\r\n', 'é']
        for _ in range(n):
            s = ''.join(rng.choice(alpha) for _ in range(rng.randint(0, 7)))
            out.append((f'forms lines {hs(s)}', core.hsl(s.splitlines()), dict(kind='lines', text=s)))
        # C. strict UTF-8
        pieces = [b'a', b'\xc3\xa9', b'\xe4\xb8\xad', b'\xf0\x9f\x98\x80', b'\xc0\x80', b'\xed\xa0\x80', b'\xf4\x90\x80\x80', b'\xff',
                  b'\x80', b'\xe4\xb8', b'\xc3', b'\xf0\x9f\x98', b'\xe0\x80\x80', b'\xf0\x80\x80\x80', b'\xef\xbf\xbf', b'\x00',
                  b'\xf4\x8f\xbf\xbf', b'\xed\x9f\xbf', b'\xee\x80\x80', b'\xc2\x80', b'\xdf\xbf', b'\xe0\xa0\x80', b'\xf8\x88\x80\x80\x80']
        for _ in range(n):
            b = b''.join(rng.choice(pieces) for _ in range(rng.randint(0, 4)))
            try:
                ans = 'ok ' + hs(b.decode())
            except UnicodeDecodeError:
                ans = 'err'
            self.bump('dec=' + ans.split()[0])
            out.append((f'forms dec {hb(b)}', ans, dict(kind='dec', bytes=b.hex())))
        # D. boundary extraction (through Request._body)
        atoms = ['multipart/', 'form-data', '; ', 'boundary=', '"', 'x', ';', '\n', ' ', 'b', 'Boundary=', 'charset=u', 'é']
        for i in range(n * 2):
            k = rng.random()
            if k < .5:
                b = fl.gen_boundary(rng)
                ct = fl.content_type_for(b, fl.needs_quote(b) or rng.random() < .3)
                if rng.random() < .3:
                    ct += rng.choice(['; charset=utf-8', ';', ' ', '\n', '; boundary=other', '"'])
                if rng.random() < .1:
                    ct = ct.replace('multipart/form-data; ', rng.choice(['multipart/mixed;', 'multipart/x; charset=a; ', 'Multipart/form-data; ']))
            else:
                ct = ''.join(rng.choice(atoms) for _ in range(rng.randint(0, 6)))
                if rng.random() < .6:
                    ct = 'multipart/' + ct
            if '\r' in ct:
                continue
            rq = Request({'CONTENT_TYPE': ct, 'CONTENT_LENGTH': '0', 'wsgi.input': io.BytesIO(b'')})
            mk = rq.body.ombott_markup
            ans = 'none' if mk is None else 'some ' + hs(mk._markuper.boundary[2:].decode('utf8'))
            self.bump('bnd=' + ans.split()[0])
            out.append((f'forms bnd {hs(ct)}', ans, dict(kind='bnd', ct=ct, tricky='"' in ct)))
        # E. BytesIOProxy
        for i in range(n):
            body = bytes(rng.randrange(256) for _ in range(rng.randint(0, 12)))
            st, en = rng.randint(-2, len(body) + 2), rng.randint(-2, len(body) + 3)
            spooled = rng.random() < .2
            ops = []
            for _ in range(rng.randint(1, 5)):
                k = rng.randrange(4)
                if k == 0:
                    ops.append('r')
                elif k == 1:
                    ops.append('r%d' % rng.randint(-2, 6))
                elif k == 2:
                    ops.append('s%d/%d' % (rng.randint(-3, 14), rng.choice([0, 0, 1, 2, 2, 3])))
                else:
                    ops.append('t')
            src = io.BytesIO(body)
            if spooled:
                src = tempfile.TemporaryFile()
                src.write(body)
            p = BytesIOProxy(src, st, en)
            res = []
            for op in ops:
                try:
                    if op == 't':
                        res.append(str(p.tell()))
                    elif op == 'r':
                        res.append(hb(p.read()))
                    elif op[0] == 'r':
                        res.append(hb(p.read(int(op[1:]))))
                    else:
                        a, w = op[1:].split('/')
                        res.append(str(p.seek(int(a), int(w))))
                except Exception as e:
                    res.append('err:' + fl.exc_name(e))
                    break
            src.close()
            out.append((f'forms proxy {hb(body)} {1 if spooled else 0} {st} {en} {".".join(ops)}', ','.join(res),
                        dict(kind='proxy', body=body.hex(), st=st, en=en, ops=ops)))
        # E2. several windows over ONE source, operations interleaved, the cursor of the source moved in between
        for i in range(n):
            body = bytes(rng.randrange(256) for _ in range(rng.randint(0, 16)))
            spooled = rng.random() < .2
            wins = []
            for _ in range(rng.choice([2, 2, 3, 4])):
                if rng.random() < .85:
                    a = rng.randint(0, len(body))
                    wins.append((a, rng.randint(a, len(body))))
                else:
                    wins.append((rng.randint(-2, len(body) + 2), rng.randint(-2, len(body) + 3)))
            ops = []
            for _ in range(rng.randint(2, 9)):
                k = rng.random()
                w = rng.randrange(len(wins))
                if k < .45:
                    ops.append('%d@r%d' % (w, rng.choice([1, 1, 2, 3, 5, 0, -1])))
                elif k < .55:
                    ops.append('%d@r' % w)
                elif k < .7:
                    ops.append('%d@s%d/%d' % (w, rng.randint(-2, 10), rng.choice([0, 0, 0, 1, 2, 3])))
                elif k < .8:
                    ops.append('%d@t' % w)
                elif k < .9:
                    ops.append('B@r%d' % rng.choice([-1, 0, 1, 2, 4]))
                else:
                    ops.append('B@s%d' % rng.randint(0, len(body) + 2))
            src = io.BytesIO(body)
            if spooled:
                src = tempfile.TemporaryFile()
                src.write(body)
                src.seek(0)
            ps = [BytesIOProxy(src, a, b) for a, b in wins]
            res = []
            for op in ops:
                who, what = op.split('@')
                try:
                    if who == 'B':
                        res.append(hb(src.read(int(what[1:]))) if what[0] == 'r' else str(src.seek(int(what[1:]))))
                    elif what == 't':
                        res.append(str(ps[int(who)].tell()))
                    elif what == 'r':
                        res.append(hb(ps[int(who)].read()))
                    elif what[0] == 'r':
                        res.append(hb(ps[int(who)].read(int(what[1:]))))
                    else:
                        a, wh = what[1:].split('/')
                        res.append(str(ps[int(who)].seek(int(a), int(wh))))
                except Exception as e:
                    res.append('err:' + fl.exc_name(e))
            src.close()
            self.bump('proxies_lines')
            out.append((f'forms proxies {hb(body)} {1 if spooled else 0} {",".join("%d:%d" % w for w in wins)} {".".join(ops)}',
                        ','.join(res), dict(kind='proxies', body=body.hex(), wins=wins, ops=ops)))
        # F. encoder, markup -> iter_items on well-formed bodies (and with too small a budget)
        for i in range(n * 2):
            b = fl.gen_boundary(rng)
            fields = fl.gen_fields(rng, b)
            epi = rng.choice([b'\r\n', b'', b'\r\nepilogue'])
            body = fl.encode_form(b, fields, epi)
            out.append((f'forms enc {hs(b)} {fl.fields_arg(fields)} {hb(epi)}', hb(body), dict(kind='enc', boundary=b)))
            mm = real_markups(b, [body])
            need = fl.text_budget(fields)
            mr = rng.choice([need, need, need + 1, need - 1, max(0, need // 2), 1 << 20])
            tricky = any(c in f[1] + (f[2] if f[0] == 'f' else '') for f in fields for c in ';=\\ é') or \
                len({f[1] for f in fields}) < len(fields)
            out.append((f'forms items {hb(body)} 0 {mr} {markups_arg(mm.markups)}', run_items(body, False, mm.markups, mr),
                        dict(kind='items', boundary=b, fields=repr(fields), max_read=mr, tricky=tricky)))
            self.bump('items_lines')
        # G. through WSGI
        rig = fl.Rig()
        for i in range(n * 2):
            b = fl.gen_boundary(rng)
            big = rng.choice([0, 0, 200, 700])
            fields = fl.gen_fields(rng, b, big_file=big)
            body = fl.encode_form(b, fields, rng.choice([b'\r\n', b'\r\n', b'']))
            ct = fl.content_type_for(b, fl.needs_quote(b) or rng.random() < .3)
            need = fl.text_budget(fields)
            mm_ = rng.choice([need, need + 1, max(need, len(body) - 1), max(need, len(body)), max(need, len(body) + 1), 102400,
                              max(1, need - 1), max(need, 64)])
            mm_ = max(mm_, 1)
            chunked = rng.random() < .5
            sched = core.gen_sched(rng, len(body))
            accs = rng.choice([['f', 'F', 'p'], ['p', 'f', 'F'], ['F'], ['f'], ['p'], ['b', 'p', 'F'], ['F', 'f', 'f']])
            if chunked:
                wire = fl.chunked_encode(body, [rng.randint(1, 40) for _ in range(rng.randint(0, 6))], rng.random() < .2)
                res = core.with_timeout(lambda: rig.post(ct, wire, accs, chunked=True, max_memfile=mm_, sched=sched), 10)
                cl = -1
            else:
                res = core.with_timeout(lambda: rig.post(ct, body, accs, cl=len(body), max_memfile=mm_, sched=sched), 10)
                cl = len(body)
            line = fl.req_line(ct, cl, mm_, res['rec'], accs)
            self.bump('wsgi_status=%s' % res['status'])
            self.bump('wsgi_spooled' if len(body) > mm_ else 'wsgi_memory')
            self.bump('wsgi_chunked' if chunked else 'wsgi_cl')
            if line is None:
                continue
            tricky = any(c in f[1] + (f[2] if f[0] == 'f' else '') for f in fields for c in ';=\\ é') or \
                len({f[1] for f in fields}) < len(fields)
            out.append((line, fl.req_answer(res), dict(kind='req', boundary=b, ct=ct, fields=repr(fields), max_memfile=mm_,
                                                       chunked=chunked, sched=sched[:8], accs=accs, tricky=tricky)))
        self.stats['corr_lines'] = len(out)
        return out

    # ------------------------------------------------------------------
    # independent oracle: encode, post, compare with the field list
    def _post(self, rig, case):
        b, quote, fields, mm_, chunked, sched, sizes = (case[k] for k in ('boundary', 'quote', 'fields', 'max_memfile', 'chunked',
                                                                       'sched', 'sizes'))
        fields = [tuple(f) for f in fields]
        body = fl.encode_form(b, fields, case.get('epilogue', b'\r\n'))
        ct = fl.content_type_for(b, quote)
        accs = ['f', 'F', 'p']
        if chunked:
            wire = fl.chunked_encode(body, sizes)
            return body, core.with_timeout(lambda: rig.post(ct, wire, accs, chunked=True, max_memfile=mm_, sched=sched,
                                                           record=False), 10)
        return body, core.with_timeout(lambda: rig.post(ct, body, accs, cl=len(body), max_memfile=mm_, sched=sched,
                                                       record=False), 10)

    @staticmethod
    def _in_domain(case):
        """under chunked framing the read buffer (= max_memfile_size) must hold a chunk-size line with its CRLF:
        a longer line is refused by design (C05), so smaller buffers are outside the property"""
        if case.get('chunked') and case['max_memfile'] < 16:
            return dict(case, max_memfile=16)
        return case

    def _oracle(self, rig, case):
        """None or (key, what)"""
        case = self._in_domain(case)
        fields = [tuple(f) for f in case['fields']]
        try:
            body, res = self._post(rig, case)
        except core.Hang:
            return 'hang', 'the request did not complete'
        if res['status'] != 200 or res['escaped']:
            return 'status-%s' % res['status'], f'a well-formed form was answered {res["status"]} {res["outs"]} {res["errors"][-200:]}'
        exp = expected_views(fields)
        got = [o[3:] if o.startswith('ok ') else o for o in res['outs']]
        mixed = fl.mixed_kind_names(fields)
        for name, e, g in zip(('forms', 'files', 'POST'), exp, got):
            if e != g:
                if mixed and not case.get('_unmixed'):
                    # is it the sharing of a name by a text field and an upload that fails, or something else?
                    renamed = [f if f[0] == 't' else (f[0], f[1] + '\u00b7upload') + tuple(f[2:]) for f in fields]
                    extra = fl.text_budget(renamed) - fl.text_budget(fields)
                    other = self._oracle(rig, dict(case, fields=renamed, _unmixed=True,
                                                   max_memfile=case['max_memfile'] + extra))
                    if other is None:
                        return 'dup-name-mixed-kinds', (f'name {mixed[0]!r} is used by a text field and by an upload: {name} is '
                                                        f'{g}, expected {e}')
                    return other
                ek, gk = [x.split('=')[0] for x in e[1:-1].split(';')], [x.split('=')[0] for x in g[1:-1].split(';')]
                if sorted(ek) != sorted(gk):
                    site = 'field-names' if len(ek) == len(gk) or gk != [''] else 'fields-dropped'
                elif ek != gk:
                    site = 'order'
                else:
                    site = 'values'
                    for x, y in zip(e[1:-1].split(';'), g[1:-1].split(';')):
                        if x != y:
                            xs, ys = x.split('=', 1)[1], y.split('=', 1)[1]
                            if xs.startswith('[') != ys.startswith('[') or len(xs.split(' ')) != len(ys.split(' ')):
                                site = 'repeated-names'
                            elif xs.lstrip('[').startswith('t:'):
                                site = 'text-value'
                            else:
                                xp, yp = xs.strip('[]').split(' ')[0].split(':'), ys.strip('[]').split(' ')[0].split(':')
                                site = ('upload-name' if xp[1:2] != yp[1:2] else 'filename' if xp[2:3] != yp[2:3] else
                                        'content-type' if xp[3:4] != yp[3:4] else 'file-content')
                            break
                return f'{name}:{site}', f'{name} is {g}, expected {e}'
        # no byte of one part appears in another: every upload window is its own part's data zone
        zones = data_zones(case['boundary'], fields)
        files = dict(res['values']).get('F', {})
        want = {}
        for f, z in zip(fields, zones):
            if f[0] == 'f':
                want.setdefault(f[1], []).append(z)
        for k, zs in want.items():
            v = files.get(k)
            ups = v if isinstance(v, list) else [v]
            wins = [(u.file._st, u.file._end) for u in ups if hasattr(u, 'file')]
            if wins != zs:
                return 'window', f'upload windows of {k!r} are {wins}, the parts\' data is at {zs}'
        # byte-exact content however the handler reads the upload
        sent = {}
        for f in fields:
            if f[0] == 'f':
                sent.setdefault(f[1], []).append(f[4])
        for k, contents in sent.items():
            v = files.get(k)
            ups = v if isinstance(v, list) else [v]
            for u, content in zip(ups, contents):
                for how, got_b in readbacks(u, len(content)):
                    want_b = content
                    if how == 'seek(0,2);tell':
                        want_b = b'x' * len(content)
                    elif how == 'seek(-k,2);read':
                        want_b = content[len(content) - min(3, len(content)):] if content else b''
                    if got_b != want_b:
                        site = how.split('(')[0].split(' ')[0].split(';')[0]
                        shown = got_b if isinstance(got_b, str) else got_b[:60].hex() + ('...' if len(got_b) > 60 else '')
                        return f'upload-read:{site}', (f'upload {k!r} read back by {how} gives {shown} ({len(got_b)} bytes), '
                                                       f'posted {len(content)} bytes {content[:60].hex()}')
        # ... and when the handler reads several uploads of the request in interleaved blocks (they share one body)
        ups = []
        for k, contents in sent.items():
            v = files.get(k)
            for j, (u, content) in enumerate(zip(v if isinstance(v, list) else [v], contents)):
                ups.append(('%r#%d' % (k, j), u, content))
        if len(ups) >= 2:
            bad = interleaved_readback(ups, len(body))
            if bad:
                return 'upload-read:interleaved', bad
        return None

    def _cases(self, rng, n):
        for i in range(n):
            b = fl.gen_boundary(rng)
            big = rng.choice([0, 0, 0, 300, 3000])
            fields = fl.gen_fields(rng, b, big_file=big)
            if not fl.in_c07_domain(fields, b):
                continue
            body_len = len(fl.encode_form(b, fields))
            need = fl.text_budget(fields)
            mm_ = max(1, rng.choice([need, need + 1, max(need, body_len - 1), max(need, body_len), 102400, max(need, 64)]))
            chunked = rng.random() < .5
            if chunked:
                mm_ = max(mm_, 16)      # a chunk-size line longer than the buffer is refused by design (C05)
            yield dict(boundary=b, quote=fl.needs_quote(b) or rng.random() < .3, fields=fields, max_memfile=mm_,
                       chunked=chunked, sched=core.gen_sched(rng, body_len),
                       sizes=[rng.randint(1, 50) for _ in range(rng.randint(0, 5))])

    def search(self, rng, n, seeds):
        import ast
        rig = fl.Rig()
        findings, evals = [], 0
        cases = []
        for s in seeds:
            if s.get('kind') in ('req', 'items') and 'fields' in s:
                try:
                    fields = ast.literal_eval(s['fields'])
                except Exception:
                    continue
                b = s['boundary']
                if fl.in_c07_domain(fields, b):
                    need = fl.text_budget(fields)
                    cases.append(dict(boundary=b, quote=fl.needs_quote(b), fields=fields, max_memfile=max(need, 1, s.get('max_memfile', 0)),
                                      chunked=bool(s.get('chunked')), sched=[], sizes=[]))
            elif s.get('kind') == 'hdr':
                # a header line the model and the code read differently: try its name as a field name
                pass
        # fixed cases the property text names
        fixed = [[('t', 'f;x=y', 'v'), ('f', 'u', 'q;z=1.txt', 'text/plain', b'data')],
                 [('t', 'a', '1'), ('t', 'a', '2'), ('t', 'b', ''), ('t', 'a', '3')],
                 [('f', 'u', 'a.bin', None, b'\r\n--bn'), ('f', 'u', 'b.bin', 'x/y', b'--bnd--\r\n\r\n-')],
                 [('t', 'a b', 'é'), ('t', 'a\\b', '\r\n'), ('f', 'é', 'ф;=.txt', 'image/png', bytes(range(256)))],
                 [('t', 'name', 'x'), ('t', 'filename', 'y'), ('t', 'a; filename=b', 'z')], [],
                 [('t', 'a\\\\b', 'v'), ('f', 'n\\', '\\\\server\\share\\x.bin', 'application/octet-stream', b'\\\\'),
                  ('f', '\\\\', 'dir\\', None, b'0123456789abcdef')]]
        for b in ('bnd', 'a b', "a=b(c)", '-'):
            for fields in fixed:
                for chunked in (False, True):
                    if fl.in_c07_domain(fields, b):
                        cases.append(dict(boundary=b, quote=fl.needs_quote(b), fields=fields, max_memfile=102400,
                                          chunked=chunked, sched=[], sizes=[7]))
        cases += list(self._cases(rng, n * 3))
        for c in cases:
            evals += 1
            c = self._in_domain(c)
            bad = self._oracle(rig, c)
            if bad:
                c = dict(c, fields=[list(f[:4]) + [f[4].hex()] if f[0] == 'f' else list(f) for f in map(tuple, c['fields'])])
                findings.append(Finding('C07:' + bad[0], bad[1], c))
        return evals, findings

    def replay(self, data):
        i = dict(data['input'])
        i['fields'] = [tuple(f[:4]) + (bytes.fromhex(f[4]),) if f[0] == 'f' else tuple(f) for f in i['fields']]
        rig = fl.Rig()
        i = self._in_domain(i)
        body, res = self._post(rig, i)
        return dict(input=data['input'], content_type=fl.content_type_for(i['boundary'], i['quote']), body=repr(body),
                    status=res['status'], outcomes=res['outs'], expected=expected_views(i['fields']),
                    oracle=self._oracle(rig, i))


# the upload object and the file proxies (FileUpload, BytesIOProxy): an extra correspondence stream and oracle
from harness import uploadlib as _upload  # noqa: E402
_upload.install(C07)
