"""Seeded faults for the router checks (C01, C02): applies each one-line fault to a scratch copy of
the repository (`git -C /repo worktree add --detach /work/r/router HEAD`), runs the repository's own
tests and both checks against it, and prints which stage caught it.  Not part of `./check`.
Usage: /venv/bin/python harness/mutants_router.py [name ...]"""
import subprocess, sys, os, json, glob, shutil
R='/work/r/router'
V='/work/v/router'
M = {
 'c01a-no-lookback': ('ombott/router/radidict.py', '''                if idx[-1] == TOKEN:
                    look_back.append(
                        [route, pnode, i, L, params[:], hooks[:], True]
                    )''', '''                if False and idx[-1] == TOKEN:
                    look_back.append(
                        [route, pnode, i, L, params[:], hooks[:], True]
                    )'''),
 'c01b-plain-stops-at-dash': ('ombott/router/radidict.py', '''                                if route[j] == PATH_SEP:
                                    break''', '''                                if route[j] == PATH_SEP or route[j] == '-':
                                    break'''),
 'c01c-mount-literal-after-token': ('ombott/router/radidict.py', '''            pnode.insert(OFFSET, child)
            pnode[IDX] = ckey[0] + pnode[IDX]''', '''            pnode.append(child)
            pnode[IDX] = pnode[IDX] + ckey[0]'''),
 'c01d-zip-reversed': ('ombott/router/radirouter.py', '''        return {n: v for n, v in zip(names, values) if not n.startswith(cls.anon_prefix)}''',
    '''        return {n: v for n, v in zip(names, values[::-1]) if not n.startswith(cls.anon_prefix)}'''),
 'c01e-split-keeps-data': ('ombott/router/radidict.py', '''            weight = node[WEIGHT] + 1,
            children = [node]
        )''', '''            weight = node[WEIGHT] + 1,
            children = [node], data = node[DATA]
        )'''),
 'c01f-colon-name-no-lookahead': ('ombott/router/parser.py', '''fr'({py_name})?((?=/)|$)', group = 1''', '''fr'({py_name})?', group = 1'''),
 'c01g-filter-not-compared': ('ombott/router/radidict.py', '''                        and pnode[FILTER] != param_filters[param_idx]''', '''                        and False'''),
 'c01h-selector-no-fallback': ('ombott/router/radidict.py', '''                                look_back.append(
                                    [route, pnode, i, L, params[:], hooks[:], False]
                                )''', '''                                pass'''),
 'c01i-int-no-sign': ('ombott/router/filter_factory.py', """(r'-?\\d+', int,""", """(r'\\d+', int,"""),
 'c01j-float-open-fraction': ('ombott/router/filter_factory.py', """r'-?\\d+(\\.\\d+)?'""", """r'-?\\d+(\\.\\d*)?'"""),
 'c01k-path-lookahead-unescaped': ('ombott/router/filter_factory.py', """(?={re.escape(conf)})""", """(?={conf})"""),
 'c01l-path-lazy': ('ombott/router/filter_factory.py', """f'.+(?={re.escape(conf)})'""", """f'.+?(?={re.escape(conf)})'"""),
 'c01m-int-abs': ('ombott/router/filter_factory.py', """(r'-?\\d+', int,""", """(r'-?\\d+', lambda x: abs(int(x)),"""),
 'c01n-float-rounded': ('ombott/router/filter_factory.py', """(r'-?\\d+(\\.\\d+)?', float,""", """(r'-?\\d+(\\.\\d+)?', lambda x: float(round(float(x), 1)),"""),
 'c01o-path-end-one-segment': ('ombott/router/filter_factory.py', """else '.+$'""", """else '[^/]+$'"""),
 'c02a-head-no-get': ('ombott/ombott.py', '''            methods = [verb, 'GET', 'ANY']''', '''            methods = [verb, 'ANY']'''),
 'c02b-allow-unsorted': ('ombott/router/radirouter.py', '''            allowed = ",".join(sorted(route.methods))''', '''            allowed = ",".join(route.methods)'''),
 'c02b2-allow-comma-space': ('ombott/router/radirouter.py', '''            allowed = ",".join(sorted(route.methods))''', '''            allowed = ", ".join(sorted(route.methods))'''),
 'c02c-no-upper': ('ombott/router/radirouter.py', '''        methods = [_.upper() for _ in methods]''', '''        methods = [_ for _ in methods]'''),
 'c02d-404-on-method-error': ('ombott/router/radirouter.py', '''            allowed = ",".join(sorted(route.methods))
        return None, [405, "Method not allowed.", allowed]''', '''            allowed = ",".join(sorted(route.methods))
        return None, [404, "Not Found", dict(hooks=[], param_values=[])]'''),
 'c02h-allow-cached-until-registration': ('ombott/router/radirouter.py', '''            allowed = ",".join(sorted(route.methods))''', '''            allowed = _ALLOW.get(id(route))
            if allowed is None or len(route._methods) > _ALLOW.get(('n', id(route)), 0):
                allowed = ",".join(sorted(route.methods))
                _ALLOW[id(route)] = allowed
            _ALLOW[('n', id(route))] = len(route._methods)'''),
 'c02e-any-before-get': ('ombott/ombott.py', '''            methods = [verb, 'GET', 'ANY']''', '''            methods = [verb, 'ANY', 'GET']'''),
 'c02f-overwrite-ignored': ('ombott/router/radirouter.py', '''        if overwrite:
            route.set_method(methods, handler, meta, params)''', '''        if False:
            route.set_method(methods, handler, meta, params)'''),
 'c02g-remove-method-upper': ('ombott/router/radirouter.py', '''        [self._methods.pop(m, None) for m in method]''', '''        [self._methods.pop(m.upper(), None) for m in method]'''),
}
def sh(cmd, **kw):
    return subprocess.run(cmd, shell=True, capture_output=True, text=True, **kw)
names = sys.argv[1:] or list(M)
PRE = {'c02h-allow-cached-until-registration': ('ombott/router/radirouter.py', 'class RouteMethod:', '_ALLOW = {}\n\n\nclass RouteMethod:')}
for name in names:
    f, old, new = M[name]
    sh(f'git -C {R} reset -q --hard HEAD')
    p=os.path.join(R,f); s=open(p).read()
    if old not in s:
        print(name, 'PATTERN NOT FOUND'); continue
    s = s.replace(old,new,1)
    if name in PRE:
        s = s.replace(PRE[name][1], PRE[name][2], 1)
    open(p,'w').write(s)
    t=sh(f'cd {R} && /venv/bin/python -m pytest -q -p no:cacheprovider 2>&1 | tail -1').stdout.strip()
    res=[]
    for pid in ('C01','C02'):
        shutil.rmtree(os.path.join(V,'replays'), ignore_errors=True)
        o=sh(f'cd {V} && OMBOTT_REPO={R} ./check {pid} 2>&1 | grep -v conda').stdout
        last=o.strip().split('\n')[-1]
        viol=[l for l in o.split('\n') if l.startswith('VIOLATION')]
        keys=[]
        for fn in glob.glob(os.path.join(V,'replays','*.json')):
            d=json.load(open(fn)); keys.append(d.get('key') or d.get('kind'))
        import re
        m=re.search(r'disagreements=(\d+)', last)
        res.append(f'{pid}: viol={len(viol)} nofail={"no-failing-input-found" in o} dis={m.group(1) if m else "?"} keys={sorted(set(keys))}')
    print(name, '| pytest:', t, '|', ' || '.join(res), flush=True)
sh(f'git -C {R} reset -q --hard HEAD')
