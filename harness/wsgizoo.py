"""Handler zoo shared by C03 and C09: a small AST for the `Out` grammar of Model/Wsgi.lean,
its serialisation to a protocol line (Drv/Wsgi.lean), its realisation as real Python objects,
and a recording run of a real `Ombott()` application.

AST (plain tuples):
  out   := ('f', kind) | ('t', str) | ('b', bytes) | ('r', is_err, rspec, out)
         | ('fl', id, has_close, has_iter, content) | ('it', id, has_close, items, flavour)
         | ('un', kind)
  rspec := dict(status=int|str, headers=[(k, v)], cookies=[(k, v)])
  item  := ('e', None|''|b'') | ('t', str) | ('b', bytes) | ('y', out) | ('rr', out) | ('ex',)
         | ('un', kind)
  eff   := ('st', int) | ('sl', str) | ('sh', k, v) | ('ah', k, v) | ('bh', k) | ('ck', k, v)
  hook  := (effs, ('ok',) | ('rr', out) | ('ex',))
  errh  := ('c', out) | ('bd',) | ('ex',)
  app   := dict(before=[hook], after=[hook], errh=[(code, errh)])
  route := ('h', effs, ('ret', out) | ('rr', out) | ('ex',)) | ('nf',) | ('na', [methods])
  req   := dict(id, method, fw, path_ok, tail, query, route)
"""
import html
import io
import itertools
import signal
import wsgiref.util

from harness.core import hb, hs

class HangB(BaseException):
    """raised by the watchdog; not an `Exception`, so the catch-all clauses of the code under test
    cannot swallow it"""


def watchdog(fn, seconds=20):
    """run fn(); a call that does not finish is abandoned with `HangB` (the timer keeps firing
    every second until the call has really been left)"""
    def _h(sig, frm):
        raise HangB()
    old = signal.signal(signal.SIGALRM, _h)
    signal.setitimer(signal.ITIMER_REAL, seconds, 1.0)
    try:
        return fn()
    finally:
        signal.setitimer(signal.ITIMER_REAL, 0)
        signal.signal(signal.SIGALRM, old)


FALSY = {'str': '', 'bytes': b'', 'none': None, 'zero': 0, 'list': [], 'false': False, 'dict': {}}
UNSUP = {'int': 42, 'float': 1.5, 'object': None}     # object built fresh


def unsup_value(kind):
    return object() if kind == 'object' else UNSUP[kind]


def unsup_repr(kind):
    return repr(type(unsup_value(kind)))


# --------------------------------------------------------------------------------------
# real objects

class BoomError(Exception):
    pass


class Log(list):
    """event log of one run + what the oracle wants to know about the zoo objects"""

    def __init__(self):
        super().__init__()
        self.produced = set()     # ids of closable objects that handed out a non-empty str/bytes item
        self.failed = False       # the route handler raised something that is not an HTTPResponse


class FileLike:
    _on_data = None

    def __init__(self, content):
        self._b = io.BytesIO(content)

    def read(self, n=-1):
        d = self._b.read(n)
        if d and self._on_data:
            self._on_data()
        return d


def make_file(log, fid, has_close, has_iter, content):
    ns = {}
    if has_close:
        ns['close'] = lambda self: log.append(f'c{fid}')
        ns['_on_data'] = lambda self: getattr(log, 'produced', set()).add(fid)
    if has_iter:
        def _it(self):
            while True:
                p = self._b.read(3)
                if not p:
                    return
                yield p
        ns['__iter__'] = _it
    return type('ZooFile', (FileLike,), ns)(content)


class IterObj:
    def __init__(self, log, items, oid=None):
        self._log, self._items, self._oid = log, items, oid

    def __iter__(self):
        for kind, val in self._items:
            if kind == 'raise':
                raise val
            if val and isinstance(val, (str, bytes)) and self._oid is not None:
                getattr(self._log, 'produced', set()).add(self._oid)
            yield val


def build_item(log, it, app=None):
    """-> (kind, value) with kind 'yield' | 'raise'"""
    k = it[0]
    if k == 'e':
        return 'yield', it[1]
    if k in ('t', 'b'):
        return 'yield', it[1]
    if k == 'y':
        return 'yield', build_out(log, it[1], app)
    if k == 'rr':
        return 'raise', build_out(log, it[1], app)
    if k == 'ex':
        return 'raise', BoomError('item')
    if k == 'un':
        return 'yield', unsup_value(it[1])
    raise ValueError(it)


def build_resp(log, is_err, rspec, body):
    from ombott import HTTPResponse, HTTPError
    if is_err:
        r = HTTPError(rspec['status'], body)
    else:
        r = HTTPResponse(body, rspec['status'])
    for k, v in rspec.get('headers', []):
        r.headers.append(k, v)
    for k, v in rspec.get('cookies', []):
        r.set_cookie(k, v)
    return r


def build_out(log, o, app=None):
    k = o[0]
    if k == 'sh':
        # a module-level response object of the application: built once, answered many times
        shared = app._zoo_shared
        if o[1] not in shared:
            shared[o[1]] = build_out(log, app._zoo_spec['shared'][o[1]], app)
        return shared[o[1]]
    if k == 'f':
        v = FALSY[o[1]]
        return type(v)() if isinstance(v, (list, dict)) else v
    if k in ('t', 'b'):
        return o[1]
    if k == 'r':
        return build_resp(log, o[1], o[2], build_out(log, o[3], app))
    if k == 'fl':
        return make_file(log, o[1], o[2], o[3], o[4])
    if k == 'it':
        _, oid, has_close, items, flavour = o
        built = [build_item(log, i, app) for i in items]
        if flavour == 'list':
            return [v for _, v in built]
        if flavour == 'tuple':
            return tuple(v for _, v in built)
        if flavour == 'dict':
            return {v: 1 for _, v in built}
        if flavour == 'gen':
            def g():
                try:
                    for _, v in built:
                        yield v
                finally:
                    log.append(f'c{oid}')
            return g()
        obj = IterObj(log, built, oid if has_close else None)
        if has_close:
            obj.close = lambda: log.append(f'c{oid}')
        return obj
    if k == 'un':
        return unsup_value(o[1])
    raise ValueError(o)


def run_effs(resp, effs):
    for e in effs:
        if e[0] in ('st', 'sl'):
            resp.status = e[1]
        elif e[0] == 'sh':
            resp.headers[e[1]] = e[2]
        elif e[0] == 'ah':
            resp.headers.append(e[1], e[2])
        elif e[0] == 'bh':
            resp.headers[e[1]] = '\udc80'
        elif e[0] == 'ck':
            resp.set_cookie(e[1], e[2])
        else:
            raise ValueError(e)


def finish(log, res, app=None):
    if res[0] == 'ok':
        return None
    if res[0] == 'ret':
        return build_out(log, res[1], app)
    if res[0] == 'rr':
        raise build_out(log, res[1], app)
    if res[0] == 'ex':
        raise BoomError('outcome')
    raise ValueError(res)


class ErrStream:
    def __init__(self, log):
        self.log = log

    def write(self, s):
        self.log.append('e')

    def flush(self):
        pass

    def writelines(self, seq):
        for s in seq:
            self.write(s)


def make_app(spec, log, body_hook=None):
    """a real Ombott() with the hooks / error handlers of `spec`; routes are added per request
    kind by `install_route`.  spec keys: before, after, errh; optional catchall (default True),
    edits = {'before': {i: edit}, 'after': {j: edit}} with edit = ('rs',) | ('an',) | ('ro', k),
    shared = {key: ('r', is_err, rspec, body)} (module-level response objects of the application)"""
    from ombott import Ombott
    if spec.get('default_app'):
        # helpers like static_file / redirect work on the default application's request / response:
        # serve on that application, stripped of what an earlier history registered on it
        import importlib
        om = importlib.import_module('ombott.ombott')
        app = om.Globals.app
        app.router = type(app.router)()
        app._route_hooks = {}
        app.error_handlers = {'404-hooks': {}}
        for k in ('_hooks', 'to_route'):
            app.__dict__.pop(k, None)
        app.setup(dict(catchall=bool(spec.get('catchall', True))))
    else:
        app = Ombott(dict(catchall=bool(spec.get('catchall', True))))
    fns = {'before_request': [], 'after_request': []}
    fresh = {'before_request': len(spec['before']), 'after_request': len(spec['after'])}
    app._zoo_fns = fns
    app._zoo_shared = {}
    app._zoo_spec = spec

    def do_edit(name, letter, idx, edit):
        if not edit:
            return
        if edit[0] == 'rs':
            app.remove_hook(name, fns[name][idx])
        elif edit[0] == 'ro':
            if edit[1] < len(fns[name]):
                app.remove_hook(name, fns[name][edit[1]])
        elif edit[0] == 'an':
            k = fresh[name]
            fresh[name] += 1

            def added(k=k):
                log.append(f'{letter}{k}')
            fns[name].append(added)
            app.add_hook(name, added)

    edits = spec.get('edits') or {}
    rewrite = spec.get('rewrite')

    def do_rewrite(i):
        """a before-hook that rewrites the request before routing: strips the prefix the request
        arrived with and / or overrides the method, through the request object or the environ"""
        arrive = getattr(app, '_zoo_arrive', None)
        if not rewrite or rewrite['hook'] != i or not arrive:
            return
        r = app.request
        put = r.__setitem__ if rewrite['how'] == 'item' else r.environ.__setitem__
        if arrive.get('prefix'):
            put('PATH_INFO', r.environ['PATH_INFO'][len(arrive['prefix']):])
        if arrive.get('method'):
            put('REQUEST_METHOD', arrive['to_method'])

    for i, (effs, res) in enumerate(spec['before']):
        def bh(i=i, effs=effs, res=res):
            log.append(f'b{i}')
            do_edit('before_request', 'b', i, (edits.get('before') or {}).get(i))
            do_rewrite(i)
            run_effs(app.response, effs)
            finish(log, res, app)
        fns['before_request'].append(bh)
        app.add_hook('before_request', bh)
    for j, (effs, res) in enumerate(spec['after']):
        def ah(j=j, effs=effs, res=res):
            log.append(f'a{j}')
            do_edit('after_request', 'a', j, (edits.get('after') or {}).get(j))
            run_effs(app.response, effs)
            finish(log, res, app)
        fns['after_request'].append(ah)
        app.add_hook('after_request', ah)
    for code, eh in spec['errh']:
        def errh(err, eh=eh):
            if eh[0] == 'c':
                return build_out(log, eh[1], app)
            if eh[0] == 'mut':
                # application code annotates the error object it is handed, then answers
                err.headers['X-Debug'] = ascii(app.request.path)   # ascii(): a path with CR/LF/NUL must not trip the header guard
                return build_out(log, eh[1], app)
            if eh[0] == 'bd':
                return err.body
            raise BoomError('errh')
        app.error(code)(errh)
    orig = app.to_route

    def to_route(path, verb):
        log.append('r')
        return orig(path, verb)
    app.to_route = to_route
    return app


def describe_response(obj):
    """the value of an HTTPResponse / HTTPError object built by a framework helper (static_file,
    redirect, abort), as an AST of the zoo: ('rx', is_err, code, line, headers, cookies, body)"""
    import re
    from ombott import HTTPError
    hdrs = [(k, list(v) if isinstance(v, list) else [v]) for k, v in obj._headers.items()]
    cks = [(c.key, c.value) for c in obj._cookies.values()] if obj._cookies else []
    body = obj.body
    if body is None:
        b = ('f', 'none')
    elif isinstance(body, str):
        b = ('t', body) if body else ('f', 'str')
    elif isinstance(body, bytes):
        b = ('b', body) if body else ('f', 'bytes')
    elif hasattr(body, 'read') and hasattr(body, 'name'):
        with open(body.name, 'rb') as f:
            b = ('fl', 900001, True, True, f.read())
    else:
        # _file_iter_range(fp, offset, n): the slice Content-Range announces
        m = re.fullmatch(r'bytes (\d+)-(\d+)/(\d+)', obj._headers.get('Content-Range', ''))
        fp = body.gi_frame.f_locals['fp']
        with open(fp.name, 'rb') as f:
            data = f.read()[int(m.group(1)):int(m.group(2)) + 1]
        b = ('it', 900002, True, [('b', data)], 'gen')
    return ('rx', isinstance(obj, HTTPError), obj._status_code, obj._status_line, hdrs, cks, b)


def hooks_now(app):
    """registration numbers of the two hook lists, in list order"""
    out = []
    for name in ('before_request', 'after_request'):
        fns = app._zoo_fns[name]
        out.append([fns.index(f) for f in app._hooks[name]])
    return out


ALL_METHODS = ['GET', 'POST', 'PUT', 'DELETE', 'PATCH', 'OPTIONS', 'HEAD']


def install_route(app, log, req, cur):
    """registers what the request needs; `cur` is a dict the handler reads the current request's
    program from (so one route serves a whole history)"""
    route = req['route']
    if route[0] == 'h':
        key = 'h'
        if key not in cur['routes']:
            def handler(**kw):
                log.append('h')
                effs, res, pre = cur['prog']
                try:
                    run_effs(app.response, effs)
                    if pre:
                        said = pre(app, kw)
                        if isinstance(said, str):
                            return said            # the handler answers with what it read
                        if isinstance(said, tuple) and said[0] == 'obj':
                            # the handler answers with the object a framework helper built
                            cur['described'] = (said[1], describe_response(said[2]))
                            if said[1] == 'rr':
                                raise said[2]
                            return said[2]
                    return finish(log, res, app)
                except Exception as e:
                    from ombott import HTTPResponse
                    if not isinstance(e, HTTPResponse) and hasattr(log, 'failed'):
                        log.failed = True
                    raise
            app.route('/x', method=ALL_METHODS, callback=handler)
            app.route('/x/<tail:path>', method=ALL_METHODS, callback=handler)
            for flavour, rule in WILD_RULES.items():
                app.route('/w/' + flavour + '/' + rule, method=ALL_METHODS, callback=handler)
            cur['routes'].add(key)
    elif route[0] == 'na':
        key = ('na', tuple(route[1]))
        if key not in cur['routes']:
            app.route('/na' + ''.join(m[0:2] for m in route[1]), method=list(route[1]),
                      callback=lambda **kw: log.append('h!'))
            cur['routes'].add(key)


# wildcard rules of every filter kind, all served by the zoo handler (req['wild'] = (flavour, value))
WILD_RULES = {'s': '<v>', 'i': '<v:int>', 'f': '<v:float>', 'r': '<v:re:[a-z]+[0-9]*>', 'p': '<v:path>',
              'x': '<v:rex:(?:q|z)([a-z0-9]+)>', 'c': ':v'}


def path_of(req):
    route = req['route']
    if req.get('wild') and route[0] == 'h':
        return '/w/' + req['wild'][0] + '/' + req['wild'][1]
    if route[0] == 'h':
        base = '/x'
    elif route[0] == 'nf':
        base = '/nf'
    else:
        base = '/na' + ''.join(m[0:2] for m in route[1])
    tail = req.get('tail') or ''
    if route[0] == 'na':
        tail = ''
    p = base + ('/' + tail if tail else '')
    return p


def make_environ(req, log, body=b'', extra=None):
    env = {}
    wsgiref.util.setup_testing_defaults(env)
    path = path_of(req)
    raw = path.encode('utf8').decode('latin1')
    if not req['path_ok']:
        raw += '\xff'
    arrive = req.get('arrive') or {}
    env['REQUEST_METHOD'] = arrive.get('method') or req['method']
    env['PATH_INFO'] = (arrive.get('prefix') or '') + raw
    env['QUERY_STRING'] = req.get('query', '')
    env['wsgi.errors'] = ErrStream(log)
    env['wsgi.input'] = io.BytesIO(body)
    if req.get('json'):
        env['HTTP_ACCEPT'] = 'application/json, text/html;q=0.5'
    if req['fw']:
        env['wsgi.file_wrapper'] = wsgiref.util.FileWrapper
    if extra:
        env.update(extra)
    return env


def url_repr(env, req, config=None, arrival=False):
    """repr(html.escape(request.url)) for the request as `_handle` initialises it (for a request a
    hook rewrites: as the hook leaves it, or with arrival=True as it came in)"""
    from ombott import Request
    e = dict(env)
    if req['path_ok']:
        e['PATH_INFO'] = e['PATH_INFO'].encode('latin1').decode('utf8')
    arrive = req.get('arrive')
    if arrive and not arrival and arrive.get('prefix'):
        e['PATH_INFO'] = e['PATH_INFO'][len(arrive['prefix']):]
    return repr(html.escape(Request(e, config=config).url))


class CLWatch:
    """records `HeaderDict.setdefault('Content-Length', v)` calls that insert the key"""

    def __enter__(self):
        from ombott.common_helpers import HeaderDict
        self.cls = HeaderDict
        self.orig = HeaderDict.setdefault
        self.inserted = None
        watch = self

        def setdefault(hd, key, value):
            if key == 'Content-Length' and key not in hd:
                watch.inserted = value
            return watch.orig(hd, key, value)
        HeaderDict.setdefault = setdefault
        return self

    def __exit__(self, *a):
        self.cls.setdefault = self.orig


def serve_one(app, log, cur, req, body=b'', extra=None, pre=None, validate=False, env_cls=dict, input_cls=None,
              keep=None):
    """one request through the real application `app`; returns a dict of observations"""
    import warnings
    import weakref
    from wsgiref.validate import validator
    del log[:]
    if hasattr(log, 'produced'):
        log.produced, log.failed = set(), False
    app._zoo_arrive = dict(req['arrive'], to_method=req['method']) if req.get('arrive') else None
    install_route(app, log, req, cur)
    if req['route'][0] == 'h':
        cur['prog'] = (req['route'][1], req['route'][2], pre)
    env = env_cls(make_environ(req, log, body, extra))
    if input_cls is not None:
        env['wsgi.input'] = input_cls(body)
    urlrepr = url_repr(env, req, app.config)
    urlrepr_arrival = url_repr(env, req, app.config, arrival=True) if req.get('arrive') else None
    if keep is not None:
        keep.append(weakref.ref(env))
        keep.append(weakref.ref(env['wsgi.input']))
    starts, complaints = [], []

    def sr(status, headers, exc_info=None):
        log.append('S')
        starts.append((status, list(headers), exc_info is not None))
        return lambda b: None

    target = app
    if validate:
        def shim(environ, start_response):
            def sr2(*a, **kw):
                try:
                    return start_response(*a, **kw)
                except AssertionError as e:
                    complaints.append('start_response: ' + str(e)[:160])
                    log.append('S')      # what the application tried to emit
                    starts.append((a[0], list(a[1]) if isinstance(a[1], list) else a[1], len(a) > 2 and a[2] is not None))
                    raise
            return app(environ, sr2)
        target = validator(shim)
    escaped = None
    data, shape = b'', ''
    with CLWatch() as w, warnings.catch_warnings():
        warnings.simplefilter('ignore')
        try:
            result = target(env, sr)
            try:
                data, shape = consume(result, log)
            except AssertionError as e:
                complaints.append('iteration: ' + str(e)[:160])
            del result
        except AssertionError as e:
            complaints.append('call: ' + str(e)[:160])
        except Exception as e:     # an exception escaping the application
            escaped = type(e).__name__
    del env
    return dict(log=list(log), starts=starts, data=data, shape=shape, cl=w.inserted, escaped=escaped,
                complaints=complaints, urlrepr=urlrepr, urlrepr_arrival=urlrepr_arrival, hooks=hooks_now(app),
                described=cur.pop('described', None),
                produced=set(getattr(log, 'produced', ())), failed=getattr(log, 'failed', False))


def consume(result, log):
    """what a server does with the returned object: iterate, then close(); -> (bytes, shape)"""
    data, kinds = [], []
    try:
        for item in result:
            if isinstance(item, bytes):
                data.append(item)
                kinds.append('c')
            else:
                kinds.append('s')
                if isinstance(item, str):
                    data.append(item.encode('utf8'))
    except Exception:
        kinds.append('x')
    finally:
        close = getattr(result, 'close', None)
        if close:
            close()
    shape = ''.join(k for k, _ in itertools.groupby(kinds))
    return b''.join(data), shape


# --------------------------------------------------------------------------------------
# serialisation (grammar of Drv/Wsgi.lean)

def b01(x):
    return '1' if x else '0'


def ser_rstate(log, is_err, rspec):
    r = build_resp(log, is_err, rspec, '')
    toks = [str(r._status_code), hs(r._status_line), str(len(r._headers))]
    for k, v in r._headers.items():
        vs = v if isinstance(v, list) else [v]
        toks += [hs(k), str(len(vs))]
        for x in vs:
            toks += ['g', hs(x)]
    cs = list(r._cookies.values()) if r._cookies else []
    toks.append(str(len(cs)))
    for c in cs:
        toks += [hs(c.key), hs(c.value)]
    return toks


def ser_item(it):
    k = it[0]
    if k == 'e':
        if it[1] == '':
            return ['t', '-']
        if it[1] == b'':
            return ['b', '-']
        return ['e']
    if k == 't':
        return ['t', hs(it[1])]
    if k == 'b':
        return ['b', hb(it[1])]
    if k == 'y':
        return ['y'] + ser_out(it[1])
    if k == 'rr':
        return ['rr'] + ser_out(it[1])
    if k == 'ex':
        return ['ex']
    if k == 'un':
        return ['un', hs(unsup_repr(it[1]))]
    raise ValueError(it)


def ser_out(o):
    k = o[0]
    if k == 'rx':
        toks = ['r', b01(o[1]), str(o[2]), hs(o[3]), str(len(o[4]))]
        for name, vals in o[4]:
            toks += [hs(name), str(len(vals))]
            for v in vals:
                toks += ['g', hs(v)]
        toks.append(str(len(o[5])))
        for ck, cv in o[5]:
            toks += [hs(ck), hs(cv)]
        return toks + ser_out(o[6])
    if k == 'sh':
        return ser_out(_SHARED[o[1]])      # the model sees the object's value
    if k == 'f':
        return ['f', o[1]]
    if k == 't':
        return ['t', hs(o[1])]
    if k == 'b':
        return ['b', hb(o[1])]
    if k == 'r':
        return ['r', b01(o[1])] + ser_rstate([], o[1], o[2]) + ser_out(o[3])
    if k == 'fl':
        return ['fl', str(o[1]), b01(o[2]), b01(o[3]), hb(o[4])]
    if k == 'it':
        toks = ['it', str(o[1]), b01(o[2]), str(len(o[3]))]
        for it in o[3]:
            toks += ser_item(it)
        return toks
    if k == 'un':
        return ['un', hs(unsup_repr(o[1]))]
    raise ValueError(o)


def ser_eff(e):
    if e[0] == 'st':
        return ['st', str(e[1])]
    if e[0] == 'sl':
        return ['sl', hs(e[1])]
    if e[0] in ('sh', 'ah', 'ck'):
        return [e[0], hs(e[1]), hs(e[2])]
    if e[0] == 'bh':
        return ['bh', hs(e[1])]
    raise ValueError(e)


def ser_effs(effs):
    toks = [str(len(effs))]
    for e in effs:
        toks += ser_eff(e)
    return toks


def ser_res(res):
    if res[0] in ('ok', 'ex'):
        return [res[0]]
    return [res[0]] + ser_out(res[1])


_SHARED = {}


def ser_edit(e):
    if not e:
        return ['n']
    return ['ro', str(e[1])] if e[0] == 'ro' else [e[0]]


def ser_app(spec):
    global _SHARED
    _SHARED = spec.get('shared') or {}
    edits = spec.get('edits') or {}
    eb = {int(k): v for k, v in (edits.get('before') or {}).items()}
    ea = {int(k): v for k, v in (edits.get('after') or {}).items()}
    toks = [b01(spec.get('catchall', True)), str(len(spec['before']))]
    for i, (effs, res) in enumerate(spec['before']):
        toks += ser_effs(effs) + ser_edit(eb.get(i)) + ser_res(res)
    toks.append(str(len(spec['after'])))
    for j, (effs, res) in enumerate(spec['after']):
        toks += ser_effs(effs) + ser_edit(ea.get(j)) + ser_res(res)
    toks.append(str(len(spec['errh'])))
    for code, eh in spec['errh']:
        toks.append(str(code))
        toks += (['c'] + ser_out(eh[1])) if eh[0] in ('c', 'mut') else [eh[0]]   # (the model: a handed-out error is a copy)
    return toks


def ser_route(route):
    if route[0] == 'h':
        return ['h'] + ser_effs(route[1]) + ser_res(route[2])
    if route[0] == 'nf':
        return ['nf']
    return ['na', hs(','.join(sorted(route[1])))]


def environ_path(req):
    """environ['PATH_INFO'] as the catch-all page sees it: decoded, or left raw when undecodable"""
    p = path_of(req)
    return p if req['path_ok'] else p.encode('utf8').decode('latin1') + '\xff'


def ser_req(req, urlrepr, urlrepr_arrival=None, rewrite=None):
    arrive = req.get('arrive')
    if arrive and rewrite:
        ar = [str(rewrite['hook']), b01((arrive.get('method') or req['method']) == 'HEAD'),
              hs((arrive.get('prefix') or '') + environ_path(req)), hs(urlrepr_arrival)]
    else:
        ar = ['-']
    return [str(req['id']), b01(req['method'] == 'HEAD'), b01(req['fw']), b01(req['path_ok']),
            hs(environ_path(req)), hs(urlrepr), b01(req.get('json'))] + ar + ser_route(req['route'])


def add_rewrite(rng, spec, req):
    """make the request arrive with a prefix and / or another method; a before-hook puts it right"""
    if not req['path_ok']:
        return
    if not spec['before']:
        spec['before'] = [([], ('ok',))]
    arrive = {}
    if rng.random() < .75:
        arrive['prefix'] = rng.choice(['/v1', '/en', '/api/v2'])
    if req['method'] != 'HEAD' and (not arrive or rng.random() < .4):
        # method override (never from / to HEAD: whether the client gets a body must not be up to a hook)
        arrive['method'] = rng.choice([m for m in ('GET', 'POST', 'PUT', 'DELETE') if m != req['method']])
    if not arrive:
        arrive['prefix'] = '/v1'
    req['arrive'] = arrive
    spec['rewrite'] = dict(hook=rng.randrange(len(spec['before'])), how=rng.choice(['item', 'environ']))


# --------------------------------------------------------------------------------------
# JSON error bodies: the model knows them for errors that carry no exception object; a request may
# ask for JSON only when no part of the program can raise a plain exception

def _eff_may_fail(e):
    import re
    if e[0] == 'st':
        return not 100 <= e[1] <= 999
    if e[0] == 'sl':
        return not re.fullmatch(r'\d{3} [^\x00-\x1f\x7f]+', e[1])
    if e[0] == 'sh':
        return e[2] in BAD_HVALS
    return False


def _out_exc_free(o):
    k = o[0]
    if k in ('f', 't', 'b', 'fl', 'sh', 'rx'):
        return True
    if k == 'r':
        return _out_exc_free(o[3])
    if k == 'it':
        return all(i[0] in ('e', 't', 'b') or (i[0] in ('y', 'rr') and _out_exc_free(i[1])) for i in o[3])
    return False


def json_safe(spec, req):
    if spec['errh']:
        return False
    for effs, res in spec['before'] + spec['after']:
        if res[0] == 'ex' or any(_eff_may_fail(e) for e in effs):
            return False
        if len(res) > 1 and not _out_exc_free(res[1]):
            return False
    route = req['route']
    if route[0] == 'h':
        if route[2][0] == 'ex' or any(_eff_may_fail(e) for e in route[1]):
            return False
        if len(route[2]) > 1 and not _out_exc_free(route[2][1]):
            return False
    return True


# --------------------------------------------------------------------------------------
# generators

TEXTS = ['a', 'hello', 'é', '€uro', 'x' * 40, '<b>&"\'', 'line\n', ' ']
BYTESV = [b'a', b'hello', b'\x00\xff', b'x' * 40, b'\r\n', b"it's", b'q"q']
HNAMES = ['X-A', 'X-B', 'Content-Type', 'content-type', 'Content-Length', 'Allow', 'content-length',
          'Content-Range', 'Last-Modified', 'x_y', 'Content-Encoding', 'ETag']
HVALS = ['v', '1', 'text/plain', 'text/plain; charset=UTF-8', 'é', 'a b', '', '0', '17']
BAD_HVALS = ['a\nb', 'a\rb', 'a\0b']
CK_NAMES = ['k', 'sid', 'a1']
CK_VALS = ['v', 'abc123', 'X', 'tok-1.2']
STATUS_INTS = [200, 200, 201, 202, 204, 204, 304, 304, 100, 101, 102, 103, 199, 206, 299, 301, 302, 400, 401, 404,
               405, 410, 418, 500, 500, 503, 599, 600, 999, 777]
STATUS_BAD_INTS = [0, 99, 1000, 12345]
STATUS_STRS = ['200 OK', '404 Brain not found', '204 Nothing', '304 Same', '299 Custom reason', '500 Oops',
               ' 201 Created ', '101 Switch', '999 Z']
STATUS_ODD_STRS = ['200', 'abc', 'abc def', '99 Low', '1000 High', ' ', '', '200 ', '+200 OK', '0200 OK',
                   '2_0_0 OK', '200\tOK x', '200 OK\r\nX: y', '-200 OK', '20 0 OK', '200\xa0OK z']


# error handlers that annotate the error object they are handed (finding E: it used to be the
# process-wide errors_map singleton; `_raise` now raises a per-request copy)
MUTATING_ERRH = [True]


class Gen:
    def __init__(self, rng, safe_headers=False, odd_status=True):
        self.rng = rng
        self.next_id = 1
        self.safe_headers = safe_headers      # oracle domain: no Content-Length etc. set by programs
        self.safe_names = ['X-A', 'X-B', 'ETag', 'x_y', 'Content-Type', 'Allow', 'Last-Modified']
        self.odd_status = odd_status
        self.catchall_off = not safe_headers   # catchall=False only in the correspondence stream

    def nid(self):
        self.next_id += 1
        return self.next_id

    def text(self):
        return self.rng.choice(TEXTS)

    def bytesv(self):
        return self.rng.choice(BYTESV)

    def status(self, allow_bad=False):
        r = self.rng.random()
        if r < .6:
            return self.rng.choice(STATUS_INTS)
        if r < .9 or not allow_bad:
            return self.rng.choice(STATUS_STRS)
        if r < .95:
            return self.rng.choice(STATUS_BAD_INTS)
        return self.rng.choice(STATUS_ODD_STRS) if self.odd_status else self.rng.choice(STATUS_BAD_INTS)

    def hname(self):
        if self.safe_headers:
            return self.rng.choice(self.safe_names)
        return self.rng.choice(HNAMES)

    def rspec(self):
        rng = self.rng
        d = dict(status=self.status(), headers=[], cookies=[])
        for _ in range(rng.choice([0, 0, 1, 2])):
            d['headers'].append((self.hname(), rng.choice(HVALS)))
        for _ in range(rng.choice([0, 0, 0, 1, 2])):
            d['cookies'].append((rng.choice(CK_NAMES), rng.choice(CK_VALS)))
        return d

    def effs(self, bad=True):
        rng = self.rng
        out = []
        for _ in range(rng.choice([0, 0, 0, 1, 1, 2, 3])):
            k = rng.random()
            if k < .35:
                s = self.status(allow_bad=bad)
                out.append(('st', s) if isinstance(s, int) else ('sl', s))
            elif k < .6:
                out.append(('sh', self.hname(), rng.choice(HVALS + (BAD_HVALS if bad and rng.random() < .1 else []))))
            elif k < .75:
                out.append(('ah', self.hname(), rng.choice(HVALS)))
            elif k < .8 and bad:
                out.append(('bh', self.hname()))
            else:
                out.append(('ck', rng.choice(CK_NAMES), rng.choice(CK_VALS)))
        return out

    def err_body(self):
        r = self.rng.random()
        if r < .5:
            return ('t', self.text())
        if r < .7:
            return ('f', self.rng.choice(['str', 'none']))
        if r < .8:
            return ('f', self.rng.choice(['bytes', 'zero', 'list', 'false', 'dict']))
        return ('b', self.bytesv())

    def resp(self, depth):
        if self.rng.random() < .45:
            return ('r', True, self.rspec(), self.err_body())
        return ('r', False, self.rspec(), self.out(depth - 1))

    def items(self, depth, mixed_ok=True):
        rng = self.rng
        lead = [('e', rng.choice([None, '', b'', None])) for _ in range(rng.choice([0, 0, 0, 1, 2, 5]))]
        k = rng.random()
        if k < .38:
            rest = [('t', self.text()) if rng.random() < .9 else ('e', '') for _ in range(rng.choice([0, 1, 2, 4]))]
            body = [('t', self.text())] + rest
        elif k < .76:
            rest = [('b', self.bytesv()) if rng.random() < .9 else ('e', b'') for _ in range(rng.choice([0, 1, 2, 4]))]
            body = [('b', self.bytesv())] + rest
        elif k < .80:
            body = []
        elif k < .86:
            body = [('y', self.resp(depth))]
        elif k < .91:
            body = [('rr', self.resp(depth))]
        elif k < .96:
            body = [('ex',)]
        else:
            body = [('un', rng.choice(['int', 'float', 'object']))]
        if mixed_ok and body and body[0][0] in ('t', 'b') and rng.random() < .08:
            # outside the property's domain (kept in the correspondence only)
            body.append(rng.choice([('t', 'mix'), ('b', b'mix'), ('e', None), ('ex',), ('un', 'int'),
                                    ('y', ('r', False, dict(status=200, headers=[], cookies=[]), ('t', 'q')))]))
            if rng.random() < .5:
                body.append(body[0])
        return lead + body

    def out(self, depth=3, mixed_ok=True):
        rng = self.rng
        k = rng.random()
        if depth <= 0:
            k = k * .45
        if k < .08:
            return ('f', rng.choice(list(FALSY)))
        if k < .22:
            return ('t', self.text())
        if k < .34:
            return ('b', self.bytesv())
        if k < .38:
            return ('un', rng.choice(['int', 'float', 'object']))
        if k < .45:
            return ('fl', self.nid(), rng.random() < .5, rng.random() < .5,
                    rng.choice([b'', b'hello', b'0123456789' * 3, b'\xff\x00']))
        if k < .62:
            return self.resp(depth)
        if k < .70:
            return ('fl', self.nid(), rng.random() < .6, rng.random() < .5,
                    rng.choice([b'', b'hello', b'0123456789' * 900]))
        items = self.items(depth, mixed_ok)
        rest = list(itertools.dropwhile(lambda z: z[0] == 'e', items))
        plain = all(i[0] in ('e', 't', 'b') for i in items)
        kinds = {i[0] for i in rest if i[0] != 'e'}
        homog = plain and bool(rest) and len(kinds) == 1 and \
            all(i[0] != 'e' or i[1] == ('' if 't' in kinds else b'') for i in rest)
        flav = ['cls', 'cls']
        if plain:
            flav += ['list', 'tuple']
        if homog:
            flav += ['gen', 'gen']
        if plain and items and all(i[0] == 't' and i[1] for i in items) and len({i[1] for i in items}) == len(items):
            flav += ['dict']
        f = rng.choice(flav)
        has_close = True if f == 'gen' else False if f in ('list', 'tuple', 'dict') else rng.random() < .6
        return ('it', self.nid(), has_close, items, f)

    def hook(self, depth=2):
        r = self.rng.random()
        effs = self.effs(bad=self.rng.random() < .15)
        if r < .8:
            return (effs, ('ok',))
        if r < .9:
            return (effs, ('rr', self.resp(depth)))
        return (effs, ('ex',))

    def errh(self):
        r = self.rng.random()
        if MUTATING_ERRH[0] and r < .2:
            return ('mut', self.out(1))
        if r < .7:
            return ('c', self.out(2))
        if r < .9:
            return ('bd',)
        return ('ex',)

    def app(self):
        rng = self.rng
        spec = dict(before=[self.hook() for _ in range(rng.choice([0, 0, 1, 2, 3]))],
                    after=[self.hook() for _ in range(rng.choice([0, 0, 1, 2, 3]))], errh=[])
        for code in rng.sample([404, 405, 500, 400, 418, 503], rng.choice([0, 0, 0, 1, 2])):
            spec['errh'].append((code, self.errh()))
        if rng.random() < .3:
            # hooks that change the list of the event being emitted
            ed = {'before': {}, 'after': {}}
            for side in ('before', 'after'):
                n = len(spec[side])
                for i in range(n):
                    if rng.random() < .4:
                        ed[side][i] = rng.choice([('rs',), ('rs',), ('an',), ('ro', rng.randrange(n)),
                                                  ('ro', min(n - 1, i + 1))])
            spec['edits'] = ed
        if self.catchall_off and rng.random() < .15:
            spec['catchall'] = False
        return spec

    def route(self):
        rng = self.rng
        r = rng.random()
        if r < .8:
            k = rng.random()
            o = self.out(3)
            res = ('ret', o) if k < .7 else ('rr', self.resp(2)) if k < .85 else ('ex',)
            return ('h', self.effs(), res)
        if r < .9:
            return ('nf',)
        return ('na', rng.sample(['GET', 'POST', 'PUT', 'DELETE'], rng.choice([1, 2])))

    def req(self, rid=1):
        rng = self.rng
        route = self.route()
        method = rng.choice(['GET', 'GET', 'GET', 'HEAD', 'HEAD', 'POST', 'PUT', 'DELETE', 'PATCH', 'OPTIONS'])
        if route[0] == 'na':
            method = rng.choice([m for m in ['PATCH', 'OPTIONS', 'HEAD', 'POST', 'GET']
                                 if m not in route[1] and not (m == 'HEAD' and 'GET' in route[1])])
        return dict(id=rid, method=method, fw=rng.random() < .4, path_ok=True,
                    tail=rng.choice(['', '', '', 'a', 'a/b', '<i>&"\'', 'é€']), query=rng.choice(['', 'a=1', 'q=<x>']),
                    route=route)
