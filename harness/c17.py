"""C17 - Range and conditional requests describe exactly the bytes delivered."""
import os
import tempfile
import shutil
import email.utils

from harness import core
from harness.core import hb, hs, nl, opt, hbl, Check, Finding, SchedStream


class FP:
    """file-like over bytes with a read schedule (short reads)"""

    def __init__(self, data, sched):
        self.data, self.sched, self.st = data, list(sched), None

    def seek(self, off):
        self.st = SchedStream(self.data[off:], self.sched)

    def read(self, n):
        return self.st.read(n)


DIGS = ['0', '1', '2', '3', '5', '7', '9', '10', '12', '99', '007', '1_0']
JUNK = ['', ' ', '-', ',', '_', '+', 'a', 'x', '=', 'bytes=', '\t', '\xa0', '\x1c', '--', '1-2', 'bytes']


def gen_header(rng):
    k = rng.randrange(10)
    d = lambda: rng.choice(DIGS)
    if k == 0:
        return f'bytes={d()}-{d()}'
    if k == 1:
        return f'bytes={d()}-'
    if k == 2:
        return f'bytes=-{d()}'
    if k == 3:
        return f'bytes={d()}-{d()},{d()}-{d()}'
    if k == 4:
        return f'bytes= {d()} - {d()} '
    if k == 5:
        return f'bytes={rng.choice(["+", "-", ""])}{d()}-{rng.choice(["+", "-", ""])}{d()}'
    if k == 6:
        return 'bytes=' + ''.join(rng.choice(DIGS + JUNK) for _ in range(rng.randint(0, 5)))
    if k == 7:
        return ''.join(rng.choice(DIGS + JUNK) for _ in range(rng.randint(0, 6)))
    if k == 8:
        return f'items={d()}-{d()}'
    return f'xbytes=bytes={d()}-{d()}'


def rfc_first_range(header, length):
    """RFC 7233 clipping of the FIRST range-spec of a syntactically valid header with plain
    decimal numbers; returns 'skip' when the header is not of that grammar."""
    import re
    m = re.fullmatch(r'bytes=(\d*)-(\d*)((,[^,]*)*)', header)
    if not m or (m.group(1) == '' and m.group(2) == ''):
        return 'skip'
    a, b = m.group(1), m.group(2)
    if a == '':
        n = int(b)
        if n == 0 or length == 0:
            return None
        return (max(0, length - n), length)
    s = int(a)
    if b == '':
        return (s, length) if s < length else None
    e = int(b)
    if e < s or s >= length:
        return None
    return (s, min(e + 1, length))


class C17(Check):
    pid = 'C17'
    props_mod = 'OmbottModel.Props.C17'
    tables = ['tables']
    design_ref = '6/C17'
    level_text = ('Lean theorems over the model of get_first_range/_file_iter_range/static_file for all headers, '
                  'lengths, schedules and buffers (bounds, 206 self-consistency, RFC 7233 clipping of the first '
                  'range-spec, 304/HEAD); model tied to the code by a differential run on real files every time.')
    level_note_extra = 'date parsing, stat and file stability are assumed'
    anchors = ['ombott/static_stream.py', 'ombott/common_helpers.py']
    rule = ('headers from the RFC 7233 grammar and near misses x file lengths 0..40 and around a patched small '
            'streaming buffer x read schedules x If-Modified-Since before/equal/after mtime x GET/HEAD on real '
            'temporary files; non-trivial = header contains "bytes=" (reaches the range arithmetic)')
    assumptions = ['email.utils date parsing and os.stat are taken as given (parse_date result shipped to the model)',
                   'the file does not change between stat and read',
                   'int() on non-ASCII decimal digits is outside the model (WSGI header strings are Latin-1)']

    def budget(self, tier, escalated):
        n = 3000 if tier == 'quick' else 60000
        return n * (4 if escalated and tier == 'quick' else 1)

    def nontrivial(self, sample):
        return 'bytes=' in str(sample)

    # ------------------------------------------------------------------
    def _setup(self):
        from ombott import static_stream
        self.ss = static_stream
        self.tmp = tempfile.mkdtemp(prefix='c17_', dir=os.environ.get('VERIF_TMP'))
        self.mtime = 1_600_000_000

    def _teardown(self):
        shutil.rmtree(self.tmp, ignore_errors=True)

    def _file(self, n):
        p = os.path.join(self.tmp, f'f{n}.bin')
        if not os.path.exists(p):
            with open(p, 'wb') as f:
                f.write(bytes((i * 7 + 3) % 251 for i in range(n)))
            os.utime(p, (self.mtime, self.mtime))
        return p

    def _static(self, n, method, rng_hdr, ims_hdr, maxread):
        """run the real static_file; returns (status, headers, chunks|bytes)"""
        from ombott.ombott import Globals
        ss = self.ss
        p = self._file(n)
        env = {'REQUEST_METHOD': method, 'PATH_INFO': '/x'}
        if rng_hdr is not None:
            env['HTTP_RANGE'] = rng_hdr
        if ims_hdr is not None:
            env['HTTP_IF_MODIFIED_SINCE'] = ims_hdr
        Globals.request.__init__(env)
        old = ss._file_iter_range.__defaults__
        ss._file_iter_range.__defaults__ = (maxread,)
        try:
            r = ss.static_file(os.path.basename(p), self.tmp)
            body = r.body
            if hasattr(body, 'read'):
                data = body.read()
                body.close()
                chunks = data
            elif isinstance(body, (str, bytes)):
                chunks = [] if r.status_code == 206 else None
            else:
                chunks = list(body)
            return r, chunks
        finally:
            ss._file_iter_range.__defaults__ = old

    def corr(self, rng, n):
        self._setup()
        out = []
        try:
            gfr = self.ss.get_first_range
            for _ in range(n):
                h = gen_header(rng)
                L = rng.choice([0, 1, 2, 3, 5, 8, 10, 11, 12, 13, 40, 100])
                r = gfr(h, L)
                out.append((f'range first {hs(h)} {L}', 'none' if r is None else f'some {r[0]} {r[1]}',
                            dict(kind='first', header=h, maxlen=L)))
            for _ in range(n // 3):
                L = rng.randint(0, 40)
                data = bytes(rng.randrange(256) for _ in range(L))
                sched = core.gen_sched(rng, L)
                off = rng.randint(0, L + 2)
                blen = rng.randint(0, L + 3)
                mr = rng.choice([1, 2, 3, 4, 7, 8, 64])
                chunks = list(self.ss._file_iter_range(FP(data, sched), off, blen, mr))
                out.append((f'range iter {hb(data[off:])} {nl(sched)} {blen} {mr}', hbl(chunks),
                            dict(kind='iter', len=L, off=off, blen=blen, maxread=mr, sched=sched[:8])))
            for _ in range(n // 3):
                L = rng.choice([0, 1, 2, 5, 7, 8, 9, 15, 16, 17, 33])
                method = rng.choice(['GET', 'GET', 'HEAD'])
                h = rng.choice([None, None, '']) if rng.random() < .25 else gen_header(rng)
                ims = None
                k = rng.randrange(6)
                if k < 3:
                    ims = email.utils.formatdate(self.mtime + (k - 1) * rng.choice([1, 3600]), usegmt=True)
                elif k == 3:
                    ims = rng.choice(['junk', '0', 'Thu, 99 Foo 2020'])
                mr = rng.choice([1, 2, 4, 8, 16, 1 << 20])
                r, chunks = self._static(L, method, h, ims, mr)
                from ombott.common_helpers import parse_date
                ims_v = parse_date(ims.split(';')[0].strip()) if ims else None
                ims_m = None if ims_v is None else int(ims_v) if ims_v == int(ims_v) else None
                if ims_v is not None and ims_m is None:
                    continue
                sc = r.status_code
                if sc == 304:
                    ans = '304'
                elif sc == 416:
                    ans = '416'
                elif sc == 206:
                    ans = (f'206 cr={hs(r.headers["Content-Range"])} cl={hs(str(r.headers["Content-Length"]))} '
                           f'body={hbl(chunks)}')
                else:
                    body = '~' if method == 'HEAD' else hb(chunks)
                    ans = f'{sc} cl={r.headers["Content-Length"]} body={body}'
                data = open(self._file(L), 'rb').read()
                out.append((f'range static {hb(data)} - {1 if method == "HEAD" else 0} {opt(h, hs)} '
                            f'{opt(ims_m)} {self.mtime} {mr}', ans,
                            dict(kind='static', len=L, method=method, range=h, ims=ims, maxread=mr)))
        finally:
            self._teardown()
        return out

    # ------------------------------------------------------------------
    def _oracle(self, L, method, h, ims_delta, mr):
        """returns None or (key, what)"""
        ims = None if ims_delta is None else email.utils.formatdate(self.mtime + ims_delta, usegmt=True)
        r, chunks = self._static(L, method, h, ims, mr)
        data = open(self._file(L), 'rb').read()
        sc = r.status_code
        if ims_delta is not None and ims_delta >= 0:
            if sc != 304:
                return 'ims-not-304', f'If-Modified-Since not older than the file answered {sc}'
            if r.body:
                return '304-body', '304 with a body'
            return None
        if sc == 304:
            return 'ims-304-older', '304 although the date is older than the file'
        if not h:
            if sc != 200:
                return 'norange-status', f'no Range header answered {sc}'
            if int(r.headers['Content-Length']) != L:
                return 'norange-length', 'Content-Length differs from the file length'
            if method == 'HEAD':
                if r.body:
                    return 'head-body', 'HEAD with a body'
            elif chunks != data:
                return 'norange-body', 'full body differs from the file'
            return None
        exp = rfc_first_range(h, L)
        if sc == 206:
            cr, cl = r.headers['Content-Range'], int(r.headers['Content-Length'])
            import re
            m = re.fullmatch(r'bytes (\d+)-(\d+)/(\d+)', cr)
            if not m:
                return 'content-range-syntax', f'bad Content-Range {cr!r}'
            s, e, tot = int(m.group(1)), int(m.group(2)) + 1, int(m.group(3))
            if tot != L or not (0 <= s < e <= L):
                return 'content-range-bounds', f'Content-Range {cr!r} does not fit a file of {L} bytes'
            if cl != e - s:
                return 'content-length-mismatch', f'Content-Length {cl} vs Content-Range {cr!r}'
            if method == 'HEAD':
                if chunks:
                    return 'head-body', 'HEAD with a body'
            else:
                if b''.join(chunks) != data[s:e]:
                    return 'body-mismatch', f'delivered bytes differ from file[{s}:{e}]'
                if any(len(c) > mr for c in chunks):
                    return 'chunk-too-large', 'a delivered chunk exceeds the streaming buffer'
            if exp != 'skip' and exp != (s, e):
                return 'rfc-clipping', f'{h!r} on {L} bytes gave {s}-{e}, RFC 7233 says {exp}'
        elif sc == 416:
            if exp != 'skip' and exp is not None:
                return 'rfc-416', f'{h!r} on {L} bytes is satisfiable ({exp}) but got 416'
        else:
            return 'range-status', f'Range header answered {sc}'
        return None

    def search(self, rng, n, seeds):
        self._setup()
        findings, evals = [], 0
        try:
            cases = []
            for s in seeds:
                if s.get('kind') == 'static':
                    cases.append((s['len'], s['method'], s['range'], None, s['maxread']))
                elif s.get('kind') == 'first':
                    cases.append((s['maxlen'], 'GET', s['header'], None, 4))
            # small exhaustive grid over the RFC grammar
            vals = ['', '0', '1', '3', '6', '7', '8', '99']
            for L in range(0, 8):
                for a in vals:
                    for b in vals:
                        cases.append((L, 'GET', f'bytes={a}-{b}', None, 3))
            for _ in range(n // 4):
                L = rng.choice([0, 1, 2, 5, 7, 8, 9, 15, 16, 17, 33])
                cases.append((L, rng.choice(['GET', 'HEAD']),
                              rng.choice([None, gen_header(rng), gen_header(rng)]),
                              rng.choice([None, None, None, -3600, -1, 0, 1, 3600]),
                              rng.choice([1, 2, 4, 8, 16, 1 << 20])))
            for c in cases:
                evals += 1
                try:
                    bad = self._oracle(*c)
                except Exception as e:
                    bad = ('exception', f'{type(e).__name__}: {e}')
                if bad:
                    findings.append(Finding(f'C17:{bad[0]}', bad[1],
                                            dict(len=c[0], method=c[1], range=c[2], ims_delta=c[3], maxread=c[4])))
        finally:
            self._teardown()
        return evals, findings

    def replay(self, data):
        self._setup()
        try:
            i = data['input']
            return dict(input=i, oracle=self._oracle(i['len'], i['method'], i['range'], i.get('ims_delta'), i['maxread']))
        finally:
            self._teardown()
