"""C17 - Range and conditional requests describe exactly the bytes delivered."""
import calendar
import math
import os
import tempfile
import shutil
import time
import email.utils

from harness import core
from harness.core import hb, hs, nl, opt, hbl, Check, Finding, SchedStream


class FP:
    """file-like over bytes with a read schedule (short reads)"""

    def __init__(self, data, sched):
        self.data, self.sched, self.st = data, list(sched), None

    def seek(self, off):
        self.st = SchedStream(self.data[off:], self.sched)

    def read(self, n):
        return self.st.read(n)


DIGS = ['0', '1', '2', '3', '5', '7', '9', '10', '12', '99', '007', '1_0']
JUNK = ['', ' ', '-', ',', '_', '+', 'a', 'x', '=', 'bytes=', '\t', '\xa0', '\x1c', '--', '1-2', 'bytes']


# time zones the If-Modified-Since cases run under: the conversion of an HTTP date (always GMT) must not depend on
# the zone of the process.  DST zones of both hemispheres, a zone with a half-hour offset, a POSIX rule string, and
# Europe/Dublin, whose tzdata has NEGATIVE daylight saving (standard time in summer).
TZS = ['UTC', 'Europe/Berlin', 'CET-1CEST,M3.5.0,M10.5.0/3', 'America/New_York', 'Australia/Sydney', 'Asia/Kolkata',
       'Europe/Dublin']
# file modification instants: winter, summer, and the hours around the European / US / Australian switches of 2020
MTIMES = [1_600_000_000, 1_580_000_000, 1_594_000_000, 1585443600, 1585443600 - 1800, 1603587600, 1603587600 + 1800,
          1583650800, 1604210400, 1586016000, 1601740800]
IMS_DELTAS = [-86400, -3600, -3599, -1, 0, 1, 1800, 3599, 3600, 86400]
# BOUNDARY modification times (class: values of the clock at which a number changes its nature): the epoch itself and
# its neighbours (0 is the one instant that is falsy), instants before 1970 (negative), sub-second stamps (the code
# compares int(st_mtime): truncation toward zero, so -0.5 and 0.5 both read 0), the ends of the first day, the 32-bit
# limits (2038, 1901, 2106), the leap day 2000 and the turn of the century 2100 (not a leap year), Y2K.  A file system
# that cannot store one of them (clamps it) drops that value: see C17._edge_mtimes.
MTIMES_EDGE = [0, 1, -1, 2, 0.5, -0.5, 1.5, 0.25, -1.75, 86399, 86400, -86400, -86401, 2 ** 31 - 1, 2 ** 31, 2 ** 31 + 0.5,
               2 ** 32 - 1, 2 ** 32, -2 ** 31, 946684799, 946684800, 951782400, 951868800, 4102444800, 4107542400,
               1_600_000_000.75]
# If-Modified-Since header values that are NOT DATES AT ALL (class: a header that is present but names no instant):
# empty, white space only, only the separator / a parameter of the obsolete `; length=` extension.  Such a header is no
# condition: the answer is the one given without the header (200 / 206 / 416), never a 304 and never a 5xx.
IMS_NONDATES = ['', ' ', '\t', '   ', ';', '; length=3', ' ;', ';;', ' ; length=5 ', ';length', '\t;\t']
IMS_DELTAS_EDGE = [-86400, -2, -1, 0, 1, 2, 3600]


class Zone:
    """run a block under another TZ"""

    def __init__(self, tz):
        self.tz = tz

    def __enter__(self):
        self.old = os.environ.get('TZ')
        if self.tz is not None:
            os.environ['TZ'] = self.tz
            time.tzset()

    def __exit__(self, *a):
        if self.tz is not None:
            if self.old is None:
                os.environ.pop('TZ', None)
            else:
                os.environ['TZ'] = self.old
            time.tzset()


def http_date(t, style=0):
    """the three date formats of RFC 7231 7.1.1.1 for the instant t (all GMT)"""
    g = time.gmtime(t)
    if style == 1:      # rfc850
        return time.strftime('%A, %d-%b-%y %H:%M:%S GMT', g)
    if style == 2:      # asctime
        return time.strftime('%a %b ', g) + ('%2d' % g.tm_mday) + time.strftime(' %H:%M:%S %Y', g)
    return email.utils.formatdate(t, usegmt=True)


def ims_fields(ims):
    """what the model is given for an If-Modified-Since header: '~' (none / unparsable) or the fields that
    email.utils.parsedate_tz (library) returned; None = outside the model (year out of datetime's range)"""
    if not ims:
        return '~'
    ts = email.utils.parsedate_tz(ims.split(';')[0].strip())
    if ts is None:
        return '~'
    if not (1 <= ts[0] <= 9999):
        return None
    return 'd:' + ','.join(str(x) for x in ts[:6]) + ',' + str(ts[9] or 0)


def gen_header(rng):
    k = rng.randrange(10)
    d = lambda: rng.choice(DIGS)
    if k == 0:
        return f'bytes={d()}-{d()}'
    if k == 1:
        return f'bytes={d()}-'
    if k == 2:
        return f'bytes=-{d()}'
    if k == 3:
        return f'bytes={d()}-{d()},{d()}-{d()}'
    if k == 4:
        return f'bytes= {d()} - {d()} '
    if k == 5:
        return f'bytes={rng.choice(["+", "-", ""])}{d()}-{rng.choice(["+", "-", ""])}{d()}'
    if k == 6:
        return 'bytes=' + ''.join(rng.choice(DIGS + JUNK) for _ in range(rng.randint(0, 5)))
    if k == 7:
        return ''.join(rng.choice(DIGS + JUNK) for _ in range(rng.randint(0, 6)))
    if k == 8:
        return f'items={d()}-{d()}'
    return f'xbytes=bytes={d()}-{d()}'


def rfc_first_range(header, length):
    """RFC 7233 clipping of the FIRST range-spec of a syntactically valid header with plain
    decimal numbers; returns 'skip' when the header is not of that grammar."""
    import re
    if header.startswith('bytes=') and '-' not in header[6:].split(',')[0]:
        return None            # `bytes=5`, `bytes=5,0-1`, `bytes=`: the first range-spec names no range at all
    m = re.fullmatch(r'bytes=(\d*)-(\d*)((,[^,]*)*)', header)
    if m and m.group(1) == '' and m.group(2) == '':
        return None            # `bytes=-`: neither a position nor a suffix length
    if not m:
        return 'skip'
    a, b = m.group(1), m.group(2)
    if a == '':
        n = int(b)
        if n == 0 or length == 0:
            return None
        return (max(0, length - n), length)
    s = int(a)
    if b == '':
        return (s, length) if s < length else None
    e = int(b)
    if e < s or s >= length:
        return None
    return (s, min(e + 1, length))


class C17(Check):
    pid = 'C17'
    props_mod = 'OmbottModel.Props.C17'
    tables = ['tables']
    design_ref = '6/C17'
    level_text = ('Lean theorems over the model of get_first_range/_file_iter_range/static_file for all headers, '
                  'lengths, schedules and buffers (bounds, 206 self-consistency, RFC 7233 clipping of the first '
                  'range-spec, 304/HEAD); model tied to the code by a differential run on real files every time.')
    level_note_extra = 'date parsing, stat and file stability are assumed'
    anchors = ['ombott/static_stream.py', 'ombott/common_helpers.py']
    rule = ('headers from the RFC 7233 grammar and near misses x file lengths 0..40 and around a patched small '
            'streaming buffer x read schedules x If-Modified-Since before/equal/after mtime (three HTTP date formats, own zone offsets, junk, and headers that are present but no date at all: empty, blank, only separators = no condition) '
            'x BOUNDARY modification times (the epoch and its neighbours, before 1970, sub-second stamps on both sides of 0, '
            'the ends of the first day, 2^31 / 2^32 / -2^31, Y2K, the leap days 2000 / 2100; st_mtime_ns goes to the model, which truncates like int(st_mtime)) x modification times in winter / summer / the hours of the 2020 DST switches x the process '
            'running under TZ = UTC, Europe/Berlin, a POSIX rule string, America/New_York, Australia/Sydney, Asia/Kolkata, '
            'Europe/Dublin x GET/HEAD on real temporary files; HEAD against GET header for header; the same requests through app(environ, start_response) of an application whose handler returns static_file(...) (status, header list, body); non-trivial = header contains "bytes=" (reaches the range arithmetic)')
    assumptions = ['email.utils.parsedate_tz and os.stat are taken as given: the parsed fields are shipped to the model, which '
                   'converts them like calendar.timegm (minus the date\'s zone offset); years outside 1..9999 are outside the model',
                   'the file does not change between stat and read',
                   'int() on non-ASCII decimal digits is outside the model (WSGI header strings are Latin-1)']

    def budget(self, tier, escalated):
        n = 3000 if tier == 'quick' else 60000
        return n * (4 if escalated and tier == 'quick' else 1)

    def nontrivial(self, sample):
        return 'bytes=' in str(sample)

    # ------------------------------------------------------------------
    def _setup(self):
        from ombott import static_stream
        self.ss = static_stream
        self.tmp = tempfile.mkdtemp(prefix='c17_', dir=os.environ.get('VERIF_TMP'))
        self.mtime = 1_600_000_000
        self._edges = None

    def _teardown(self):
        shutil.rmtree(self.tmp, ignore_errors=True)

    def _file(self, n, mtime=None):
        mtime = self.mtime if mtime is None else mtime
        p = os.path.join(self.tmp, f'f{n}_{mtime}.bin')
        if not os.path.exists(p):
            with open(p, 'wb') as f:
                f.write(bytes((i * 7 + 3) % 251 for i in range(n)))
            ns = round(mtime * 10 ** 9)
            os.utime(p, ns=(ns, ns))
            if os.stat(p).st_mtime_ns != ns:
                raise RuntimeError(f'the scratch file system does not keep the modification time {mtime!r}')
        return p

    def _edge_mtimes(self):
        """the boundary modification times this file system stores exactly (others are clamped by it: dropped, counted)"""
        if getattr(self, '_edges', None) is None:
            self._edges = []
            for t in MTIMES_EDGE:
                try:
                    self._file(1, t)
                    self._edges.append(t)
                except (RuntimeError, OSError, OverflowError, ValueError):
                    pass
        return self._edges

    def _static(self, n, method, rng_hdr, ims_hdr, maxread, mtime=None, tz=None):
        """run the real static_file (under time zone `tz`); returns (response, chunks|bytes)"""
        with Zone(tz):
            return self._static0(n, method, rng_hdr, ims_hdr, maxread, mtime)

    def _static0(self, n, method, rng_hdr, ims_hdr, maxread, mtime):
        from ombott.ombott import Globals
        ss = self.ss
        p = self._file(n, mtime)
        env = {'REQUEST_METHOD': method, 'PATH_INFO': '/x'}
        if rng_hdr is not None:
            env['HTTP_RANGE'] = rng_hdr
        if ims_hdr is not None:
            env['HTTP_IF_MODIFIED_SINCE'] = ims_hdr
        Globals.request.__init__(env)
        old = ss._file_iter_range.__defaults__
        ss._file_iter_range.__defaults__ = (maxread,)
        try:
            r = ss.static_file(os.path.basename(p), self.tmp)
            body = r.body
            if hasattr(body, 'read'):
                data = body.read()
                body.close()
                chunks = data
            elif isinstance(body, (str, bytes)):
                chunks = [] if r.status_code == 206 else None
            else:
                chunks = list(body)
            return r, chunks
        finally:
            ss._file_iter_range.__defaults__ = old

    # ------------------------------------------------------------------
    # the same responses THROUGH the WSGI application: a handler that returns static_file(...)
    def _app(self):
        from ombott.ombott import Globals
        app = Globals.app                       # static_file reads Globals.request, i.e. this application's request
        if not getattr(app, 'verif_c17', False):
            def handler():
                chk = app.verif_c17_holder[0]           # the check object currently driving the application
                return chk.ss.static_file(chk._wsgi_name, chk.tmp)
            app.route('/verif_c17_static', method=['GET', 'HEAD'], callback=handler)
            app.verif_c17 = True
            app.verif_c17_holder = [self]
        app.verif_c17_holder[0] = self
        return app

    def _wsgi(self, n, method, rng_hdr, ims_hdr, maxread, mtime=None, tz=None):
        """GET/HEAD of the file through app(environ, start_response); -> (status code, header list, body chunks)"""
        import io
        app = self._app()
        p = self._file(n, mtime)
        self._wsgi_name = os.path.basename(p)
        env = {'REQUEST_METHOD': method, 'PATH_INFO': '/verif_c17_static', 'SCRIPT_NAME': '', 'QUERY_STRING': '',
               'SERVER_NAME': 'verif', 'SERVER_PORT': '80', 'SERVER_PROTOCOL': 'HTTP/1.1', 'wsgi.input': io.BytesIO(b''),
               'wsgi.errors': io.StringIO(), 'wsgi.url_scheme': 'http', 'wsgi.version': (1, 0),
               'wsgi.multithread': False, 'wsgi.multiprocess': False, 'wsgi.run_once': False}
        if rng_hdr is not None:
            env['HTTP_RANGE'] = rng_hdr
        if ims_hdr is not None:
            env['HTTP_IF_MODIFIED_SINCE'] = ims_hdr
        started = []
        ss = self.ss
        old = ss._file_iter_range.__defaults__
        ss._file_iter_range.__defaults__ = (maxread,)
        try:
            with Zone(tz):
                out = app(env, lambda status, headers, exc_info=None: started.append((status, list(headers))))
                chunks = [c for c in out]
                close = getattr(out, 'close', None)
                if close:
                    close()
        finally:
            ss._file_iter_range.__defaults__ = old
        status, headers = started[0]
        return int(status.split()[0]), headers, chunks

    @staticmethod
    def _hget(headers, name):
        vals = [v for k, v in headers if k.lower() == name.lower()]
        return vals[0] if len(vals) == 1 else (None if not vals else vals)

    def _wsgi_answer(self, method, sc, headers, chunks):
        """the WSGI observation in the answer format of the `range static` line"""
        if sc in (304, 416):
            return str(sc)
        if sc == 206:
            return (f'206 cr={hs(str(self._hget(headers, "Content-Range")))} '
                    f'cl={hs(str(self._hget(headers, "Content-Length")))} body={hbl(chunks)}')
        body = '~' if method == 'HEAD' and not chunks else hb(b''.join(chunks))
        return f'{sc} cl={self._hget(headers, "Content-Length")} body={body}'

    HDRS = ['Content-Length', 'Content-Range', 'Accept-Ranges', 'Last-Modified', 'Content-Type', 'Content-Encoding']

    def _oracle_wsgi(self, L, h, ims, mr, mtime=None, tz=None):
        """GET and HEAD through the application: status and entity headers of HEAD equal GET's, header for header;
        Content-Length is the length of the file / the slice; the body is the slice (GET) or empty (HEAD, 304)"""
        import re
        mtime = self.mtime if mtime is None else mtime
        data = open(self._file(L, mtime), 'rb').read()
        gs, gh, gc = self._wsgi(L, 'GET', h, ims, mr, mtime, tz)
        hs_, hh, hc = self._wsgi(L, 'HEAD', h, ims, mr, mtime, tz)
        gv = [gs] + [self._hget(gh, k) for k in self.HDRS]
        hv = [hs_] + [self._hget(hh, k) for k in self.HDRS]
        what = f'through the application, Range {h!r}, If-Modified-Since {ims!r}, {L} bytes'
        if b''.join(hc):
            return 'wsgi-head-body', f'{what}: HEAD delivered a body'
        if gv != hv:
            return 'wsgi-head-differs-from-get', f'{what}: GET {gv} but HEAD {hv}'
        body = b''.join(gc)
        exp_t = self._expected_instant(ims)
        if exp_t is not None and exp_t >= mtime:
            if gs != 304:
                return 'wsgi-ims-not-304' + self._zone_class(tz), f'{what} (TZ={tz}): answered {gs}'
            if body:
                return 'wsgi-304-body', f'{what}: 304 with a body'
            return None
        if gs == 304:
            return ('wsgi-ims-304-older', f'{what}: 304') if exp_t is not None and exp_t < math.floor(mtime) else None
        cl = self._hget(gh, 'Content-Length')
        if not h:
            if gs != 200:
                return 'wsgi-norange-status', f'{what}: answered {gs}'
            if str(cl) != str(L):
                return 'wsgi-content-length', f'{what}: Content-Length {cl!r}, the file has {L} bytes'
            if body != data:
                return 'wsgi-body', f'{what}: the body is not the file'
            return None
        exp = rfc_first_range(h, L)
        if gs == 206:
            cr = self._hget(gh, 'Content-Range')
            m = re.fullmatch(r'bytes (\d+)-(\d+)/(\d+)', str(cr))
            if not m:
                return 'wsgi-content-range', f'{what}: Content-Range {cr!r}'
            s, e, tot = int(m.group(1)), int(m.group(2)) + 1, int(m.group(3))
            if tot != L or not (0 <= s < e <= L) or str(cl) != str(e - s):
                return 'wsgi-content-length', f'{what}: Content-Range {cr!r}, Content-Length {cl!r}'
            if body != data[s:e]:
                return 'wsgi-body', f'{what}: the body is not file[{s}:{e}]'
            if any(len(c) > mr for c in gc):
                return 'wsgi-chunk-too-large', f'{what}: a chunk exceeds the streaming buffer'
            if exp != 'skip' and exp != (s, e):
                return 'wsgi-rfc-clipping', f'{what}: gave {s}-{e}, RFC 7233 says {exp}'
        elif gs == 416:
            if exp != 'skip' and exp is not None:
                return 'wsgi-rfc-416', f'{what}: satisfiable ({exp}) but 416'
        else:
            return 'wsgi-range-status', f'{what}: answered {gs}'
        return None

    def corr(self, rng, n):
        self._setup()
        self.stats = st = {}
        out = []
        try:
            gfr = self.ss.get_first_range
            edges = self._edge_mtimes()
            st['edge_mtimes_kept_by_fs'] = len(edges)
            for _ in range(n):
                h = gen_header(rng)
                L = rng.choice([0, 1, 2, 3, 5, 8, 10, 11, 12, 13, 40, 100])
                r = gfr(h, L)
                out.append((f'range first {hs(h)} {L}', 'none' if r is None else f'some {r[0]} {r[1]}',
                            dict(kind='first', header=h, maxlen=L)))
            for _ in range(n // 3):
                L = rng.randint(0, 40)
                data = bytes(rng.randrange(256) for _ in range(L))
                sched = core.gen_sched(rng, L)
                off = rng.randint(0, L + 2)
                blen = rng.randint(0, L + 3)
                mr = rng.choice([1, 2, 3, 4, 7, 8, 64])
                chunks = list(self.ss._file_iter_range(FP(data, sched), off, blen, mr))
                out.append((f'range iter {hb(data[off:])} {nl(sched)} {blen} {mr}', hbl(chunks),
                            dict(kind='iter', len=L, off=off, blen=blen, maxread=mr, sched=sched[:8])))
            for _ in range(n // 2):
                L = rng.choice([0, 1, 2, 5, 7, 8, 9, 15, 16, 17, 33])
                method = rng.choice(['GET', 'GET', 'HEAD'])
                h = rng.choice([None, None, '']) if rng.random() < .25 else gen_header(rng)
                edge = bool(edges) and rng.random() < .3      # a boundary modification time (epoch, pre-1970, sub-second, 2^31..)
                mtime = rng.choice(edges) if edge else rng.choice(MTIMES)
                base, deltas = (math.floor(mtime), IMS_DELTAS_EDGE + [-math.floor(mtime)]) if edge else (mtime, IMS_DELTAS)
                tz = rng.choice(TZS) if rng.random() < .6 else None
                ims = None
                k = rng.randrange(9)
                if k == 8:      # a header that is present but is no date at all (empty, blank, only separators)
                    ims = rng.choice(IMS_NONDATES)
                    st['ims_nondate'] = st.get('ims_nondate', 0) + 1
                elif k < 5:       # a date around the modification time, in one of the three HTTP date formats
                    t = base + rng.choice(deltas)
                    ims = http_date(t, rng.choice([0, 0, 0, 1, 2]))
                    if rng.random() < .1:
                        ims += rng.choice(['; length=5', ' ', ';'])
                elif k == 5:    # a date carrying its own zone offset (parsedate_tz honours it)
                    t = base + rng.choice(deltas)
                    off = rng.choice([-5, 1, 2, 10])
                    ims = time.strftime('%a, %d %b %Y %H:%M:%S ', time.gmtime(t + off * 3600)) + '%+03d00' % off
                elif k == 6:
                    ims = rng.choice(['junk', '0', 'Thu, 99 Foo 2020', 'Thu, 01 Jan 1970 00:00:00 GMT',
                                      'Fri, 31 Dec 9999 23:59:59 GMT', 'Sun, 30 Feb 2020 25:61:61 GMT'])
                mr = rng.choice([1, 2, 4, 8, 16, 1 << 20])
                fields = ims_fields(ims)
                if fields is None:
                    continue
                try:
                    r, chunks = self._static(L, method, h, ims, mr, mtime, tz)
                    sc = r.status_code
                except Exception as e:      # only a faulty tree raises here: reported as a disagreement, not a crash
                    r, chunks, sc = None, None, '!' + type(e).__name__
                st['tz_' + str(tz)] = st.get('tz_' + str(tz), 0) + 1
                st[f'static_{sc}'] = st.get(f'static_{sc}', 0) + 1
                if r is None:
                    ans = sc
                elif sc == 304:
                    ans = '304'
                elif sc == 416:
                    ans = '416'
                elif sc == 206:
                    ans = (f'206 cr={hs(r.headers["Content-Range"])} cl={hs(str(r.headers["Content-Length"]))} '
                           f'body={hbl(chunks)}')
                else:
                    body = '~' if method == 'HEAD' else hb(chunks)
                    ans = f'{sc} cl={r.headers["Content-Length"]} body={body}'
                data = open(self._file(L, mtime), 'rb').read()
                if edge:        # the model is given st_mtime_ns and does the int(st_mtime) of the code itself
                    st['edge_mtime'] = st.get('edge_mtime', 0) + 1
                    st[f'edge_mtime_{sc}'] = st.get(f'edge_mtime_{sc}', 0) + 1
                    op, mt = 'staticns', os.stat(self._file(L, mtime)).st_mtime_ns
                else:
                    op, mt = 'static', mtime
                out.append((f'range {op} {hb(data)} - {1 if method == "HEAD" else 0} {opt(h, hs)} '
                            f'{fields} {mt} {mr}', ans,
                            dict(kind='static', len=L, method=method, range=h, ims=ims, maxread=mr, mtime=mtime, tz=tz)))
                if rng.random() < .5:       # the same request through app(environ, start_response)
                    wsc, wh, wc = self._wsgi(L, method, h, ims, mr, mtime, tz)
                    st['via_wsgi'] = st.get('via_wsgi', 0) + 1
                    out.append((f'range {op} {hb(data)} - {1 if method == "HEAD" else 0} {opt(h, hs)} '
                                f'{fields} {mt} {mr}', self._wsgi_answer(method, wsc, wh, wc),
                                dict(kind='static', via='wsgi', len=L, method=method, range=h, ims=ims, maxread=mr,
                                     mtime=mtime, tz=tz)))
            # the date arithmetic by itself against calendar.timegm
            for _ in range(n // 3):
                f = (rng.randint(1, 9999), rng.randint(1, 12), rng.randint(-3, 40), rng.randint(-2, 30), rng.randint(-5, 70),
                     rng.randint(-5, 70))
                if rng.random() < .5:
                    f = (rng.choice([1900, 1970, 1999, 2000, 2020, 2024, 2038, 2100, 2400]), rng.choice([1, 2, 3, 12]),
                         rng.choice([1, 28, 29, 31]), 23, 59, 59)
                out.append(('range timegm ' + ' '.join(str(x) for x in f), f'some {calendar.timegm(f)}',
                            dict(kind='timegm', fields=list(f))))
        finally:
            self._teardown()
        return out

    # ------------------------------------------------------------------
    @staticmethod
    def _expected_instant(ims):
        """the instant an HTTP date names, computed without the code under test: HTTP dates are GMT, so it is
        calendar.timegm of the parsed fields; None when the header is not a GMT date the library parses"""
        if not ims:
            return None
        txt = ims.split(';')[0].strip()
        if not txt.endswith('GMT'):
            return None
        try:
            return calendar.timegm(email.utils.parsedate(txt))
        except (TypeError, ValueError):
            return None

    @staticmethod
    def _zone_class(tz):
        """fingerprint part for a finding that only shows under a time zone"""
        if tz is None:
            return ''
        with Zone(tz):
            jan, jul = time.localtime(1_578_000_000), time.localtime(1_594_000_000)
            if jan.tm_isdst == 1 and jul.tm_isdst == 0 and jan.tm_gmtoff < jul.tm_gmtoff:
                return ':negative-dst-zone'          # e.g. Europe/Dublin: "standard" time is the summer time
            if jan.tm_isdst or jul.tm_isdst:
                return ':dst-zone'
        return ':fixed-offset-zone' if tz != 'UTC' else ''

    def _oracle(self, L, method, h, ims, mr, mtime=None, tz=None):
        """returns None or (key, what); `ims` is the If-Modified-Since header text (or None)"""
        mtime = self.mtime if mtime is None else mtime
        r, chunks = self._static(L, method, h, ims, mr, mtime, tz)
        data = open(self._file(L, mtime), 'rb').read()
        sc = r.status_code
        exp_t = self._expected_instant(ims)
        if exp_t is not None:
            where = f'{ims!r} vs a file modified at {email.utils.formatdate(mtime, usegmt=True)!r} (TZ={tz}, {method})'
            if exp_t >= mtime:
                if sc != 304:
                    return ('ims-not-304' + self._zone_class(tz),
                            f'If-Modified-Since {where}: not older than the file, answered {sc}')
                if r.body:
                    return '304-body', '304 with a body'
                return None
            if sc == 304 and exp_t < math.floor(mtime):       # older even at the one-second resolution of an HTTP date
                return 'ims-304-older' + self._zone_class(tz), f'If-Modified-Since {where}: older than the file, answered 304'
            if sc == 304:
                return None
        elif sc == 304:
            return None        # a date this oracle has no independent reading of
        if not h:
            if sc != 200:
                return 'norange-status', f'no Range header answered {sc}'
            if int(r.headers['Content-Length']) != L:
                return 'norange-length', 'Content-Length differs from the file length'
            if method == 'HEAD':
                if r.body:
                    return 'head-body', 'HEAD with a body'
            elif chunks != data:
                return 'norange-body', 'full body differs from the file'
            return None
        exp = rfc_first_range(h, L)
        if sc == 206:
            cr, cl = r.headers['Content-Range'], int(r.headers['Content-Length'])
            import re
            m = re.fullmatch(r'bytes (\d+)-(\d+)/(\d+)', cr)
            if not m:
                return 'content-range-syntax', f'bad Content-Range {cr!r}'
            s, e, tot = int(m.group(1)), int(m.group(2)) + 1, int(m.group(3))
            if tot != L or not (0 <= s < e <= L):
                return 'content-range-bounds', f'Content-Range {cr!r} does not fit a file of {L} bytes'
            if cl != e - s:
                return 'content-length-mismatch', f'Content-Length {cl} vs Content-Range {cr!r}'
            if method == 'HEAD':
                if chunks:
                    return 'head-body', 'HEAD with a body'
            else:
                if b''.join(chunks) != data[s:e]:
                    return 'body-mismatch', f'delivered bytes differ from file[{s}:{e}]'
                if any(len(c) > mr for c in chunks):
                    return 'chunk-too-large', 'a delivered chunk exceeds the streaming buffer'
            if exp != 'skip' and exp != (s, e):
                return 'rfc-clipping', f'{h!r} on {L} bytes gave {s}-{e}, RFC 7233 says {exp}'
        elif sc == 416:
            if exp != 'skip' and exp is not None:
                return 'rfc-416', f'{h!r} on {L} bytes is satisfiable ({exp}) but got 416'
        else:
            return 'range-status', f'Range header answered {sc}'
        return None

    def _oracle_nondate(self, L, method, h, ims, mr, wsgi):
        """an If-Modified-Since header that is no date at all is no condition: the answer (status, entity headers, body)
        is the one given without the header - called directly or through the application; never 304, never a failure"""
        what = (f'{method} {"through the application" if wsgi else "static_file"}, Range {h!r}, {L} bytes, '
                f'If-Modified-Since {ims!r} (not a date)')
        key = 'wsgi-ims-nondate' if wsgi else 'ims-nondate'

        def run(i):
            if wsgi:
                sc, hd, ch = self._wsgi(L, method, h, i, mr)
                return [sc] + [self._hget(hd, k) for k in self.HDRS] + [b''.join(ch)]
            r, chunks = self._static(L, method, h, i, mr)
            body = chunks if isinstance(chunks, bytes) else b''.join(chunks or [])
            return [r.status_code] + [str(r.headers.get(k)) for k in self.HDRS] + [body]
        try:
            base = run(None)
        except Exception as e:
            return key + '-baseline-raises', f'{what}: even without the header: {type(e).__name__}: {e}'
        try:
            got = run(ims)
        except Exception as e:
            return key + '-raises', f'{what}: {type(e).__name__}: {e}'
        if got[0] >= 500:
            return key + '-5xx', f'{what}: answered {got[0]}'
        if got[0] == 304:
            return key + '-304', f'{what}: answered 304'
        if got != base:
            return key + '-differs', f'{what}: {got[:-1]} / {len(got[-1])} bytes, without the header {base[:-1]} / {len(base[-1])} bytes'
        return None

    def _oracle_head_pair(self, L, h, mr):
        """HEAD yields the same status and headers as GET (with or without a Range header), and no body"""
        g, _ = self._static(L, 'GET', h, None, mr)
        hd, hchunks = self._static(L, 'HEAD', h, None, mr)
        if hasattr(g.body, 'close'):
            g.body.close()
        names = ['Content-Range', 'Content-Length', 'Accept-Ranges', 'Last-Modified', 'Content-Type']
        gv = [g.status_code] + [str(g.headers.get(k)) for k in names]
        hv = [hd.status_code] + [str(hd.headers.get(k)) for k in names]
        if gv != hv:
            return 'head-differs-from-get', f'Range {h!r} on {L} bytes: GET {gv} but HEAD {hv}'
        if hchunks:
            return 'head-body', 'HEAD with a body'
        return None

    def search(self, rng, n, seeds):
        self._setup()
        findings, evals = [], 0
        try:
            cases = []
            for s in seeds:
                if s.get('kind') == 'static':
                    cases.append((s['len'], s['method'], s['range'], s.get('ims'), s['maxread'], s.get('mtime'), s.get('tz')))
                elif s.get('kind') == 'first':
                    cases.append((s['maxlen'], 'GET', s['header'], None, 4, None, None))
            # small exhaustive grid over the RFC grammar
            vals = ['', '0', '1', '3', '6', '7', '8', '99']
            for L in range(0, 8):
                for a in vals:
                    for b in vals:
                        cases.append((L, 'GET', f'bytes={a}-{b}', None, 3, None, None))
                # a first range-spec without '-' names no range: 416, whatever follows
                for h in ['bytes=', 'bytes=5', 'bytes=0', 'bytes=5,0-1', 'bytes=,0-1', 'bytes=3,', 'bytes=x', 'bytes=1 2,0-0']:
                    for m in ('GET', 'HEAD'):
                        cases.append((L, m, h, None, 3, None, None))
            # conditional dates x time zones x winter / summer / switch-hour modification times x GET / HEAD
            for tz in TZS:
                for mtime in MTIMES:
                    for d in IMS_DELTAS:
                        for m in ('GET', 'HEAD'):
                            cases.append((5, m, None, http_date(mtime + d, 0), 4, mtime, tz))
                    cases.append((5, 'GET', None, http_date(mtime, 1), 4, mtime, tz))
                    cases.append((5, 'GET', None, http_date(mtime + 1800, 2), 4, mtime, tz))
                    cases.append((5, 'GET', 'bytes=0-1', http_date(mtime, 0), 4, mtime, tz))
            # boundary modification times (epoch, before 1970, sub-second, 32-bit limits, leap days) x dates around them
            edges = self._edge_mtimes()
            for mtime in edges:
                fl = math.floor(mtime)
                for d in IMS_DELTAS_EDGE + [-fl]:          # ... and the epoch date itself against every such file
                    for m in ('GET', 'HEAD'):
                        cases.append((5, m, None, http_date(fl + d, 0), 4, mtime, None))
                    cases.append((5, 'GET', 'bytes=0-1', http_date(fl + d, 2), 4, mtime, rng.choice(TZS)))
            for _ in range(n // 4):
                L = rng.choice([0, 1, 2, 5, 7, 8, 9, 15, 16, 17, 33])
                mtime = rng.choice(MTIMES)
                d = rng.choice([None, None, None] + IMS_DELTAS)
                cases.append((L, rng.choice(['GET', 'HEAD']),
                              rng.choice([None, gen_header(rng), gen_header(rng)]),
                              None if d is None else http_date(mtime + d, rng.choice([0, 0, 1, 2])),
                              rng.choice([1, 2, 4, 8, 16, 1 << 20]), mtime, rng.choice([None] + TZS)))
            for c in cases:
                evals += 1
                try:
                    bad = self._oracle(*c)
                except Exception as e:
                    bad = ('exception', f'{type(e).__name__}: {e}')
                if bad:
                    findings.append(Finding(f'C17:{bad[0]}', bad[1],
                                            dict(len=c[0], method=c[1], range=c[2], ims=c[3], maxread=c[4], mtime=c[5], tz=c[6])))
            # through the WSGI application: GET/HEAD x no Range / 206 / 416 / 304
            wcases = [(L, h, None, 3, None, None) for L in (0, 1, 5, 8)
                      for h in (None, '', 'bytes=0-', 'bytes=0-0', 'bytes=1-3', 'bytes=-2', 'bytes=3-', 'bytes=9-', 'bytes=5-2',
                                'bytes=5', 'bytes=', 'bytes=0-1,3-4', 'junk')]
            wcases += [(5, h, http_date(self.mtime + d), 4, None, tz) for h in (None, 'bytes=0-1') for d in (-1, 0, 3600)
                       for tz in (None, 'Europe/Berlin', 'Europe/Dublin')]
            wcases += [(5, None, http_date(math.floor(mt) + d), 4, mt, None) for mt in edges for d in (-1, 0, 1)]
            for s in seeds:
                if s.get('kind') == 'static':
                    wcases.append((s['len'], s['range'], s.get('ims'), s['maxread'], s.get('mtime'), s.get('tz')))
            for _ in range(n // 6):
                mtime = rng.choice(MTIMES)
                d = rng.choice([None, None, None] + IMS_DELTAS)
                wcases.append((rng.choice([0, 1, 2, 7, 16, 33]), rng.choice([None, gen_header(rng), gen_header(rng)]),
                               None if d is None else http_date(mtime + d), rng.choice([1, 4, 16, 1 << 20]), mtime,
                               rng.choice([None] + TZS)))
            for c in wcases:
                evals += 1
                try:
                    bad = self._oracle_wsgi(*c)
                except Exception as e:
                    bad = ('wsgi-exception', f'{type(e).__name__}: {e}')
                if bad:
                    findings.append(Finding(f'C17:{bad[0]}', bad[1],
                                            dict(wsgi=True, len=c[0], range=c[1], ims=c[2], maxread=c[3], mtime=c[4], tz=c[5])))
            # a present If-Modified-Since header that is no date at all x direct / through the application x GET / HEAD x Range
            for ims in IMS_NONDATES:
                for wsgi in (False, True):
                    for m in ('GET', 'HEAD'):
                        for L, h in ((5, None), (5, 'bytes=1-3'), (5, 'bytes=9-'), (0, None)):
                            evals += 1
                            try:
                                bad = self._oracle_nondate(L, m, h, ims, 4, wsgi)
                            except Exception as e:
                                bad = ('exception', f'{type(e).__name__}: {e}')
                            if bad:
                                findings.append(Finding(f'C17:{bad[0]}', bad[1], dict(nondate=True, len=L, method=m, range=h,
                                                                                   ims=ims, maxread=4, wsgi=wsgi)))
            # HEAD against GET, header for header
            pairs = [(L, f'bytes={a}-{b}', 3) for L in (0, 1, 5, 8) for a in ('', '0', '3', '9') for b in ('', '0', '4', '99')]
            pairs += [(L, h, 3) for L in (0, 5) for h in (None, '', 'bytes=5', 'bytes=', 'bytes=1-2,4-5', 'junk')]
            pairs += [(rng.choice([0, 1, 7, 16, 33]), gen_header(rng), rng.choice([1, 4, 1 << 20])) for _ in range(n // 8)]
            for L, h, mr in pairs:
                evals += 1
                try:
                    bad = self._oracle_head_pair(L, h, mr)
                except Exception as e:
                    bad = ('exception', f'{type(e).__name__}: {e}')
                if bad:
                    findings.append(Finding(f'C17:{bad[0]}', bad[1], dict(pair=True, len=L, range=h, maxread=mr)))
        finally:
            self._teardown()
        findings.sort(key=lambda f: len(repr(f.replay)))
        return evals, findings

    def replay(self, data):
        i = data.get('input')
        if not isinstance(i, dict):
            return dict(note='no input in this replay file (proof obligation): see "theorem" / "build_log" in it')
        out = dict(input=i)
        if data.get('line'):
            out.update(line=data['line'], recorded_impl=data.get('observed_impl'), recorded_model=data.get('observed_model'))
        self._setup()
        try:
            if i.get('nondate'):
                out['oracle'] = self._oracle_nondate(i['len'], i['method'], i['range'], i['ims'], i['maxread'], i['wsgi'])
            elif i.get('wsgi'):
                out['oracle'] = self._oracle_wsgi(i['len'], i['range'], i.get('ims'), i['maxread'], i.get('mtime'), i.get('tz'))
                for m in ('GET', 'HEAD'):
                    sc, hd, ch = self._wsgi(i['len'], m, i['range'], i.get('ims'), i['maxread'], i.get('mtime'), i.get('tz'))
                    out[m] = dict(status=sc, headers=hd, body=b''.join(ch)[:80].decode('latin1'))
            elif i.get('pair'):
                out['oracle'] = self._oracle_head_pair(i['len'], i['range'], i['maxread'])
            elif i.get('kind') == 'first':
                out['get_first_range_now'] = repr(self.ss.get_first_range(i['header'], i['maxlen']))
                out['rfc'] = repr(rfc_first_range(i['header'], i['maxlen']))
            elif 'len' in i and 'method' in i:
                ims = i.get('ims')
                if ims is None and i.get('ims_delta') is not None:        # replay files written before the time-zone cases
                    ims = http_date(self.mtime + i['ims_delta'])
                out['expected_instant'] = self._expected_instant(ims)
                if ims:
                    from ombott.common_helpers import parse_date
                    with Zone(i.get('tz')):
                        out['parse_date_now'] = parse_date(ims.split(';')[0].strip())
                out['oracle'] = self._oracle(i['len'], i['method'], i['range'], ims, i['maxread'], i.get('mtime'), i.get('tz'))
            return out
        finally:
            self._teardown()
from harness import intlimlib as _intlim  # noqa: E402
_intlim.install(C17)
