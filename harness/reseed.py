"""Re-bases seeded/<id>/patch.diff files that no longer apply to the repository's HEAD (after a
fix: commit touched the same lines) with a 3-way merge in a scratch worktree.  Patches that still
conflict are listed; they need a hand edit.   PYTHONPATH=/verif python -m harness.reseed"""
import os
import subprocess
import sys
import tempfile

VERIF = os.path.dirname(os.path.dirname(os.path.abspath(__file__)))
REPO = os.environ.get('OMBOTT_REPO', '/repo')


def sh(cmd, cwd=None):
    p = subprocess.run(cmd, cwd=cwd, capture_output=True, text=True)
    return p.returncode, p.stdout + p.stderr


def main():
    sd = os.path.join(VERIF, 'seeded')
    bad = []
    for s in sorted(os.listdir(sd)):
        p = os.path.join(sd, s, 'patch.diff')
        if os.path.exists(p) and sh(['git', 'apply', '--check', p], cwd=REPO)[0]:
            bad.append(s)
    if not bad:
        print('all seeded patches apply')
        return 0
    w = tempfile.mkdtemp(prefix='reseed_')
    sh(['git', '-C', REPO, 'worktree', 'add', '--detach', w + '/r', 'HEAD'])
    left = []
    try:
        for s in bad:
            p = os.path.join(sd, s, 'patch.diff')
            sh(['git', 'reset', '--hard'], cwd=w + '/r')
            rc, out = sh(['git', 'apply', '--3way', p], cwd=w + '/r')
            unmerged = sh(['git', 'diff', '--name-only', '--diff-filter=U'], cwd=w + '/r')[1].strip()
            if rc == 0 and not unmerged:
                diff = sh(['git', 'diff', 'HEAD'], cwd=w + '/r')[1]
                open(p, 'w').write(diff)
                print('re-based', s)
            else:
                left.append(s)
                print('CONFLICT', s, out.strip().split('\n')[-1][:120])
    finally:
        sh(['git', '-C', REPO, 'worktree', 'remove', '--force', w + '/r'])
        sh(['git', '-C', REPO, 'worktree', 'prune'])
    return 1 if left else 0


if __name__ == '__main__':
    sys.exit(main())
