"""C03 - Every request gets exactly one well-formed WSGI response."""
import json
import re
import warnings
from wsgiref.validate import validator

from harness import core, wsgizoo as zoo
from harness.core import hb, hs, Check, Finding


# --------------------------------------------------------------------------------------
# JSON coding of the zoo AST (replay files)

def enc(x):
    if isinstance(x, bytes):
        return {'__b': x.hex()}
    if isinstance(x, (list, tuple)):
        return [enc(i) for i in x]
    if isinstance(x, dict):
        return {k: enc(v) for k, v in x.items()}
    return x


def dec(x):
    if isinstance(x, dict):
        if set(x) == {'__b'}:
            return bytes.fromhex(x['__b'])
        return {k: dec(v) for k, v in x.items()}
    if isinstance(x, list):
        return tuple(dec(i) for i in x)
    return x


def dec_case(d):
    d = dec(d)
    return spec_of(d['app']), dict(d['req'])


def spec_of(a):
    spec = dict(before=[tuple(h) for h in a['before']], after=[tuple(h) for h in a['after']],
                errh=[tuple(e) for e in a['errh']])
    if 'catchall' in a:
        spec['catchall'] = a['catchall']
    if a.get('edits'):
        spec['edits'] = {side: {int(k): tuple(v) for k, v in (a['edits'].get(side) or {}).items()}
                         for side in ('before', 'after')}
    if a.get('shared'):
        spec['shared'] = dict(a['shared'])
    if a.get('rewrite'):
        spec['rewrite'] = dict(a['rewrite'])
    return spec


def run_real(spec, req, validate=False):
    """one request through a fresh real application; returns a dict of observations"""
    log = zoo.Log()
    app = zoo.make_app(spec, log)
    cur = dict(routes=set(), prog=None)
    return zoo.serve_one(app, log, cur, req, validate=validate)


def answer(obs):
    ev = '.'.join(obs['log']) if obs['log'] else '-'
    hooks = ' hooks=' + '/'.join(','.join(map(str, l)) if l else '-' for l in obs['hooks'])
    if obs['escaped']:
        return f'ev={ev} escaped' + hooks
    st = obs['starts']
    if len(st) == 1:
        status, headers, exc = st[0]
        hd = ','.join(f'{hs(k)}:{hs(v)}' for k, v in headers) if headers else '~'
        start = f'n=1 status={hs(status)} hdrs={hd} exc={1 if exc else 0}'
        cl = '-' if exc or obs['cl'] is None else str(int(obs['cl']))
    else:
        start = f'n={len(st)}'
        cl = '-'
    return f'ev={ev} {start} body={hb(obs["data"])} shape={obs["shape"] or "-"} cl={cl}' + hooks


def start_registration(spec):
    """the two hook lists (registration numbers, call order) a fresh application starts with:
    before-hooks in registration order, after-hooks in reverse"""
    return (list(range(len(spec['before']))), list(reversed(range(len(spec['after'])))))


def expected_run(reg, fails):
    """-> (hooks that run, first failing one or None)"""
    out = []
    for i in reg:
        out.append(i)
        if fails(i):
            return out, i
    return out, None


def next_registration(spec, reg):
    """what the hooks that ran did to their own list (`remove_hook` of itself / of another hook,
    `add_hook` of a new one): the list the NEXT emission starts from.  A hook added during an
    emission runs from the next request on (before: appended, after: prepended); removing a hook
    does not un-run it in the emission that is under way."""
    edits = spec.get('edits') or {}
    out = []
    for side, lst in (('before', reg[0]), ('after', reg[1])):
        n = len(spec[side])
        fails = lambda i: i < n and spec[side][i][1][0] != 'ok'
        ran, _ = expected_run(lst, fails)
        live = list(lst)
        fresh = max([n - 1] + live) + 1
        # numbers of added hooks are handed out in the order of the `add_hook` calls, as the zoo does
        fresh = max(fresh, spec.setdefault('_fresh', {}).get(side, n))
        for i in ran:
            e = (edits.get(side) or {}).get(i) if i < n else None
            if not e:
                continue
            if e[0] == 'rs' and i in live:
                live.remove(i)
            elif e[0] == 'ro' and e[1] in live:
                live.remove(e[1])
            elif e[0] == 'an':
                if side == 'before':
                    live.append(fresh)
                else:
                    live.insert(0, fresh)
                fresh += 1
        spec['_fresh'][side] = fresh
        out.append(live)
    return tuple(out)


BODYLESS = lambda code: 100 <= code < 200 or code in (204, 304)


WELLFORMED_STATUS = re.compile(r'\d{3} [^\x00-\x1f\x7f]+')


def status_strings(spec, req):
    """every string status a program part assigns or constructs a response object with"""
    found = []

    def from_out(o):
        if o[0] == 'r':
            if isinstance(o[2]['status'], str):
                found.append(o[2]['status'])
            from_out(o[3])
        elif o[0] == 'it':
            for i in o[3]:
                if i[0] in ('y', 'rr'):
                    from_out(i[1])

    def from_effs(effs):
        found.extend(e[1] for e in effs if e[0] == 'sl')

    for effs, res in spec['before'] + spec['after']:
        from_effs(effs)
        if len(res) > 1:
            from_out(res[1])
    for _, eh in spec['errh']:
        if eh[0] in ('c', 'mut'):
            from_out(eh[1])
    if req['route'][0] == 'h':
        from_effs(req['route'][1])
        if len(req['route'][2]) > 1:
            from_out(req['route'][2][1])
    return found


def systematic_cases():
    """a small exhaustive scope: every kind of output object (one level of nesting) x GET/HEAD x
    wsgi.file_wrapper on/off x a status effect x three hook configurations"""
    R = lambda st, body, err=False, ck=(): ('r', err, dict(status=st, headers=[], cookies=list(ck)), body)
    outs = [('f', k) for k in zoo.FALSY] + [('t', 'hi'), ('t', 'é'), ('b', b'hi'), ('un', 'int'), ('un', 'object')]
    nid = [1000]

    def closable():
        nid[0] += 1
        return nid[0]
    for hc in (False, True):
        for hi in (False, True):
            for content in (b'', b'hello'):
                outs.append(('fl', closable(), hc, hi, content))
    firsts = [[], [('t', 'a'), ('t', 'b')], [('b', b'a'), ('b', b'b')], [('ex',)], [('un', 'int')],
              [('y', R(201, ('t', 'y')))], [('rr', R(404, ('t', 'r'), True))]]
    for lead in (0, 2):
        for f in firsts:
            for hc in (False, True):
                outs.append(('it', closable(), hc, [('e', None)] * lead + f, 'cls'))
    outs += [('it', closable(), True, [('t', 'g1'), ('t', 'g2')], 'gen'), ('it', closable(), False, [('b', b'l')], 'list'),
             ('it', closable(), False, [('t', 'k')], 'dict')]
    simple = list(outs)
    for st in (200, 204, 304, 418, 500):
        outs.append(R(st, ('t', 'body')))
        outs.append(R(st, ('t', 'ebody'), True))
        outs.append(R(st, ('f', 'none'), True))
    outs += [R(201, o, False, [('c', 'v')]) for o in simple[::3]]
    hooks = [([], []), ([([('sh', 'X-B', '1')], ('ok',)), ([], ('ex',)), ([], ('ok',))], [([], ('ok',)), ([('ck', 'k', 'v')], ('ok',))]),
             ([([], ('ok',))], [([], ('ok',)), ([], ('rr', R(302, ('t', 'moved')))), ([], ('ok',))])]
    effs = [[], [('st', 204)], [('st', 102)], [('bh', 'X-A')]]
    cases = []
    for o in outs:
        for method in ('GET', 'HEAD'):
            for fw in (False, True):
                if fw and o[0] != 'fl' and not (o[0] == 'r' and o[3][0] == 'fl'):
                    continue
                for ef in effs:
                    for before, after in hooks:
                        spec = dict(before=list(before), after=list(after), errh=[])
                        req = dict(id=1, method=method, fw=fw, path_ok=True, tail='', query='',
                                   route=('h', list(ef), ('ret', o)))
                        cases.append((spec, req))
    for route in (('nf',), ('na', ['GET', 'POST'])):
        for method in ('PUT', 'HEAD') if route[0] == 'na' else ('GET', 'HEAD'):
            if route[0] == 'na' and method == 'HEAD':
                continue
            for before, after in hooks:
                for errh in ([], [(404, ('c', ('t', 'custom')))], [(405, ('ex',))], [(404, ('bd',))]):
                    cases.append((dict(before=list(before), after=list(after), errh=list(errh)),
                                  dict(id=1, method=method, fw=False, path_ok=True, tail='', query='', route=route)))
    # the last-resort page of wsgi(): every way the generator has to get there (a response header that cannot be
    # encoded, a custom error handler that raises - for the handler's own failure, for 404 and for 405) x request
    # paths whose text is ASCII, needs HTML escaping, or is not ASCII (the page quotes the path) x methods
    for tail in ('', 'a/b', '<i>&"\'', '\xe9', '\xe9\u20ac/\u00fc\u4e2d', 'x' * 70 + '\xdf'):
        for method in ('GET', 'HEAD', 'POST'):
            for route, errh in ((('h', [('bh', 'X-A')], ('ret', ('t', 'hi'))), []),
                                (('h', [('bh', 'X-B')], ('ret', ('it', closable(), True, [('b', b'a'), ('b', b'b')], 'cls'))), []),
                                (('h', [], ('ex',)), [(500, ('ex',))]),
                                (('h', [], ('ret', ('un', 'int'))), [(500, ('ex',))]),
                                (('nf',), [(404, ('ex',))]),
                                (('na', ['PUT', 'DELETE']), [(405, ('ex',))])):
                if route[0] == 'na' and method == 'HEAD':
                    continue
                for before, after in hooks[:2]:
                    cases.append((dict(before=list(before), after=list(after), errh=list(errh)),
                                  dict(id=1, method=method, fw=False, path_ok=True, tail=tail, query='', route=route)))
    return cases


class C03(Check):
    pid = 'C03'
    props_mod = 'OmbottModel.Props.C03'
    tables = ['wsgi']
    design_ref = '6/C03'
    level_text = ('Lean theorems over the model of _handle/_cast/wsgi for all handler programs of the Out grammar, '
                  'hooks, custom error handlers, methods and statuses (single start_response, status line / header '
                  'list shape, bytes items, framework Content-Length, body suppression, close discipline, 500 on '
                  'failure, hook order, termination of the casting loop); model tied to the code by a differential '
                  'run of a real Ombott() application over a generated handler zoo on every run.')
    level_note_extra = ('the Out abstraction (binary file-likes, homogeneous iterables, UTF-8 response charset) and the '
                        'server-supplied wsgi.file_wrapper are assumed; header emission details belong to C14')
    anchors = ['ombott/ombott.py', 'ombott/response.py', 'ombott/common_helpers.py', 'ombott/error_render.py']
    rule = ('handler programs drawn from the Out grammar (falsy values, str, bytes, HTTPResponse/HTTPError returned, '
            'raised or yielded first, nested three deep, binary file-likes with/without close/__iter__, lists, tuples, '
            'dicts, generators and iterator objects with leading empty items, exceptions at every point) x effects on '
            'the response (status ints and strings, headers, cookies, un-encodable header) x before/after hook lists '
            'with failing hooks x custom error handlers x methods x 404/405 x wsgi.file_wrapper on/off, each run '
            'through a real Ombott() with recording hooks, start_response, close counters and stderr; hooks that edit their '
            'own hook list; catchall on/off; the oracle additionally serves 2-3 request histories on one application; non-trivial = '
            'the handler ran or a hook/route error was rendered (everything except the bare 200 text case)')
    assumptions = [
        'file-likes are binary (a text-mode file-like yields str chunks; excluded by DESIGN section 7 "not defects")',
        'iterables are homogeneous after their first non-empty item (mixed str/bytes/None items are outside the '
        'property and kept out of the oracle; the correspondence still exercises them)',
        'an object whose __iter__ itself raises is treated like any object iter() refuses (TypeError): 500',
        'the response charset stays UTF-8 (Content-Type values used by programs carry no other charset)',
        'cookie names/values are SimpleCookie-safe tokens; header names are ASCII tokens (C14/C15 cover the rest)',
        'request.url and html.escape/repr of it are computed by the code under test and shipped to the model',
        'JSON error bodies (Accept: application/json) are modelled for errors that carry no exception object; '
        'a generated request asks for JSON only when no part of its program can raise a plain exception (the '
        'traceback text of such an error is not modelled)',
        'config: debug=False; catchall=True is the configuration of the theorems and of the oracle (default, read '
        'into Gen/Wsgi.lean).  catchall=False is in the correspondence stream only (model: wsgiNoCatch): the property '
        'says failures become a 500 "instead of escaping to the server", and letting them escape is exactly what '
        'that option asks for, so an escaping exception under catchall=False is not a violation; what the current '
        'code still answers with a 500 under catchall=False (failing handler/hook, first next()) is pinned by the '
        'correspondence, so a change of it shows as a model/code disagreement',
        'hooks may edit the hook list of the event being emitted (remove themselves, remove another hook, register a '
        'new one): every hook registered when the emission starts runs exactly once in list order (emit iterates over a '
        'snapshot); a hook registered during an emission runs from the next request on (appended for before_request, '
        'prepended for after_request) - the oracle follows the registration lists across the requests of a history '
        'with its own book-keeping',
        'the oracle also serves short histories (2-3 requests) on one application, with the same response object '
        '(errors_map singletons, module-level HTTPError/HTTPResponse of the application) answered more than once; '
        'every per-answer clause must hold for every answer',
        'request methods are the upper-case standard ones',
        'a status given as a string is in the domain only in the documented form "ddd reason" (three ASCII digits, '
        'one space, non-empty reason without control characters); other strings are handler garbage outside the '
        'property: the correspondence still runs them, the oracle does not (coordinator decision)',
    ]

    def budget(self, tier, escalated):
        n = 6000 if tier == 'quick' else 250000
        return n * (3 if escalated and tier == 'quick' else 1)

    def nontrivial(self, sample):
        return sample.get('kind') != 'plain200'

    # ------------------------------------------------------------------
    def corr(self, rng, n):
        out = []
        stats = self.stats = dict(cases=0, route={}, outcome={}, status={}, events={}, shape={}, head=0, fw=0,
                                  catchall=0, loops1000=0, setstatus=0)
        g = zoo.Gen(rng)
        fixed = systematic_cases()
        stats['systematic'] = len(fixed)
        for i in range(n + len(fixed)):
            if stats.get('hangs', 0) >= 10:
                break                                  # the run is failing; the search gets the hanging inputs
            if i >= n:
                spec, req = fixed[i - n]
            else:
                spec = g.app() if rng.random() < .6 else dict(before=[], after=[], errh=[])
                req = g.req()
            if i >= n:
                pass
            elif rng.random() < .04:
                req['path_ok'] = False                     # outside C03's domain, inside the model's
            if i < n and rng.random() < .12:
                zoo.add_rewrite(rng, spec, req)            # a before-hook rewrites path / method before routing
                stats['rewrites'] = stats.get('rewrites', 0) + 1
            if i < n and rng.random() < .3 and zoo.json_safe(spec, req):
                req['json'] = True
                stats['json'] = stats.get('json', 0) + 1
            if i < n and i % 400 == 7 and stats.get('hangs', 0) < 2:
                # the loop bound: an error handler that keeps answering with the same error
                code = rng.choice([500, 404, 418])
                loop = ('r', True, dict(status=code, headers=[], cookies=[]), ('t', 'again'))
                spec = dict(before=[], after=[], errh=[(code, ('c', loop))])
                req['route'] = ('h', [], ('ret', loop))
                req.pop('arrive', None)
                stats['loops1000'] += 1
            try:
                obs = zoo.watchdog(lambda: run_real(spec, req), 6 if stats.get('hangs', 0) < 3 else 1)
                ans = answer(obs)
            except zoo.HangB:
                env0 = zoo.make_environ(req, [])
                obs = dict(urlrepr=zoo.url_repr(env0, req), starts=[], shape='hang', log=[],
                           urlrepr_arrival=zoo.url_repr(env0, req, arrival=True) if req.get('arrive') else None)
                ans = 'hang'
                stats['hangs'] = stats.get('hangs', 0) + 1
            line = 'wsgi serve ' + ' '.join(zoo.ser_app(spec) + zoo.ser_req(req, obs['urlrepr'], obs.get('urlrepr_arrival'),
                                                                         spec.get('rewrite')))
            kind = 'plain200' if (req['route'][0] == 'h' and req['route'][2][0] == 'ret' and
                                  req['route'][2][1][0] == 't' and not spec['before'] and not spec['after'] and
                                  not req['route'][1]) else 'zoo'
            out.append((line, ans, dict(kind=kind, app=enc(spec), req=enc(req))))
            stats['cases'] += 1
            r = req['route']
            stats['route'][r[0]] = stats['route'].get(r[0], 0) + 1
            if r[0] == 'h':
                oc = r[2][0] + (':' + r[2][1][0] if len(r[2]) > 1 else '')
                stats['outcome'][oc] = stats['outcome'].get(oc, 0) + 1
            if obs['starts']:
                sc = obs['starts'][0][0][:3]
                stats['status'][sc] = stats['status'].get(sc, 0) + 1
                stats['catchall'] += 1 if obs['starts'][0][2] else 0
            stats['shape'][obs['shape']] = stats['shape'].get(obs['shape'], 0) + 1
            stats['head'] += req['method'] == 'HEAD'
            stats['fw'] += bool(req['fw'])
            for e in obs['log']:
                stats['events'][e[0]] = stats['events'].get(e[0], 0) + 1
        # the status setter on its own
        from ombott import HTTPResponse
        for arg in zoo.STATUS_INTS + zoo.STATUS_BAD_INTS + zoo.STATUS_STRS + zoo.STATUS_ODD_STRS + \
                [f'{c} {w}' for c in (100, 200, 404, 999, 1000, 99) for w in ('OK', ' x ', '')]:
            try:
                r = HTTPResponse('')
                r.status = arg
                ans = f'ok {r._status_code} {hs(r._status_line)}'
            except (ValueError, IndexError):
                ans = 'err'
            line = f'wsgi setstatus i {arg}' if isinstance(arg, int) else f'wsgi setstatus s {hs(arg)}'
            out.append((line, ans, dict(kind='setstatus', arg=arg)))
            stats['setstatus'] += 1
        return out

    # ------------------------------------------------------------------
    def _oracle(self, spec, req):
        """the property's clauses checked directly on a validated run; returns [(key, what)]"""
        obs = run_real(spec, req, validate=True)
        return self._clauses(spec, req, obs, start_registration(spec))

    def _oracle_rewrite(self, spec, req):
        """a before-request hook rewrites PATH_INFO / REQUEST_METHOD: before-hooks run before routing, so
        the answer must be the one the same application gives a request that arrives already rewritten"""
        bad = self._oracle(spec, req)
        k = spec['rewrite']['hook']
        if bad or any(h[1][0] != 'ok' for h in spec['before'][:k]):
            return bad
        plain_spec = {x: v for x, v in spec.items() if x != 'rewrite'}
        plain_req = {x: v for x, v in req.items() if x != 'arrive'}
        a = run_real(spec, req, validate=True)
        b = run_real(plain_spec, plain_req, validate=True)
        for what in ('log', 'starts', 'data'):
            if a[what] != b[what]:
                show = lambda o: (o['log'], [s[0] for s in o['starts']], len(o['data']))
                bad.append(('routing-ignores-before-hooks',
                            f'request arriving as {req["arrive"]} and rewritten by before-hook {k} answered '
                            f'{show(a)}; arriving already rewritten: {show(b)}'))
                break
        return bad

    def _oracle_history(self, spec, hist):
        """a short history on ONE application: every clause must hold for every answer (the second
        and later ones included); the hook lists the later requests start from are followed by the
        oracle's own book-keeping of what the hooks did to them"""
        from harness import c09
        spec.pop('_fresh', None)
        srv = c09.Server(spec)
        reg = start_registration(spec)
        bad = []
        for i, h in enumerate(hist):
            obs = srv.serve_obs(h, validate=True)
            for key, what in self._clauses(spec, h['req'], obs, reg, ctype_is_framework=True):
                bad.append((key, f'answer {i + 1} of {len(hist)} ({h["kind"]}): {what}'))
            if bad:
                break
            if h['req']['path_ok']:
                reg = next_registration(spec, reg)
        return bad

    def _clauses(self, spec, req, obs, reg, ctype_is_framework=False):
        bad = []
        log, starts = obs['log'], obs['starts']
        route = req['route']
        if obs['escaped']:
            bad.append(('exception-escapes', f'{obs["escaped"]} left Ombott.__call__'))
            return bad
        for c in obs['complaints']:
            bad.append(('pep3333:' + re.sub(r'[^a-z]+', '-', c.split(':')[0].lower()).strip('-'), c))
        if obs['complaints']:
            return bad
        # (a) exactly one start_response
        if len(starts) != 1:
            bad.append(('start-response-count', f'start_response called {len(starts)} times'))
            return bad
        status, headers, exc = starts[0]
        # (b) status line and header list
        if not (isinstance(status, str) and re.fullmatch(r'\d{3} [^\r\n]+', status)):
            bad.append(('status-line', f'status line {status!r}'))
            return bad
        if not (isinstance(headers, list) and all(
                isinstance(h, tuple) and len(h) == 2 and isinstance(h[0], str) and isinstance(h[1], str) and
                not re.search(r'[\r\n]', h[0] + h[1]) for h in headers)):
            bad.append(('header-list', f'malformed header list {headers!r}'[:200]))
        code = int(status[:3])
        # (c) iterable of bytes
        if obs['shape'] not in ('', 'c'):
            bad.append(('body-items', f'returned iterable is not made of bytes (shape {obs["shape"]})'))
        # (e) no body for HEAD / 1xx / 204 / 304
        if (req['method'] == 'HEAD' or BODYLESS(code)) and obs['data']:
            site = 'body:catchall-not-suppressed' if exc else 'body-not-suppressed'
            bad.append((site, f'{req["method"]} / status {code} answered with {len(obs["data"])} body bytes'
                        + (' by the catch-all branch of wsgi()' if exc else '')))
        # (d) framework Content-Length (programs of the oracle's domain never set one themselves)
        cls = [v for k, v in headers if k.lower() == 'content-length']
        # the last-resort page of wsgi() (exc_info handed to start_response) is a body-carrying 500 whose header
        # list is built by the framework alone: a Content-Length there is the framework's as well
        if cls and req['method'] != 'HEAD' and not BODYLESS(code):
            if len(cls) != 1 or not cls[0].isdigit() or int(cls[0]) != len(obs['data']):
                site = 'content-length:catchall-page' if exc else 'content-length'
                bad.append((site, f'Content-Length {cls} but {len(obs["data"])} bytes returned'
                            + (' by the catch-all branch of wsgi()' if exc else '')))
        # (f) close discipline
        closes = [e for e in log if e[0] == 'c']
        for c in set(closes):
            if closes.count(c) > 1:
                bad.append(('double-close', f'handler object {c[1:]} closed {closes.count(c)} times'))
        for oid in sorted(obs['produced']):
            if closes.count(f'c{oid}') != 1:
                bad.append(('not-closed', f'iterable {oid} produced output and was closed '
                                          f'{closes.count(f"c{oid}")} times'))
        # Content-Type of a framework error page (only when no program part sets Content-Type)
        if ctype_is_framework and obs['data'] and not exc:
            ctypes = [v for k, v in headers if k.lower() == 'content-type']
            if obs['data'].startswith(b'<!doctype html><html><head><title>Error: ') and ctypes != ['text/html; charset=UTF-8']:
                bad.append(('content-type', f'HTML error page sent as {ctypes}'))
            if obs['data'].startswith(b'{"body": ') and obs['data'].endswith(b'}') and ctypes != ['application/json']:
                bad.append(('content-type', f'JSON error body sent as {ctypes}'))
        if not req['path_ok']:
            return bad            # hooks and routing are for requests with a decodable path
        # (h) hooks: every hook registered when the emission starts runs once, in list order, up to the
        # first failing one
        fails = lambda side, idx: idx < len(spec[side]) and spec[side][idx][1][0] != 'ok'
        exp_b, b_fail = expected_run(reg[0], lambda i: fails('before', i))
        exp_a, a_fail = expected_run(reg[1], lambda j: fails('after', j))
        b_ev = [int(e[1:]) for e in log if e[0] == 'b']
        a_ev = [int(e[1:]) for e in log if e[0] == 'a']
        if b_ev != exp_b:
            bad.append(('before-hooks', f'before hooks ran {b_ev}, expected {exp_b} (registered {reg[0]})'))
        if ('r' in log) != (b_fail is None) or log.count('r') > 1:
            bad.append(('routing-after-before-hooks', f'routing events {log.count("r")} with failing hook {b_fail}'))
        if 'r' in log and b_ev and log.index('r') < max(i for i, e in enumerate(log) if e[0] == 'b'):
            bad.append(('before-hooks', 'a before hook ran after routing'))
        if a_ev != exp_a:
            bad.append(('after-hooks', f'after hooks ran {a_ev}, expected {exp_a} (registered {reg[1]}, '
                                       f'route {route[0]}, failing before hook {b_fail})'))
        if a_ev:
            first_a = min(i for i, e in enumerate(log) if e[0] == 'a')
            last_other = max([i for i, e in enumerate(log) if e[0] in 'brh'] or [-1])
            if first_a < last_other:
                bad.append(('after-hooks', 'an after hook ran before the handler / routing finished'))
        # (g) failures become a 500
        hooks_ok = b_fail is None and a_fail is None
        has500 = any(c == 500 for c, _ in spec['errh'])
        failed = False
        if route[0] == 'h' and hooks_ok and 'h' in log:
            if route[2][0] == 'ex' or obs['failed']:
                failed = True
            elif route[2][0] == 'ret' and route[2][1][0] == 'it' and not obs['failed']:
                items = [i for i in route[2][1][3] if i[0] != 'e']
                failed = bool(items) and items[0][0] == 'ex'
        hook_exc = (b_fail is not None and spec['before'][b_fail][1][0] == 'ex' and a_fail is None) or \
                   (a_fail is not None and spec['after'][a_fail][1][0] == 'ex')
        if not req['path_ok']:
            failed = hook_exc = False
        if (failed or hook_exc) and not has500 and code != 500:
            bad.append(('failure-not-500', f'handler/hook failure answered {status!r}'))
        return bad

    def _gen_case(self, g, rng):
        spec = g.app() if rng.random() < .6 else dict(before=[], after=[], errh=[])
        req = g.req()
        return spec, req

    def search(self, rng, n, seeds):
        findings, evals = [], 0
        cases = []
        for s in seeds:
            if s.get('kind') in ('zoo', 'plain200'):
                try:
                    cases.append(dec_case(s))
                except Exception:
                    pass
        g = zoo.Gen(rng, safe_headers=True, odd_status=False)
        for _ in range(max(200, n // 3)):
            spec = g.app() if rng.random() < .6 else dict(before=[], after=[], errh=[])
            for h in spec['before'] + spec['after']:
                h[0][:] = [e for e in h[0] if not (e[0] == 'sh' and e[2] in zoo.BAD_HVALS)
                           and not (e[0] == 'st' and e[1] in zoo.STATUS_BAD_INTS)]
            req = g.req()
            if rng.random() < .15:
                zoo.add_rewrite(rng, spec, req)
            cases.append((spec, req))
        # the planned fault sites, densely: HEAD x every kind of body, un-encodable header x closable iterable
        for _ in range(max(60, n // 20)):
            o = g.out(2, mixed_ok=False)
            effs = [('bh', 'X-A')] if rng.random() < .4 else []
            req = dict(id=1, method=rng.choice(['GET', 'HEAD']), fw=rng.random() < .5, path_ok=True, tail='',
                       query='', route=('h', effs, ('ret', o)))
            cases.append((dict(before=[], after=[], errh=[]), req))
        cases += systematic_cases()
        hists = self._history_cases(rng, max(150, n // 8))
        for spec, hist in hists:
            if len({f.key for f in findings}) >= 8 or len(findings) >= 60 or \
                    sum(f.key == 'C03:hang' for f in findings) >= 2:
                break
            if not all(self._in_domain(spec, h['req'], in_history=True) for h in hist):
                continue
            evals += 1
            try:
                bad = zoo.watchdog(lambda: self._oracle_history(spec, hist), 30)
            except zoo.HangB:
                bad = [('hang', 'history did not finish within 30 s')]
            for key, what in bad:
                findings.append(Finding(f'C03:{key}', what, dict(kind='history', app=enc(self._clean(spec)), hist=enc(hist))))
        for spec, req in cases:
            if not self._in_domain(spec, req):
                continue
            if len({f.key for f in findings}) >= 8 or len(findings) >= 60 or \
                    sum(f.key == 'C03:hang' for f in findings) >= 3:
                break           # enough replays; the run is failing anyway
            evals += 1
            try:
                fn = self._oracle_rewrite if spec.get('rewrite') and req.get('arrive') else self._oracle
                bad = zoo.watchdog(lambda: fn(spec, req), 20)
            except zoo.HangB:
                bad = [('hang', 'request did not finish within 20 s')]
            for key, what in bad:
                findings.append(Finding(f'C03:{key}', what, dict(app=enc(spec), req=enc(req))))
        return evals, findings

    @staticmethod
    def _clean(spec):
        return {k: v for k, v in spec.items() if not k.startswith('_')}

    def _history_cases(self, rng, count):
        """two or three requests on one application: the same response object answered more than once
        (the framework's errors_map singletons, a module-level HTTPError / HTTPResponse of the application)
        with URLs of different length and both representations; hooks that edit their own list"""
        from harness import c09
        g = zoo.Gen(rng, safe_headers=True, odd_status=False)
        g.safe_names = ['X-A', 'X-B', 'ETag', 'x_y', 'Allow', 'Last-Modified']     # Content-Type stays the framework's
        repeatable = ['chunked-garbage', 'oversize', 'bad-json', 'request-error', 'app-error', 'app-error', 'app-resp',
                      'nf', 'badpath', 'cookie-then-body-error', 'crash']
        others = ['ok-text', 'ok-cookie', 'head', 'iterable', 'raise-resp', 'ret-error', 'na', 'good-body', 'ok-zoo']
        out = []
        for _ in range(count):
            spec = g.app() if rng.random() < .6 else dict(before=[], after=[], errh=[])
            spec.pop('catchall', None)
            spec['shared'] = dict(c09.SHARED)
            if rng.random() < .3:
                spec['errors_map'] = dict(c09.CUSTOM_ERRORS)    # long-lived error objects of the application
            more = []
            if rng.random() < .25:
                spec['default_app'] = True
                more = c09.HELPER_KINDS
            k = rng.choice(repeatable + ['custom-status'] + list(more[:1]) + list(more[-2:]))
            kinds = [k, k] if rng.random() < .4 else [k, k, k] if rng.random() < .5 else [k, rng.choice(others + list(more)), k]
            if rng.random() < .2:
                kinds = [rng.choice(repeatable + others) for _ in range(rng.choice([2, 3]))]
            hist = []
            for i, kind in enumerate(kinds):
                c09.RAISE_SINGLETONS[0] = True
                try:
                    # the same object rendered as HTML and as JSON alternately
                    h = c09.gen_hreq(g, rng, i + 1, kind, spec, force=dict(json=(i + len(out)) % 2 == 0)
                                     if kind == k and rng.random() < .7 else None)
                finally:
                    c09.RAISE_SINGLETONS[0] = False
                # URLs of clearly different length, alternating representations
                h['req']['tail'] = rng.choice(['', 'a', 'long/' * (i + 1) * rng.choice([1, 3]) + 'x'])
                h['req']['query'] = 'q=' + 'v' * rng.choice([0, 1, 7, 23]) if rng.random() < .7 else ''
                if h['req'].get('json') and not zoo.json_safe(spec, h['req']):
                    h['req']['json'] = False
                hist.append(h)
            out.append((spec, hist))
        return out

    def _in_domain(self, spec, req, in_history=False):
        """the property's quantifier: decodable path, homogeneous iterables, binary files, statuses =
        codes or strings of the documented form 'ddd reason'"""
        if not req['path_ok'] and not in_history:
            return False          # inside a history an undecodable path is answered too; the hook clauses skip it
        if spec.get('catchall', True) is False:
            return False          # the option asks for exceptions to propagate
        if not all(WELLFORMED_STATUS.fullmatch(x) for x in status_strings(spec, req)):
            return False
        all_effs = [e for effs, _ in spec['before'] + spec['after'] for e in effs]
        if any(zoo._eff_may_fail(e) for e in all_effs):
            return False          # the oracle reads "hook fails" off its outcome
        if req['route'][0] == 'h':
            all_effs = all_effs + list(req['route'][1])
        if any(e[0] in ('sh', 'ah', 'bh') and e[1].lower() == 'content-length' for e in all_effs):
            return False          # a Content-Length in the response is then not the framework's
        if self._sets_cl(spec, req):
            return False

        def ok_out(o):
            if o[0] == 'r':
                return ok_out(o[3])
            if o[0] == 'it':
                items = list(o[3])
                while items and items[0][0] == 'e':
                    items.pop(0)
                if items and items[0][0] in ('t', 'b'):
                    k = items[0][0]
                    want = '' if k == 't' else b''
                    return all(i[0] == k or (i[0] == 'e' and i[1] == want) for i in items)
                return all(ok_item(i) for i in items[:1])
            return True

        def ok_item(i):
            return ok_out(i[1]) if i[0] in ('y', 'rr') else True

        outs = []
        for effs, res in spec['before'] + spec['after']:
            if len(res) > 1:
                outs.append(res[1])
        for _, eh in spec['errh']:
            if eh[0] in ('c', 'mut'):
                outs.append(eh[1])
        if req['route'][0] == 'h' and len(req['route'][2]) > 1:
            outs.append(req['route'][2][1])
        return all(ok_out(o) for o in outs)

    @staticmethod
    def _sets_cl(spec, req):
        """does a response object of the program carry its own Content-Length?"""
        def from_out(o):
            if o[0] == 'r':
                return any(k.lower() == 'content-length' for k, _ in o[2].get('headers', [])) or from_out(o[3])
            if o[0] == 'it':
                return any(i[0] in ('y', 'rr') and from_out(i[1]) for i in o[3])
            return False
        outs = [res[1] for _, res in spec['before'] + spec['after'] if len(res) > 1]
        outs += [eh[1] for _, eh in spec['errh'] if eh[0] in ('c', 'mut')]
        if req['route'][0] == 'h' and len(req['route'][2]) > 1:
            outs.append(req['route'][2][1])
        return any(from_out(o) for o in outs)

    def replay(self, data):
        if data['input'].get('kind') == 'history':
            d = dec(data['input'])
            spec, hist = spec_of(d['app']), [dict(x, req=dict(x['req'])) for x in d['hist']]
            try:
                verdict = zoo.watchdog(lambda: self._oracle_history(spec, hist), 30)
            except zoo.HangB:
                verdict = [['hang', 'history did not finish within 30 s']]
            return dict(oracle=verdict, violates=bool(verdict), input=data['input'])
        spec, req = dec_case(data['input'])
        try:
            fn = self._oracle_rewrite if spec.get('rewrite') and req.get('arrive') else self._oracle
            verdict = zoo.watchdog(lambda: fn(spec, req), 20)
            obs = zoo.watchdog(lambda: run_real(spec, req, validate=True), 20)
        except zoo.HangB:
            return dict(oracle=[['hang', 'request did not finish within 20 s']], violates=True, input=data['input'])
        return dict(oracle=verdict, violates=bool(verdict),
                    observed=dict(events=list(obs['log']),
                                  start_response=[(s, h, x) for s, h, x in obs['starts']],
                                  body_bytes=len(obs['data']), body_head=obs['data'][:80].hex(), shape=obs['shape'],
                                  complaints=obs['complaints'], escaped=obs['escaped']),
                    input=data['input'])


# the composed stream (one real application, one request, against App.serve of Model/App.lean)
from harness import applib as _applib  # noqa: E402
_applib.install(C03, quick=(700, 250), thorough=(30000, 6000))
