"""Deterministic thread scheduler for C08 / C10 (DESIGN.md 6/C08, Appendix A).

Real `threading.Thread`s are serialised by a baton: exactly one thread runs.  A `sys.settrace`
hook, restricted to the files of the repository under test (`<repo>/ombott/*`) and to the handler
code objects registered by the harness, counts every `line` event (a global step number) and hands
the baton over at the steps named in the schedule.  An interleaving is therefore a list of
preemption points `(step, next_thread)`; replaying the list replays the run exactly.  When a thread
finishes, the lowest-numbered unfinished thread continues.

The hook also records the thread-store traffic in global order, as labels:

    I<o>       init_wrapper: store looked up / created          (lines 1-4 of init_wrapper)
    N<o>       init_wrapper: one attribute reset to None
    G<o>.<k>   fget        S<o>.<k>  fset        D<o>.<k>  fdel
    H          one access of app.response.headers._ts.dict     h   its assignment

`<o>` names the object: `q` = app.request, `p` = app.response, `c` = any other instance of a
decorated class (a `Request.copy()`), prefixed with the application id when several applications
take part (`1q`).  Accesses of objects that were not registered are logged with `?`.

Nothing here can hang a check: every wait has a deadline; when it passes, all threads are released
with `SchedAbort` (a BaseException, so the framework's catch-all does not swallow it) and `run`
raises `SchedTimeout`, which the checks turn into exit code 2 (infrastructure), never a VIOLATION.
"""
import inspect
import os
import sys
import threading
import time


class SchedTimeout(Exception):
    pass


class SchedAbort(BaseException):
    pass


class Registry:
    """which live objects are `app.request`, `app.response`, `app.response.headers` of which
    application; built by the harness before a run, extended while running (apps constructed
    inside handlers)"""

    def __init__(self, multi=False):
        self.objs = {}
        self.hds = {}
        self.multi = multi
        self.keep = []

    def add_app(self, app_id, app):
        pre = str(app_id) if self.multi else ''
        self.objs[id(app.request)] = pre + 'q'
        self.objs[id(app.response)] = pre + 'p'
        self.hds[id(app.response.headers)] = pre
        self.keep.append(app)

    def add_copy(self, app_id, obj):
        pre = str(app_id) if self.multi else ''
        self.objs[id(obj)] = pre + 'c'
        self.keep.append(obj)


class _Sites:
    """code objects of the repository that matter, found once per repo path"""
    _cache = {}

    def __init__(self, repo):
        self.repo = os.path.realpath(repo)
        self.prefix = os.path.join(self.repo, 'ombott') + os.sep
        self.helpers = os.path.join(self.prefix, 'common_helpers.py')
        self.init_lines = {}      # code -> (comprehension line, cls_init line)

    @classmethod
    def get(cls, repo):
        repo = os.path.realpath(repo)
        if repo not in cls._cache:
            cls._cache[repo] = cls(repo)
        return cls._cache[repo]

    def init_wrapper_lines(self, code):
        r = self.init_lines.get(code)
        if r is None:
            comp = call = None
            try:
                src, first = inspect.getsourcelines(code)
                for i, ln in enumerate(src):
                    if 'for k in props' in ln:
                        comp = first + i
                    if 'cls_init(' in ln:
                        call = first + i
            except (OSError, TypeError):
                pass
            r = self.init_lines[code] = (comp, call)
        return r


class Run:
    """one scheduled execution"""

    def __init__(self, workers, switches=(), *, repo, handler_codes=(), registry=None, timeout=20.0,
                 trace=True, label_only=False):
        self.workers = list(workers)
        self.n = len(self.workers)
        self.switches = sorted((int(s), int(t)) for s, t in switches)
        self.sw_i = 0
        self.next_switch = self.switches[0][0] if self.switches else -1
        self.sites = _Sites.get(repo)
        self.handler_codes = set(handler_codes)
        self.registry = registry or Registry()
        self.timeout = timeout
        self.trace = trace
        self.label_only = label_only      # record labels but never preempt (single-thread runs)
        self.cv = threading.Condition()
        self.cur = 1
        self.done = set()
        self.step = 0
        self.aborted = False
        self.deadline = None
        self.events = []                  # (tid, label) in global order
        self.order = []                   # run-length encoded [tid, traced lines]
        self.results = [None] * (self.n + 1)
        self.errors = [None] * (self.n + 1)
        self._want = {}                   # code -> kind
        self._init_seen = {}

    # ---- baton ------------------------------------------------------------------------
    def _wait_turn(self, me):
        while self.cur != me:
            if self.aborted:
                raise SchedAbort()
            left = self.deadline - time.monotonic()
            if left <= 0:
                self.aborted = True
                self.cv.notify_all()
                raise SchedAbort()
            self.cv.wait(min(left, 0.5))
        if self.aborted:
            raise SchedAbort()

    def _alive_other(self, me):
        for t in range(1, self.n + 1):
            if t != me and t not in self.done:
                return t
        return None

    def point(self, me):
        # only the holder of the baton runs, so the counters need no lock
        self.step = step = self.step + 1
        o = self.order
        if o and o[-1][0] == me:
            o[-1][1] += 1
        else:
            o.append([me, 1])
        if step == self.next_switch:
            self._switch(me)

    def _switch(self, me):
        with self.cv:
            if self.aborted:
                raise SchedAbort()
            nxt = self.switches[self.sw_i][1]
            self.sw_i += 1
            self.next_switch = self.switches[self.sw_i][0] if self.sw_i < len(self.switches) else -1
            if nxt in self.done or nxt < 1 or nxt > self.n:
                nxt = self._alive_other(me)
            if nxt is not None and nxt != me:
                self.cur = nxt
                self.cv.notify_all()
                self._wait_turn(me)

    def _start(self, me):
        with self.cv:
            self._wait_turn(me)

    def _finish(self, me):
        with self.cv:
            self.done.add(me)
            nxt = self._alive_other(me)
            if nxt is not None:
                self.cur = nxt
            self.cv.notify_all()

    # ---- tracing ----------------------------------------------------------------------
    def _kind(self, code):
        k = self._want.get(code)
        if k is None:
            fn = code.co_filename
            if code in self.handler_codes:
                k = 'line'
            elif fn.startswith(self.sites.prefix) or os.path.realpath(fn).startswith(self.sites.prefix):
                k = 'line'
                if os.path.realpath(fn) == self.sites.helpers:
                    name = code.co_name
                    qual = getattr(code, 'co_qualname', name)
                    if name in ('fget', 'fset', 'fdel') and 'ts_props' in qual:
                        k = name
                    elif name == 'init_wrapper' and 'ts_props' in qual:
                        k = 'init'
                    elif qual.startswith('HeaderDict.'):
                        k = 'hd'
            else:
                k = ''
            self._want[code] = k
        return k

    def _obj(self, o):
        return self.registry.objs.get(id(o), '?')

    def _tracer(self, me):
        events = self.events
        sites = self.sites
        label_only = self.label_only
        point = self.point
        obj = self._obj
        init_seen = self._init_seen
        hds = self.registry.hds
        want = self._want
        kind = self._kind
        LET = {'fget': 'G', 'fset': 'S', 'fdel': 'D'}

        if label_only:
            def line_tr(frame, event, arg):
                return line_tr
        else:
            def line_tr(frame, event, arg):
                if event == 'line':
                    point(me)
                return line_tr

        def acc_tr(frame, event, arg):
            if event == 'line':
                if not label_only:
                    point(me)
            elif event == 'return':
                loc = frame.f_locals
                events.append((me, LET[frame.f_code.co_name] + obj(loc.get('s')) + '.' + str(loc.get('k'))))
            return acc_tr

        def init_tr(frame, event, arg):
            if event == 'line':
                comp, _call = sites.init_wrapper_lines(frame.f_code)
                if frame.f_lineno == comp:
                    key = id(frame)
                    seen = init_seen.get(key, 0)
                    events.append((me, ('I' if seen == 0 else 'N') + obj(frame.f_locals.get('self'))))
                    init_seen[key] = seen + 1
                if not label_only:
                    point(me)
            elif event == 'return':
                init_seen.pop(id(frame), None)
            return init_tr

        def hd_tr(frame, event, arg):
            if event == 'line':
                if not label_only:
                    point(me)
            elif event == 'return':
                loc = frame.f_locals
                s = loc.get('self', loc.get('s'))
                pre = hds.get(id(s))
                if pre is not None:
                    code = frame.f_code
                    name = code.co_name
                    if name == '<lambda>':
                        events.append((me, pre + ('h' if code.co_argcount == 2 else 'H')))
                    elif name == '__init__':
                        events.append((me, pre + 'h'))
                    elif name in ('copy', '__repr__') or (name == 'clear' and loc.get('names')):
                        pass
                    else:
                        events.append((me, pre + 'H'))
            return hd_tr

        table = {'line': line_tr, 'fget': acc_tr, 'fset': acc_tr, 'fdel': acc_tr, 'init': init_tr, 'hd': hd_tr}

        def glob(frame, event, arg):
            code = frame.f_code
            k = want.get(code)
            if k is None:
                k = kind(code)
            if not k:
                return None
            return table[k]
        return glob

    # ---- threads ----------------------------------------------------------------------
    def _worker(self, me):
        try:
            self._start(me)
            if self.trace:
                sys.settrace(self._tracer(me))
            try:
                self.results[me] = self.workers[me - 1](me)
            finally:
                sys.settrace(None)
        except SchedAbort:
            self.errors[me] = 'abort'
        except BaseException as e:       # a worker must never take the check down
            self.errors[me] = f'{type(e).__name__}: {e}'
        finally:
            try:
                self._finish(me)
            except BaseException:
                pass

    def run(self):
        self.deadline = time.monotonic() + self.timeout
        ths = [threading.Thread(target=self._worker, args=(i,), daemon=True) for i in range(1, self.n + 1)]
        for t in ths:
            t.start()
        for t in ths:
            t.join(max(0.1, self.deadline - time.monotonic() + 2.0))
        if self.aborted or any(t.is_alive() for t in ths):
            with self.cv:
                self.aborted = True
                self.cv.notify_all()
            raise SchedTimeout(f'schedule did not finish within {self.timeout}s (step {self.step})')
        for i, e in enumerate(self.errors):
            if e == 'abort':
                raise SchedTimeout('worker aborted')
        return self


def run_threads(workers, switches=(), **kw):
    return Run(workers, switches, **kw).run()
