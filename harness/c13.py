"""C13 - Body size limits and disk spooling bound what a request can consume."""
import json

from harness import core, bodylib as bl
from harness.core import Check, Finding


def around(rng, *limits):
    """a size around one of the limits: -1, =, +1, x10, or small"""
    lim = rng.choice(limits)
    return max(0, rng.choice([lim - 1, lim, lim + 1, lim + 1, lim * 10, lim // 2, 0, 1, lim + rng.randint(2, 9)]))


def chunking(rng, payload, upper=None):
    """an encoding of `payload` with random chunk sizes"""
    chunks, i = [], 0
    while i < len(payload):
        n = rng.choice([1, 2, 3, 5, 8, 16, len(payload) - i, rng.randint(1, 40)])
        n = max(1, min(n, len(payload) - i))
        chunks.append((payload[i:i + n], bl.spell(n, rng.random() < .3, rng.choice([0, 0, 1])), rng.choice(bl.EXTS[:6])))
        i += n
    return bl.Enc(chunks, (b'0', b''), rng.choice(bl.TRAILERS[:4]))


def excess_offset(enc, maxb):
    """stream offset of the payload byte number maxb (0-based) = the first byte over the limit"""
    pos, seen = 0, 0
    for p, sp, ext in enc.chunks:
        pos += len(sp) + len(ext) + 2
        if seen + len(p) > maxb:
            return pos + (maxb - seen)
        seen += len(p)
        pos += len(p) + 2
    return None


def part_headers(part):
    """the header block of a part (name, filename|None, value[, extra header lines])"""
    name, fn = part[0], part[1]
    h = b'Content-Disposition: form-data; name="' + name + b'"'
    if fn is not None:
        h += b'; filename="' + fn + b'"\r\nContent-Type: application/octet-stream'
    for x in (part[3] if len(part) > 3 else []):
        h += b'\r\n' + x
    return h


def multipart(boundary, parts):
    """parts: (name, filename|None, value bytes[, extra header lines])"""
    out = b''
    for p in parts:
        out += b'--' + boundary + b'\r\n' + part_headers(p) + b'\r\n\r\n' + p[2] + b'\r\n'
    return out + b'--' + boundary + b'--\r\n'


def in_memory_need(parts):
    """what the property counts against max_memfile_size: every part's header block, and the values of
    the text parts (file data stays in the buffered body)"""
    return sum(len(part_headers(p)) + (len(p[2]) if p[1] is None else 0) for p in parts)


class C13(Check):
    pid = 'C13'
    props_mod = 'OmbottModel.Props.C13'
    tables = ['body']
    design_ref = '6/C13'
    anchors = ['ombott/request_pkg/body_mixin.py', 'ombott/request_pkg/multipart.py', 'ombott/ombott.py',
               'ombott/request_pkg/request.py']
    level_text = ('Lean theorems over the model of _body_read / _iter_body / _iter_chunked / _get_body_string for all '
                  'bodies, limits, buffers and schedules: a body over max_body_size is BodySizeError = 413 (generated '
                  'errors_map) with the stream position at most one buffer past the first excess byte, a body within '
                  'the limit never gets a size error, the body is file-backed iff longer than max_memfile_size with '
                  'the same content, _get_body_string never returns more than max_memfile_size bytes; model tied to '
                  'the code by a differential run; the multipart text budget (FieldStorage.read) is exercised on the '
                  'real code through WSGI by the search oracle only.')
    level_note_extra = ('the multipart in-memory budget is covered by the oracle on the real code, its model belongs to '
                        'the multipart check')
    rule = ('payload sizes -1/=/+1/x10 around max_body_size and max_memfile_size x settings x framing (Content-Length, '
            'chunked with random chunk sizes) x schedules through _body_read and WSGI (body / _get_body_string); '
            'search adds urlencoded, JSON and multipart text/file parts around the threshold; '
            'non-trivial = payload within 1 of a limit or over it')
    assumptions = ['wsgi.input.read(n) returns at most n bytes and returns b"" only at end of data (the stream model)',
                   'tempfile.TemporaryFile behaves as a byte buffer on disk',
                   'chunked framing: the bound on bytes consumed counts from the first payload byte over the limit '
                   '(framing bytes are not payload)',
                   'multipart text budget: oracle on the real code only (model in the multipart check)']

    def __init__(self):
        self.stats = {}

    def budget(self, tier, escalated):
        n = 4000 if tier == "quick" else 240000
        return n * (4 if escalated and tier == 'quick' else 1)

    def nontrivial(self, sample):
        return sample.get('near', False)

    # ------------------------------------------------------------------
    def gen(self, rng):
        maxb = rng.choice([None, 0, 1, 5, 16, 40, 100])
        buf = rng.choice([1, 2, 4, 8, 16, 64])
        lims = [buf] + ([maxb] if maxb is not None else [])
        n = around(rng, *lims)
        payload = bl.gen_payload(rng, n)
        chunked = rng.random() < .5
        near = any(abs(n - l) <= 1 or n > l for l in lims)
        return maxb, buf, payload, chunked, near

    def corr(self, rng, n):
        out, st = [], self.stats
        for i in range(n):
            maxb, buf, payload, chunked, near = self.gen(rng)
            if chunked:
                enc = chunking(rng, payload)
                raw = enc.encode()
                if rng.random() < .7:
                    buf = max(buf, enc.max_line())
                cl = -1
                if rng.random() < .15 and raw:      # malformed chunked bodies under a size limit
                    o = rng.randrange(len(raw))
                    raw = rng.choice([raw[:o], raw[:o] + bytes([rng.choice(bl.GARBAGE)]) + raw[o + 1:], raw[:o] + raw[o + 1:]])
            else:
                raw = payload + (b'' if rng.random() < .6 else b'tail')
                cl = len(payload) if rng.random() < .8 else len(payload) + rng.choice([1, 5])
            sched = bl.gen_sched(rng, max(1, len(raw)))
            sample = dict(max=maxb, buf=buf, n=len(payload), chunked=chunked, near=near, sched=sched[:8],
                          full_sched=sched, raw=raw.hex(), cl=cl)
            if i % 2 == 0:
                res = bl.run_read(raw, sched, buf, cl, chunked, maxb)
                out.append((bl.line_read(raw, sched, buf, cl, chunked, maxb), bl.ans_read(res), dict(kind='read', **sample)))
                bl.bump(st, f'unit:{"chunked" if chunked else "cl"}:' + ('ok' if res['ok'] else res['err']))
                if res['ok']:
                    bl.bump(st, 'unit:spilled' if res['spill'] else 'unit:in-memory')
                if rng.random() < .5:
                    # the same read with the spool file unavailable (TemporaryFile() raises OSError): model `bodyReadF`
                    fault = rng.choice(bl.FAULTS)
                    resf = bl.run_read(raw, sched, buf, cl, chunked, maxb, fault=fault)
                    out.append((bl.line_read(raw, sched, buf, cl, chunked, maxb, fault=fault), bl.ans_read(resf),
                                dict(kind='readf', fault=fault, **sample)))
                    bl.bump(st, f'unit-no-tempdir:{"chunked" if chunked else "cl"}:' + ('ok' if resf['ok'] else resf['err']))
            else:
                ops = rng.choice([['B'], ['S'], ['B', 'S'], ['S', 'B'], ['S', 'S'], ['P1', 'S', 'I'], ['?B', 'B'], ['?S', 'B'],
                                  ['K', 'B'], ['K', 'S'], ['K', '?B', '?S'], ['K', 'P2', 'B', 'I'],
                                  ['?B', '?S', 'I'], ['?S', '?S', '?B']])
                te = 'chunked' if chunked else None
                clh = None if cl < 0 else str(cl)
                if chunked and rng.random() < .2:
                    clh = str(rng.choice([0, 3, len(payload), len(payload) + 7]))
                mk = '@' if rng.random() < .8 else rng.choice(list(bl.MAPS))
                res = bl.run_wsgi(mk, buf, maxb, clh, te, raw, sched, ops)
                out.append((bl.line_wsgi(mk, buf, maxb, clh, te, raw, sched, ops), bl.ans_wsgi(res),
                            dict(kind='wsgi', ops=ops, map=mk, cl_header=clh, **sample)))
                bl.bump(st, f'wsgi:{"".join(ops)}:status{res["status"]}')
        # the in-memory budget of multipart parts (header blocks of text AND file parts, text values) through the
        # model of FieldStorage.read / iter_items (Model/Forms.lean, `forms items`): real markup, real iter_items
        from harness.c07 import real_markups, run_items, markups_arg
        for c in self._gen_cases(rng, 0, multipart_only=max(40, n // 12)):
            body, bnd, mem = bytes.fromhex(c['payload']), bytes.fromhex(c['boundary']), c['buf']
            mm = real_markups(bnd, [body[i:i + 97] for i in range(0, len(body), 97)])
            for mr in {mem, rng.choice([mem - 1, mem + 1, mem // 2, 4 * mem])}:
                out.append((f'forms items {core.hb(body)} 0 {mr} {markups_arg(mm.markups)}',
                            run_items(body, False, mm.markups, mr),
                            dict(kind='items', near=True, what=c['what'], max_read=mr)))
                bl.bump(st, 'items:' + c['expect'])
        for name in ('RequestError', 'BodyParsingError', 'BodySizeError'):
            for mk in bl.MAPS:
                out.append((f'body raise {mk} {name}', self._raise(mk, name), dict(kind='raise')))
        out.append(('body defaults', self._defaults(), dict(kind='defaults')))
        return out

    def _raise(self, mk, name):
        """what BaseRequest._raise(err, RequestError) raises under that errors_map"""
        _, errors = bl.modules()
        app = bl.get_app(mk, 8, None)
        try:
            app.request._raise(getattr(errors, name)(), errors.RequestError)
        except Exception as e:
            sc = getattr(e, 'status_code', None)
            return f'HTTP{sc}' if sc is not None else type(e).__name__
        return 'no-raise'

    def _defaults(self):
        from ombott import Ombott
        from harness.tables.body import errors_map_of
        cfg = Ombott().config
        m = ','.join(f'{k}={v}' for k, v in errors_map_of(cfg)) or '~'
        return f'errors_map={m} max_body_size={core.opt(cfg.max_body_size)} max_memfile_size={cfg.max_memfile_size}'

    # ------------------------------------------------------------------
    def _oracle(self, c):
        """the property on the real code; returns None or (key, what)"""
        return self._oracle_plain(c) or self._oracle_no_disk(c)

    def _oracle_no_disk(self, c):
        """"a body larger than the in-memory threshold is kept on disk rather than in memory" - also when the disk is
        not there: with the temp directory unusable (every flavour of bl.FAULTS) the request may fail, but neither
        _body_read nor the request may end up holding more than max_memfile_size bytes in an in-memory buffer"""
        kind, sched, buf, maxb = c['probe'], c['sched'], c['buf'], c['max']
        payload = bytes.fromhex(c['payload'])
        n = len(payload)
        if n <= buf:
            return None
        if kind == 'cl':
            raw, cl, te, clh, chunked, op, ctype = payload + bytes.fromhex(c.get('tail', '')), n, None, str(n), False, 'B', None
        elif kind == 'chunked':
            enc = bl.Enc([(bytes.fromhex(p), bytes.fromhex(s), bytes.fromhex(e)) for p, s, e in c['chunks']],
                         (b'0', b''), bytes.fromhex(c['trailer']))
            raw, cl, te, clh, chunked, op, ctype = enc.encode(), -1, 'chunked', None, True, 'B', None
        else:
            chunked, op, ctype = c['chunked'], c['op'], c['ctype']
            if chunked:
                raw = bl.Enc([(payload[i:i + 37], bl.spell(len(payload[i:i + 37])), b'') for i in range(0, n, 37)]).encode()
                cl, te, clh = -1, 'chunked', None
            else:
                raw, cl, te, clh = payload, n, None, str(n)
        for fault in bl.FAULTS:
            what = f'{n}-byte {"chunked" if chunked else "Content-Length"} body, max_memfile_size {buf}, max_body_size {maxb}, ' \
                   f'temp directory unusable ({fault})'
            r = bl.run_read(raw, sched, buf, cl, chunked, maxb, fault=fault)
            if r['ok'] and not r['spill'] and len(r['bytes']) > buf:
                return (f'{"chunked" if chunked else "cl"}:no-disk-kept-in-memory',
                        f'{what}: _body_read returned an in-memory buffer of {len(r["bytes"])} bytes')
            for ops in ([op], ['?' + op, '?' + op]):
                w = bl.run_wsgi('@', buf, maxb, clh, te, raw, sched, ops, ctype=ctype, fault=fault)
                if w['mem_body'] is not None and w['mem_body'] > buf:
                    return (f'{"chunked" if chunked else "cl"}:no-disk-kept-in-memory',
                            f'{what}: the request (handler ops {ops}) was answered {w["status"]} holding an in-memory body of '
                            f'{w["mem_body"]} bytes')
        return None

    def _oracle_plain(self, c):
        kind = c['probe']
        sched, buf, maxb = c['sched'], c['buf'], c['max']
        payload = bytes.fromhex(c['payload'])
        n = len(payload)
        if kind in ('cl', 'chunked'):
            if kind == 'cl':
                raw, cl, te, clh, off = payload + bytes.fromhex(c.get('tail', '')), n, None, str(n), maxb
            else:
                enc = bl.Enc([(bytes.fromhex(p), bytes.fromhex(s), bytes.fromhex(e)) for p, s, e in c['chunks']],
                             (b'0', b''), bytes.fromhex(c['trailer']))
                raw, cl, te, clh = enc.encode(), -1, 'chunked', None
                off = excess_offset(enc, maxb) if maxb is not None else None
            r = bl.run_read(raw, sched, buf, cl, kind == 'chunked', maxb)
            w = bl.run_wsgi('@', buf, maxb, clh, te, raw, sched, ['B'])
            # the limits are the application's: the same read through request.copy() (taken before the body was
            # touched) answers alike - status, bytes, storage, how far the stream was read
            wc = bl.run_wsgi('@', buf, maxb, clh, te, raw, sched, ['K', 'B'])
            if (wc['status'], wc['outs'][1:], wc['maxoff']) != (w['status'], w['outs'], w['maxoff']):
                return (f'{kind}:copy-differs', f'{n} bytes, max_body_size {maxb}, max_memfile_size {buf}: through request.copy() '
                        f'{wc["status"]} {wc["outs"][1:]!r:.60} maxoff {wc["maxoff"]}, through the request {w["status"]} maxoff {w["maxoff"]}')
            if kind == 'chunked' and maxb is not None:
                # a small Content-Length next to Transfer-Encoding: chunked changes nothing: the chunked payload is policed
                for small in {'0', str(min(maxb, 3))}:
                    wb = bl.run_wsgi('@', buf, maxb, small, te, raw, sched, ['B'])
                    if (wb['status'], wb['outs'], wb['maxoff']) != (w['status'], w['outs'], w['maxoff']):
                        return ('chunked:content-length-changes-policing',
                                f'{n}-byte chunked payload, max_body_size {maxb}: with Content-Length {small} status {wb["status"]} '
                                f'maxoff {wb["maxoff"]}, without {w["status"]} maxoff {w["maxoff"]}')
            if maxb is not None and n > maxb:
                if r['ok'] or r['err'] != 'BodySizeError':
                    return f'{kind}:oversize-not-rejected', f'{n} bytes against max_body_size {maxb}: _body_read gave {r["err"] or "a body"}'
                if w['status'] != 413:
                    return f'{kind}:oversize-status', f'{n} bytes against max_body_size {maxb}: WSGI answered {w["status"]}'
                # a handler that catches the 413 and asks again: still refused, nothing more consumed
                w2 = bl.run_wsgi('@', buf, maxb, clh, te, raw, sched, ['?B', '?B', '?S'])
                for x, where in ((r, 'unit'), (w, 'wsgi'), (w2, 'wsgi, repeated access')):
                    if x['maxoff'] > off + buf:
                        return (f'{kind}:read-too-far', f'{where}: stream consumed up to offset {x["maxoff"]}; the first byte '
                                f'over the limit is at {off}, buffer {buf}')
                if len(w2['outs']) != 3 or any(t != 'e:HTTP413' for t in w2['outs']):
                    return ('second-access-after-413', f'{n} bytes against max_body_size {maxb}: first access 413, later '
                            f'accesses gave {w2["outs"][1:]}')
                return None
            if not r['ok']:
                return f'{kind}:within-limit-rejected', f'{n} bytes against max_body_size {maxb}: _body_read raised {r["err"]}'
            if w['status'] != 200:
                return f'{kind}:within-limit-status', f'{n} bytes against max_body_size {maxb}: WSGI answered {w["status"]}'
            got_w = w['info']['bodies'][0]
            if r['bytes'] != payload or got_w != payload:
                return f'{kind}:content-differs', 'accepted body differs from the payload sent'
            if r['spill'] != (n > buf) or w['info']['spill'] != (n > buf):
                return (f'{kind}:spool-switch', f'{n} bytes with max_memfile_size {buf}: file-backed = '
                        f'{r["spill"]}/{w["info"]["spill"]}')
            return None
        # form text: urlencoded / JSON / multipart
        ctype, op = c['ctype'], c['op']
        chunked = c['chunked']
        if chunked:
            raw = bl.Enc([(payload[i:i + 37], bl.spell(len(payload[i:i + 37])), b'') for i in range(0, n, 37)]).encode()
            te, clh = 'chunked', None
        else:
            raw, te, clh = payload, None, str(n)
        w = bl.run_wsgi('@', buf, maxb, clh, te, raw, sched, [op], ctype=ctype)
        expect = c['expect']
        if expect == 'refused-or-not-loaded':
            if w['status'] == 200 and w['info'].get('longest_text', 0) > buf:
                return (f'{kind}:text-over-threshold-loaded', f'{c["what"]}: answered 200 with a {w["info"]["longest_text"]}-byte '
                        f'string in forms/POST/params')
            if w['status'] not in (200, 413):
                return f'{kind}:status', f'{c["what"]}: WSGI answered {w["status"]}'
        # the same access through request.copy() taken before the body was touched: same answer
        wc = bl.run_wsgi('@', buf, maxb, clh, te, raw, sched, ['K', op], ctype=ctype)
        if (wc['status'], wc['outs'][1:], wc['info'].get('longest_text'), wc['maxoff']) != \
                (w['status'], w['outs'], w['info'].get('longest_text'), w['maxoff']):
            return (f'{kind}:copy-differs', f'{c["what"]}: through request.copy() status {wc["status"]} outs {wc["outs"][1:]} '
                    f'maxoff {wc["maxoff"]}, through the request itself {w["status"]} {w["outs"]} {w["maxoff"]}')
        if kind in ('urlencoded', 'json'):
            # "refused rather than loaded": the text accessor never pulls more than threshold + 1 bytes
            wm = bl.run_wsgi('@', buf, maxb, clh, te, raw, sched, ['?M'], ctype=ctype)
            probe = wm['info'].get('probe')
            if probe is not None and max(probe.returned, default=0) > buf + 1:
                return (f'{kind}:text-loaded-before-refusal',
                        f'{c["what"]}: _get_body_string pulled {max(probe.returned)} bytes into memory')
        if expect == 'refused':
            if w['status'] != 413:
                return f'{kind}:text-over-threshold-not-refused', f'{c["what"]}: WSGI answered {w["status"]}, expected 413'
        elif expect == 'accepted':
            if w['status'] != 200:
                return f'{kind}:text-within-threshold-refused', f'{c["what"]}: WSGI answered {w["status"]} {w["stderr"][-200:]}'
            if 'files' in c and {k: v.hex() for k, v in w['info'].get('files', {}).items()} != c['files']:
                return f'{kind}:file-content', f'{c["what"]}: uploaded file content differs'
            if 'forms' in c and w['info'].get('forms') != c['forms']:
                return f'{kind}:form-content', f'{c["what"]}: form values differ'
            if 'json' in c and w['info'].get('json') != c['json']:
                return f'{kind}:json-content', f'{c["what"]}: JSON value differs'
        return None

    def _gen_cases(self, rng, n, multipart_only=0):
        for _ in range(n):
            maxb, buf, payload, chunked, near = self.gen(rng)
            base = dict(max=maxb, buf=buf, payload=payload.hex())
            if chunked:
                enc = chunking(rng, payload)
                base['buf'] = buf = max(buf, enc.max_line())
                raw = enc.encode()
                yield dict(base, probe='chunked', chunks=[(p.hex(), s.hex(), e.hex()) for p, s, e in enc.chunks],
                           trailer=enc.trailer.hex(), sched=bl.gen_sched(rng, max(1, len(raw))))
            else:
                yield dict(base, probe='cl', tail=rng.choice(['', '', '7461696c']), sched=bl.gen_sched(rng, max(1, len(payload))))
        for _ in range(0 if multipart_only else max(4, n // 8)):
            mem = rng.choice([8, 16, 64])
            k = around(rng, mem)
            ch = rng.random() < .5
            sched = rng.choice([[], [1] * 40, [3, 1, 2] * 20])
            # urlencoded
            text = ('a=' + 'x' * max(0, k - 2))[:max(k, 0)] if k >= 3 else 'a' * k
            body = text.encode()
            yield dict(probe='urlencoded', max=None, buf=mem, payload=body.hex(), chunked=ch, sched=sched, op='F',
                       ctype='application/x-www-form-urlencoded', expect='refused' if len(body) > mem else 'accepted',
                       what=f'urlencoded body of {len(body)} bytes, max_memfile_size {mem}')
            # JSON
            if k >= 2:
                body = ('"' + 'j' * (k - 2) + '"').encode()
                yield dict(probe='json', max=None, buf=mem, payload=body.hex(), chunked=ch, sched=sched, op='J',
                           ctype='application/json', expect='refused' if len(body) > mem else 'accepted',
                           json='j' * (k - 2), what=f'JSON body of {len(body)} bytes, max_memfile_size {mem}')
        for _ in range(multipart_only or max(4, n // 8)):
            mem = rng.choice([600, 1024])
            ch = rng.random() < .5
            sched = rng.choice([[], [7, 64, 1] * 30, [200]])
            bnd = rng.choice([b'bnd', b'----WebKitFormBoundaryX1'])
            ctype = 'multipart/form-data; boundary=' + bnd.decode()
            kind = rng.randrange(12)
            if kind == 0:      # small text fields + a file part far over the threshold
                fdata = bl.gen_payload(rng, mem * rng.choice([1, 2, 3]) + rng.randint(1, 50))
                body = multipart(bnd, [(b't', None, b'hello'), (b'f', b'up.bin', fdata)])
                yield dict(probe='multipart', boundary=bnd.hex(), max=None, buf=mem, payload=body.hex(), chunked=ch, sched=sched, op='U',
                           ctype=ctype, expect='accepted', files={'f': fdata.hex()},
                           what=f'multipart: 5 bytes of text and a {len(fdata)}-byte file part, max_memfile_size {mem}')
            elif kind == 1:    # one text field over the threshold
                val = b'v' * (mem + rng.choice([1, 2, 50, mem]))
                body = multipart(bnd, [(b't', None, val)])
                yield dict(probe='multipart', boundary=bnd.hex(), max=None, buf=mem, payload=body.hex(), chunked=ch, sched=sched, op='F',
                           ctype=ctype, expect='refused',
                           what=f'multipart: text field of {len(val)} bytes, max_memfile_size {mem}')
            elif kind == 2:    # several text fields, each below, together over the threshold
                val = b'w' * (mem // 2 + 1)
                body = multipart(bnd, [(b'a', None, val), (b'b', None, val), (b'c', None, b'z')])
                yield dict(probe='multipart', boundary=bnd.hex(), max=None, buf=mem, payload=body.hex(), chunked=ch, sched=sched, op='F',
                           ctype=ctype, expect='refused',
                           what=f'multipart: two text fields of {len(val)} bytes each, max_memfile_size {mem}')
            elif kind in (4, 5):   # a FILE part whose header block alone is over / under the threshold
                over = kind == 4
                line = b'X-Note: ' + b'n' * ((mem + rng.choice([1, 40, mem])) if over else rng.randint(1, 60))
                fdata = bl.gen_payload(rng, rng.choice([3, 50, mem + 20]))
                parts = [(b't', None, b'hi'), (b'f', b'up.bin', fdata, [line])]
                if rng.random() < .5:
                    parts.reverse()
                body = multipart(bnd, parts)
                yield dict(probe='multipart', boundary=bnd.hex(), max=None, buf=mem, payload=body.hex(), chunked=ch, sched=sched,
                           op=rng.choice('UF'), ctype=ctype, expect='refused' if over else 'accepted',
                           what=f'multipart: file part with a {len(line)}-byte header line (in-memory need '
                                f'{in_memory_need(parts)}), max_memfile_size {mem}')
            elif kind in (6, 7):   # several file parts: header blocks over the budget only together / well under
                nfiles = (mem // 95 + 2) if kind == 6 else 2
                parts = []
                for i in range(nfiles):
                    parts.append((b'f%d' % i, b'upload-%d.bin' % i, bl.gen_payload(rng, rng.choice([0, 5, 300]))))
                    if i % 2 == 0:
                        parts.append((b't%d' % i, None, b'v%d' % i))
                body = multipart(bnd, parts)
                need = in_memory_need(parts)
                if (kind == 6 and need <= mem + 20) or (kind == 7 and need >= mem // 2):
                    continue
                yield dict(probe='multipart', boundary=bnd.hex(), max=None, buf=mem, payload=body.hex(), chunked=ch, sched=sched,
                           op=rng.choice('UF'), ctype=ctype, expect='refused' if kind == 6 else 'accepted',
                           what=f'multipart: {nfiles} file parts interleaved with text fields, header blocks and text '
                                f'need {need} bytes in memory, max_memfile_size {mem}')
            elif kind in (8, 9, 10):   # a part with an EMPTY file name (`filename=""`) carrying data over / under the threshold
                over = kind != 10
                val = (b'E' * (mem + rng.choice([1, 30, mem]))) if over else b'e' * rng.randint(0, 40)
                parts = [(b'e', b'', val)]
                if kind == 9 or rng.random() < .5:     # mixed with ordinary text fields and uploads
                    parts = [(b'a', None, b'one'), (b'e', b'', val), (b'f', b'up.bin', bl.gen_payload(rng, 70)), (b'z', None, b'last')]
                    rng.shuffle(parts)
                body = multipart(bnd, parts)
                yield dict(probe='multipart', boundary=bnd.hex(), max=None, buf=mem, payload=body.hex(), chunked=ch, sched=sched,
                           op='Y', ctype=ctype, expect='refused-or-not-loaded' if over else 'accepted',
                           what=f'multipart: part with filename="" carrying {len(val)} bytes, max_memfile_size {mem}')
            else:              # everything small
                body = multipart(bnd, [(b'a', None, b'1'), (b'b', None, b'two')])
                yield dict(probe='multipart', boundary=bnd.hex(), max=None, buf=mem, payload=body.hex(), chunked=ch, sched=sched, op='F',
                           ctype=ctype, expect='accepted', forms={'a': '1', 'b': 'two'},
                           what=f'multipart: two short text fields, max_memfile_size {mem}')

    def search(self, rng, n, seeds):
        findings, evals = [], 0
        cases = []
        for s in seeds:
            if s.get('kind') in ('read', 'wsgi') and not s['chunked'] and s['cl'] == s['n']:
                cases.append(dict(probe='cl', max=s['max'], buf=s['buf'], payload=s['raw'][:2 * s['n']],
                                  tail=s['raw'][2 * s['n']:], sched=s['full_sched']))
        # the edges exactly: every size from 0 to limit + 2 for a small limit, both framings
        for maxb, buf in ((3, 2), (4, 4), (0, 1), (None, 3)):
            for k in range(0, (maxb if maxb is not None else buf) + 3):
                p = bytes(range(97, 97 + k))
                cases.append(dict(probe='cl', max=maxb, buf=buf, payload=p.hex(), tail='', sched=[]))
                cases.append(dict(probe='cl', max=maxb, buf=buf, payload=p.hex(), tail='7878', sched=[1] * 20))
                enc = chunking(rng, p)
                cases.append(dict(probe='chunked', max=maxb, buf=max(buf, enc.max_line()), payload=p.hex(),
                                  chunks=[(a.hex(), s.hex(), e.hex()) for a, s, e in enc.chunks],
                                  trailer=enc.trailer.hex(), sched=[]))
        cases += list(self._gen_cases(rng, max(8, n // 4)))
        for c in cases:
            evals += 1
            try:
                bad = self._oracle(c)
            except Exception as e:
                bad = ('oracle-exception', f'{type(e).__name__}: {e}')
            bl.bump(self.stats, 'search:' + c['probe'])
            if bad:
                findings.append(Finding(f'C13:{bad[0]}', bad[1], c))
        return evals, findings

    def replay(self, data):
        if data.get('kind') == 'proof':
            return dict(note='proof obligation replay: rebuild the Props module', theorem=data.get('theorem'))
        if data.get('kind') == 'correspondence':
            return bl.replay_correspondence(data)
        i = data['input']
        return dict(input=i, oracle=self._oracle(i))
