"""The upload object (`FileUpload` of ombott/request_pkg/helpers.py) and the file proxy (`BytesIOProxy`, `FieldStorage.__init__`
of ombott/request_pkg/multipart.py) as an extra stream of C07.

* correspondence: self-contained `upload ...` lines (Drv/Upload.lean over Model/Upload.lean): the sanitiser on raw names
  (text and bytes, incl. invalid UTF-8), `bytes.decode('utf8', 'ignore')`, accessor sequences on one real FileUpload
  (filename / del / set / cached, get_header, content_type, content_length, name, raw_filename), operation sequences on a
  real BytesIOProxy over a BytesIO or a temporary file (read / seek with every whence / tell / the constant methods /
  closing the source; a malformed stream with negative sizes, whence 3, huge offsets, inverted windows), the same
  sequences on a real io.BytesIO (ties the reference model of `proxy_window`), `_copy_file` from a proxy and from a file
  object with short reads, `save` into a temporary directory (directories, existing files, name clashes, missing
  parents, file-likes, a closed source).
* oracle (real code only, written from what the docstrings and the property promise): the clauses of `filename_safe`,
  the direct-child property of `save(directory)`, byte-exact save with the position restored, refusal of existing files,
  proxy == BytesIO over the slice on the operations both define alike, no byte from outside the window.
"""
import io
import os
import shutil
import tempfile

from harness import core
from harness.core import hb, hs, Finding
from harness.tables.upload import ALPHABET_WIDE

KIND = 'upload'
ROOT = '/T'          # what the temporary directory is called in protocol lines

ASCII_POOL = ('abcxyzABZ019' * 3 + '....---___   \t\n\r\x0b\x0c\x1c\x1f//\\\\:;=*?"<>|~$%&()[]{}\'`,+!@#^\x00\x01\x1b\x7f')
SAFE = set('abcdefghijklmnopqrstuvwxyzABCDEFGHIJKLMNOPQRSTUVWXYZ0123456789-_.')
ALPHABET = set(chr(c) for c in range(128)) | set(ALPHABET_WIDE)
WORDS = ['..', '../', '..\\', '/', '\\', 'a.txt', '.bashrc', 'con', 'é', 'é', '‥', '．．', '／', '＼', '..／', 'C:\\x\\', ' - ',
         '--', '-.-', '. .', ' ', '\u3000', '\xa0', '…', 'ﬁle', '㎏', '中文', 'an.tar.gz', 'e\u0301', '½', '\u202egnp.exe', '\x00',
         '\r\n', '\ufeff', '\U0001d400', '－', '＿', 'x' * 10, '.-.-', '_', 'empty', '.', '-']
BAD_BYTES = [b'\xff', b'\xc3', b'\xe4\xb8', b'\xed\xa0\x80', b'\xf0\x9f', b'\xc0\xaf', b'\x80', b'\xbf', b'\xf0\x9f\x98', b'\xe0\x80\xaf',
             b'\xf4\x90\x80\x80', b'\xf8\x88\x80\x80\x80', b'\xc2', b'\xe2\x80', b'\xef\xbc', b'\xfe']


def bump(stats, key, n=1):
    stats[key] = stats.get(key, 0) + n


def exc(e):
    if type(e).__name__ == 'UnsupportedOperation':
        return 'eOSError'
    return 'e' + type(e).__name__


def mods():
    from ombott.request_pkg import helpers, multipart
    return helpers.FileUpload, multipart.BytesIOProxy


# --------------------------------------------------------------------------------------
# raw file names

def gen_text(rng):
    k = rng.randrange(12)
    if k < 2:                      # around the length bound
        n = rng.choice([250, 253, 254, 255, 256, 257, 262, 300])
        base = [rng.choice('ab0_')] * n
        for _ in range(rng.randint(0, 4)):
            base[rng.randrange(max(0, n - 8), n) if rng.random() < .7 else rng.randrange(n)] = rng.choice('.- \té/\\')
        return ''.join(base)
    if k < 4:
        return ''.join(rng.choice(WORDS) for _ in range(rng.randint(0, 5)))
    if k < 5:
        return rng.choice(WORDS)
    pool = ASCII_POOL if k < 9 else ASCII_POOL + ALPHABET_WIDE * 2
    return ''.join(rng.choice(pool) for _ in range(rng.choice([0, 1, 2, 3, 5, 8, 12, 20])))


def gen_raw(rng):
    """('s', str) | ('b', bytes) | ('o', None); every character the code will see is in ALPHABET"""
    k = rng.randrange(10)
    if k < 6:
        return ('s', gen_text(rng))
    if k < 9 or True:
        if k == 9 and rng.random() < .3:
            return ('o', None)
        for _ in range(20):
            parts = []
            for _ in range(rng.randint(1, 5)):
                parts.append(gen_text(rng)[:40].encode('utf8') if rng.random() < .6 else rng.choice(BAD_BYTES))
            b = b''.join(parts)
            if set(b.decode('utf8', 'ignore')) <= ALPHABET:
                return ('b', b)
        return ('b', b'a\xffb')


def raw_token(raw):
    k, v = raw
    return f's {hs(v)}' if k == 's' else f'b {hb(v)}' if k == 'b' else 'o -'


def real_filename(raw):
    FileUpload, _ = mods()
    try:
        return hs(FileUpload(None, 'field', raw[1]).filename)
    except Exception as e:  # noqa: the class is the observable
        return exc(e)


def fname_case(rng, stats):
    raw = gen_raw(rng)
    ans = real_filename(raw)
    bump(stats, 'upload:fname-' + raw[0])
    n = len(raw[1]) if raw[1] is not None else 0
    bump(stats, 'upload:fname-len-' + ('0' if n == 0 else '<20' if n < 20 else '<250' if n < 250 else '>=250'))
    if ans == hs('empty'):
        bump(stats, 'upload:fname-empty')
    return f'upload fname {raw_token(raw)}', ans, dict(kind=KIND, sub='fname', raw=[raw[0], raw[1].hex() if raw[0] == 'b' else raw[1]])


def dec_case(rng, stats):
    b = b''.join(rng.choice(BAD_BYTES + [b'a', b'/', b'\xc3\xa9', b'\xe4\xb8\xad', b'\xf0\x9f\x98\x80', b'\xef\xbc\x8f', b'\xed\x9f\xbf',
                                         b'\xf4\x8f\xbf\xbf', b'\xe0\xa0\x80', b'\xf0\x90\x80\x80', b'\xa9', b'\x98\x80'])
                 for _ in range(rng.randint(0, 6)))
    bump(stats, 'upload:dec')
    return f'upload dec {hb(b)}', hs(b.decode('utf8', 'ignore')), dict(kind=KIND, sub='dec', bytes=b.hex())


# --------------------------------------------------------------------------------------
# accessor sequences on one FileUpload

HNAMES = ['Content-Type', 'Content-Length', 'content-type', 'Content-length', 'CONTENT-LENGTH', 'X-A', 'Content-Disposition', '']
CL_VALUES = ['0', '12', '-1', ' 7 ', '+3', '1_000', 'abc', '', '1.5', '0x10', '12a', '\t9\n', '--1', '1__0', '_1', '007']


def gen_headers(rng):
    k = rng.randrange(8)
    if k == 0:
        return None
    if k == 1:
        return []
    out = []
    for _ in range(rng.randint(1, 4)):
        n = rng.choice(HNAMES)
        if rng.random() < .4:
            out.append((n, ('h', n, rng.choice(['text/plain', '12', 'form-data', '']))))
        else:
            out.append((n, ('s', rng.choice(CL_VALUES) if 'ength' in n.lower() or rng.random() < .3 else rng.choice(['text/plain', 'a/b; c=d', '']))))
    return out


def headers_token(h):
    if h is None:
        return '~'
    if not h:
        return '0'
    return '+'.join(f'{hs(k)}=s{hs(v[1])}' if v[0] == 's' else f'{hs(k)}=h{hs(v[1])}/{hs(v[2])}' for k, v in h)


def real_headers(h):
    from ombott.request_pkg.multipart import Header
    if h is None:
        return None
    return {k: (v[1] if v[0] == 's' else Header(name=v[1], value=v[2], options={})) for k, v in h}


def show_hval(v):
    if v is None:
        return 'n'
    if isinstance(v, str):
        return 's' + hs(v)
    if hasattr(v, 'name') and hasattr(v, 'value'):
        return f'h{hs(v.name)}/{hs(v.value)}'
    return 'x' + type(v).__name__


def gen_obj_ops(rng):
    ops = []
    for _ in range(rng.randint(1, 8)):
        k = rng.randrange(14)
        if k < 4:
            ops.append(('f',))
        elif k < 5:
            ops.append(('d',))
        elif k < 6:
            ops.append(('S', rng.choice(['x.txt', '../up', ''])))
        elif k < 7:
            ops.append(('C',))
        elif k < 9:
            ops.append(('g', rng.choice(HNAMES), rng.choice([None, 'dflt', ''])))
        elif k < 10:
            ops.append(('ct',))
        elif k < 12:
            ops.append(('cl',))
        elif k < 13:
            ops.append(('n',))
        else:
            ops.append(('r',))
    return ops


def obj_op_token(o):
    if o[0] == 'S':
        return f'S/{hs(o[1])}'
    if o[0] == 'g':
        return f'g/{hs(o[1])}/{"~" if o[2] is None else hs(o[2])}'
    return o[0]


def run_obj(raw, headers, ops):
    FileUpload, _ = mods()
    u = FileUpload(None, 'field', raw[1], real_headers(headers))
    outs = []
    for o in ops:
        try:
            t = o[0]
            if t == 'f':
                a = 's' + hs(u.filename)
            elif t == 'd':
                del u.filename
                a = 'ok'
            elif t == 'S':
                u.filename = o[1]
                a = 'ok'
            elif t == 'C':
                a = '1' if 'filename' in u.__dict__ else '0'
            elif t == 'g':
                a = show_hval(u.get_header(o[1], o[2]))
            elif t == 'ct':
                a = show_hval(u.content_type)
            elif t == 'cl':
                a = str(u.content_length)
            elif t == 'n':
                a = hs(u.name)
            else:
                r = u.raw_filename
                a = 'o' if r is None else ('s' + hs(r) if isinstance(r, str) else 'b' + hb(r))
        except Exception as e:  # noqa
            a = exc(e)
        outs.append(a)
    return outs


def obj_case(rng, stats):
    raw = gen_raw(rng)
    if raw[0] != 'o' and len(raw[1]) > 60:
        raw = (raw[0], raw[1][:60]) if raw[0] == 's' else ('s', 'long.name')
    headers = gen_headers(rng)
    ops = gen_obj_ops(rng)
    outs = run_obj(raw, headers, ops)
    for o, a in zip(ops, outs):
        bump(stats, 'upload:obj-op-' + o[0])
        if a[:1] == 'e' and a[1:2].isupper():
            bump(stats, 'upload:obj-' + a)
    line = f'upload obj {raw_token(raw)} {headers_token(headers)} ' + ','.join(obj_op_token(o) for o in ops)
    return line, ';'.join(outs), dict(kind=KIND, sub='obj', raw=[raw[0], raw[1].hex() if raw[0] == 'b' else raw[1]],
                                      headers=headers, ops=[list(o) for o in ops])


# --------------------------------------------------------------------------------------
# proxy operation sequences

HUGE = [10 ** 12, -10 ** 12, 2 ** 63, 2 ** 31 - 1]
BIG = str(2 ** 63)     # io.BytesIO itself refuses it (OverflowError): kept out of the BytesIO reference streams


def gen_pops(rng, n_body, malformed, with_close=True):
    ops = []
    for _ in range(rng.randint(1, 9)):
        k = rng.randrange(20)
        if k < 3:
            ops.append('r')
        elif k < 8:
            ops.append('r%d' % (rng.choice([-1, -2, 0, 10 ** 18] + HUGE) if malformed and rng.random() < .5 else rng.randint(1, 6)))
        elif k < 13:
            if malformed and rng.random() < .5:
                ops.append('s%d/%d' % (rng.choice(HUGE + [-1, -5, 0, 3]), rng.choice([0, 1, 2, 3, -1, 7])))
            else:
                w = rng.choice([0, 0, 1, 2, 2])
                ops.append('s%d/%d' % (rng.randint(0, n_body + 1) if w == 0 else rng.randint(-n_body - 1, 3), w))
        elif k < 15:
            ops.append('t')
        elif k < 18:
            ops.append(rng.choice('akRwFcxf'))
        elif with_close and rng.random() < .3:
            ops.append('X')
        else:
            ops.append('t')
    return ops


def make_src(body, spooled):
    if spooled:
        src = tempfile.TemporaryFile(dir=os.environ.get('VERIF_TMP'))
        src.write(body)
        return src
    return io.BytesIO(body)


def apply_pop(p, src, op):
    """one operation on a file object; the canonical answer"""
    try:
        if op == 'r':
            return hb(p.read())
        if op[0] == 'r':
            return hb(p.read(int(op[1:])))
        if op[0] == 's':
            a, w = op[1:].split('/')
            return str(p.seek(int(a), int(w)))
        if op == 't':
            return str(p.tell())
        if op in 'akRwF':
            v = getattr(p, dict(a='isatty', k='seekable', R='readable', w='writable', F='fileno')[op])()
            return 'T' if v is True else 'F' if v is False else 'x' + repr(v)
        if op == 'c':
            return 'T' if p.closed else 'F'
        if op == 'x':
            return 'n' if p.close() is None else 'x'
        if op == 'f':
            return 'n' if p.flush() is None else 'x'
        if op == 'X':
            src.close()
            return 'n'
    except Exception as e:  # noqa
        return exc(e)
    raise AssertionError(op)


def gen_window(rng, n, malformed):
    if malformed and rng.random() < .4:
        return rng.randint(-2, n + 2), rng.randint(-2, n + 3)
    st = rng.randint(0, n)
    return st, rng.randint(st, n)


def proxy_case(rng, stats):
    _, BytesIOProxy = mods()
    malformed = rng.random() < .3
    body = bytes(rng.randrange(256) for _ in range(rng.randint(0, 14)))
    st, en = gen_window(rng, len(body), malformed)
    spooled = rng.random() < .2
    ops = gen_pops(rng, len(body), malformed)
    src = make_src(body, spooled)
    try:
        p = BytesIOProxy(src, st, en)
        res = [apply_pop(p, src, op) for op in ops]
    finally:
        src.close()
    bump(stats, 'upload:proxy-malformed' if malformed else 'upload:proxy-valid')
    for o, a in zip(ops, res):
        bump(stats, 'upload:proxy-op-' + (o[0] if o[0] in 'rs' else o))
        if a[:1] == 'e' and a[1:2].isupper():
            bump(stats, 'upload:proxy-' + a)
    return (f'upload proxy {hb(body)} {1 if spooled else 0} {st} {en} {".".join(ops)}', ','.join(res),
            dict(kind=KIND, sub='proxy', body=body.hex(), st=st, en=en, spooled=spooled, ops=ops))


def bio_case(rng, stats):
    data = bytes(rng.randrange(256) for _ in range(rng.randint(0, 10)))
    ops = [o for o in gen_pops(rng, len(data), rng.random() < .4, with_close=False) if o not in ('c', 'x', 'X') and BIG not in o] or ['t']
    b = io.BytesIO(data)
    res = [apply_pop(b, b, op) for op in ops]
    bump(stats, 'upload:bio')
    return f'upload bio {hb(data)} {".".join(ops)}', ','.join(res), dict(kind=KIND, sub='bio', data=data.hex(), ops=ops)


# --------------------------------------------------------------------------------------
# _copy_file and save

class Sink:
    def __init__(self):
        self.pieces = []

    def write(self, b):
        self.pieces.append(bytes(b))


class SchedFile:
    """a raw binary stream that may return fewer bytes than asked for (never none before the end)"""

    def __init__(self, data, pos, sched):
        self.data, self.pos, self.sched = data, pos, list(sched)

    def read(self, n=-1):
        rest = self.data[self.pos:]
        want = len(rest) if n is None or n < 0 else n
        if self.sched:
            want = min(want, max(self.sched.pop(0), 1))
        out = rest[:want]
        self.pos += len(out)
        return out

    def tell(self):
        return self.pos

    def seek(self, o, whence=0):
        if o < 0:
            raise ValueError('negative seek')
        self.pos = o
        return o


def show_pieces(ps):
    return '/'.join(hb(p) for p in ps) if ps else '~'


def gen_chunk(rng):
    return rng.choice([1, 2, 3, 4, 5, 7, 16, 65536, 65536, 0, -1])


def copy_case(rng, stats):
    FileUpload, BytesIOProxy = mods()
    malformed = rng.random() < .15
    body = bytes(rng.randrange(256) for _ in range(rng.randint(0, 24)))
    st, en = gen_window(rng, len(body), malformed)
    spooled = rng.random() < .2
    pre = gen_pops(rng, len(body), False, with_close=False) if rng.random() < .6 else []
    pre = [o for o in pre if o not in 'X']
    closed = rng.random() < .08
    chunk = gen_chunk(rng)
    src = make_src(body, spooled)
    try:
        p = BytesIOProxy(src, st, en)
        for o in pre:
            apply_pop(p, src, o)
        if closed:
            src.close()
        sink = Sink()
        try:
            core.with_timeout(lambda: FileUpload(p, 'field', 'x')._copy_file(sink, chunk), 5)
            ans = f'{show_pieces(sink.pieces)}|{p.tell()}'
        except core.Hang:
            ans = 'hang'
        except Exception as e:  # noqa
            ans = exc(e)
    finally:
        src.close()
    bump(stats, 'upload:copy-chunk-' + ('le0' if chunk <= 0 else 'big' if chunk > 100 else 'small'))
    bump(stats, 'upload:copy-pieces-%d' % min(len(sink.pieces), 5))
    return (f'upload copy {hb(body)} {1 if spooled else 0} {st} {en} {".".join(pre) or "~"} {1 if closed else 0} {chunk}', ans,
            dict(kind=KIND, sub='copy', body=body.hex(), st=st, en=en, spooled=spooled, pre=pre, closed=closed, chunk=chunk))


def scopy_case(rng, stats):
    FileUpload, _ = mods()
    data = bytes(rng.randrange(256) for _ in range(rng.randint(0, 24)))
    pos = rng.randint(0, len(data) + 2)
    sched = [rng.randint(0, 6) for _ in range(rng.randint(0, 8))]
    chunk = gen_chunk(rng)
    f = SchedFile(data, pos, sched)
    sink = Sink()
    try:
        core.with_timeout(lambda: FileUpload(f, 'field', 'x')._copy_file(sink, chunk), 5)
        ans = f'{show_pieces(sink.pieces)}|{f.tell()}'
    except core.Hang:
        ans = 'hang'
    except Exception as e:  # noqa
        ans = exc(e)
    bump(stats, 'upload:scopy')
    return (f'upload scopy {hb(data)} {pos} {core.nl(sched)} {chunk}', ans,
            dict(kind=KIND, sub='scopy', data=data.hex(), pos=pos, sched=sched, chunk=chunk))


def plain_child(name):
    """can `name` be created as an entry of a directory without leaving it"""
    return bool(name) and name not in ('.', '..') and '/' not in name and '\x00' not in name and len(name.encode('utf8', 'replace')) <= 255


class TmpDir:
    def __enter__(self):
        self.path = os.path.realpath(tempfile.mkdtemp(prefix='c07up_', dir=os.environ.get('VERIF_TMP')))
        return self.path

    def __exit__(self, *a):
        shutil.rmtree(self.path, ignore_errors=True)


def fs_token(root, paths):
    """what the file system says about these paths, in protocol form (root shown as ROOT)"""
    ents = []
    for p in paths:
        isdir, exists = os.path.isdir(p), os.path.exists(p)
        err = 'IsADirectoryError' if isdir else ('~' if os.path.isdir(os.path.dirname(p)) else
                                                 'NotADirectoryError' if os.path.exists(os.path.dirname(p)) else 'FileNotFoundError')
        ents.append(f'{hs(ROOT + p[len(root):])}:{1 if isdir else 0}:{1 if exists else 0}:{err}')
    return ','.join(ents) or '~'


def run_save(case):
    """builds the scene in a fresh temporary directory, runs the real save; (line, answer)"""
    FileUpload, BytesIOProxy = mods()
    raw, body, st, en, pre = case['raw'], bytes.fromhex(case['body']), case['st'], case['en'], case['pre']
    raw = (raw[0], bytes.fromhex(raw[1]) if raw[0] == 'b' else raw[1])
    with TmpDir() as root:
        os.mkdir(os.path.join(root, 'up'))
        for name, content in case['files']:
            with open(os.path.join(root, 'up', name), 'wb') as f:
                f.write(bytes.fromhex(content))
        for name in case['dirs']:
            os.mkdir(os.path.join(root, 'up', name))
        dest = None if case['dest'] is None else root + case['dest']
        paths = [] if dest is None else [dest]
        paths += [os.path.join(root, 'up', n) for n in sorted(os.listdir(os.path.join(root, 'up')))]
        fs = fs_token(root, paths)
        src = make_src(body, case['spooled'])
        try:
            p = BytesIOProxy(src, st, en)
            for o in pre:
                apply_pop(p, src, o)
            if case['closed']:
                src.close()
            u = FileUpload(p, 'field', raw[1])
            sink = Sink()
            before = sorted(os.listdir(os.path.join(root, 'up')))
            try:
                core.with_timeout(lambda: u.save(sink if dest is None else dest, case['overwrite'], case['chunk']), 5)
                if dest is None:
                    ans = f'ok ~ {show_pieces(sink.pieces)} {p.tell()} {1 if "filename" in u.__dict__ else 0}'
                else:
                    final = os.path.join(dest, u.__dict__['filename']) if os.path.isdir(dest) and 'filename' in u.__dict__ else dest
                    content = open(final, 'rb').read() if os.path.isfile(final) else b'?'
                    ans = f'ok {hs(ROOT + final[len(root):])} {hb(content)} {p.tell()} {1 if "filename" in u.__dict__ else 0}'
            except core.Hang:
                ans = 'hang'
            except Exception as e:  # noqa
                ans = f'err {exc(e)} {1 if "filename" in u.__dict__ else 0}'
            after = sorted(os.listdir(os.path.join(root, 'up')))
        finally:
            src.close()
    dk = 'f -' if dest is None else f'p {hs(ROOT + case["dest"])}'
    line = (f'upload save {raw_token(raw)} {hb(body)} {1 if case["spooled"] else 0} {st} {en} {".".join(pre) or "~"} '
            f'{1 if case["closed"] else 0} {dk} {fs} {1 if case["overwrite"] else 0} {case["chunk"]}')
    return line, ans, (before, after)


def gen_save_case(rng):
    raw = gen_raw(rng)
    if raw[0] != 'o' and len(raw[1]) > 30:
        raw = ('s', rng.choice(WORDS) + 'n.bin')
    try:
        safe = real_filename(raw)
        safe = core.unhs(safe) if not safe.startswith('eP') else 'x'
    except Exception:  # noqa
        safe = 'x'
    if not plain_child(safe):       # a faulty tree may hand back anything: the scene is built from harmless names only
        safe = 'x'
    body = bytes(rng.randrange(256) for _ in range(rng.randint(0, 20)))
    st = rng.randint(0, len(body))
    en = rng.randint(st, len(body))
    files, dirs = [], []
    k = rng.randrange(10)
    if k < 3:
        files.append((safe, b'old'.hex()))
    elif k < 4:
        dirs.append(safe)
    if rng.random() < .3:
        files.append(('other.bin', b'keep'.hex()))
    d = rng.randrange(12)
    dest = ('/up' if d < 5 else '/up/' if d < 6 else '/up/new.bin' if d < 7 else '/up/' + safe if d < 8 else '/up/other.bin' if d < 9
            else '/nodir/x.bin' if d < 10 else None if d < 11 else '/up/other.bin/x')
    pre = [o for o in gen_pops(rng, len(body), False, with_close=False) if o[0] in 'rst'] if rng.random() < .4 else []
    return dict(raw=[raw[0], raw[1].hex() if raw[0] == 'b' else raw[1]], body=body.hex(), st=st, en=en, spooled=rng.random() < .15, pre=pre,
                closed=rng.random() < .06, files=files, dirs=dirs, dest=dest, overwrite=rng.random() < .4, chunk=gen_chunk(rng))


def save_case(rng, stats):
    case = gen_save_case(rng)
    line, ans, _ = run_save(case)
    bump(stats, 'upload:save-' + ans.split()[0] + (':' + ans.split()[1] if ans.startswith('err') else ''))
    bump(stats, 'upload:save-dest-' + ('filelike' if case['dest'] is None else case['dest'].strip('/').replace('/', '_') or 'up'))
    return line, ans, dict(kind=KIND, sub='save', case=case)


# --------------------------------------------------------------------------------------

CASES = [(fname_case, 8), (dec_case, 2), (obj_case, 4), (proxy_case, 6), (bio_case, 3), (copy_case, 3), (scopy_case, 2), (save_case, 3)]


def corr_stream(rng, n, pid, stats):
    """n correspondence cases: [(line, impl_answer, sample)]"""
    out = []
    tot = sum(w for _, w in CASES)
    for fn, w in CASES:
        for _ in range(max(1, n * w // tot)):
            out.append(fn(rng, stats))
    stats['upload:corr_lines'] = stats.get('upload:corr_lines', 0) + len(out)
    return out


# --------------------------------------------------------------------------------------
# the oracle: real code only, written from the docstrings / the property

def oracle_filename(raw):
    """clauses of `filename_safe` on one raw name: [(site, what)]"""
    FileUpload, _ = mods()
    bad = []
    u = FileUpload(None, 'field', raw)
    try:
        f = u.filename
    except Exception as e:  # noqa
        return [('filename-raises', f'filename of {raw!r} raised {type(e).__name__}')]
    if not isinstance(f, str) or not f:
        return [('filename-empty', f'filename of {raw!r} is {f!r}')]
    if len(f) > 255:
        bad.append(('filename-length', f'filename of {raw!r} has {len(f)} characters'))
    odd = sorted(set(f) - SAFE)
    if odd:
        bad.append(('filename-charset', f'filename of {raw!r} = {f!r} contains {odd!r}'))
    if f[0] in '.-':
        bad.append(('filename-leading', f'filename of {raw!r} = {f!r} starts with a dot or dash'))
    if f[-1] in '.-' and len(f) < 255:      # a name cut at 255 characters may end in one: reported, not demanded
        bad.append(('filename-trailing', f'filename of {raw!r} = {f!r} ends with a dot or dash'))
    if '--' in f:
        bad.append(('filename-dash-run', f'filename of {raw!r} = {f!r} keeps a run of dashes'))
    if f in ('.', '..') or os.path.basename(os.path.normpath(os.path.join('/d', f))) != f or \
            os.path.dirname(os.path.normpath(os.path.join('/d', f))) != '/d':
        bad.append(('filename-escapes', f'join(dir, {f!r}) is not a direct child of dir'))
    # what the docstring promises positively
    text = raw if isinstance(raw, str) else raw.decode('utf8', 'ignore')
    if text and set(text) <= SAFE - set('.-') and f != text[:255]:
        bad.append(('filename-plain-changed', f'the plain name {text!r} became {f!r}'))
    if text and set(text) <= (SAFE - set('.-')) | {' '} and text.strip() == text and '  ' not in text and len(text) < 255 and \
            f != text.replace(' ', '-'):
        bad.append(('filename-space-dash', f'{text!r} became {f!r}, expected single dashes for spaces'))
    if u.filename is not f or u.__dict__.get('filename') is not f:
        bad.append(('filename-not-cached', f'second access of filename of {raw!r} gives another object'))
    if f[-1] not in '.-':
        g = FileUpload(None, 'field', f).filename
        if g != f:
            bad.append(('filename-not-idempotent', f'{raw!r} -> {f!r} -> {g!r}'))
    return bad


ACCENTS = [('é', 'e'), ('Ü', 'U'), ('ñ', 'n'), ('Å', 'A'), ('ﬁ', 'fi'), ('Ａ', 'A'), ('①', '1'), ('ç', 'c')]


def oracle_accents(rng):
    """'Accents are removed, if possible': a letter with a diacritic keeps its base letter"""
    FileUpload, _ = mods()
    a, b = rng.choice(ACCENTS)
    pre, post = rng.choice(['', 'x', 'ab']), rng.choice(['', 'y', '.txt'])
    raw = pre + a + post
    f = FileUpload(None, 'field', raw if rng.random() < .5 else raw.encode('utf8')).filename
    if f != pre + b + post:
        return [('filename-accent', f'{raw!r} became {f!r}, expected {pre + b + post!r}')]
    return []


def oracle_basename(rng):
    """only the last path component (either separator) survives"""
    FileUpload, _ = mods()
    sep = rng.choice(['/', '\\', '\\\\', '//', '/../', '\\..\\', '／', 'C:\\'])
    head, tail = rng.choice(['a', '..', 'dir.x', '', 'etc']), rng.choice(['f.txt', 'passwd', 'b_1', 'x'])
    raw = head + sep + tail
    f = FileUpload(None, 'field', raw).filename
    if f != tail:
        return [('filename-basename', f'{raw!r} became {f!r}, expected {tail!r}')]
    return []


def oracle_save_dir(raw, content, existing, overwrite):
    """save(directory): exactly one new direct child named `filename`, byte-exact; an existing file is refused"""
    FileUpload, BytesIOProxy = mods()
    bad = []
    body = b'HEAD' + content + b'TAIL'
    with TmpDir() as root:
        d = os.path.join(root, 'up')
        os.mkdir(d)
        with open(os.path.join(root, 'outside'), 'wb') as f:
            f.write(b'outside')
        u = FileUpload(BytesIOProxy(io.BytesIO(body), 4, 4 + len(content)), 'field', raw)
        name = u.filename
        if not isinstance(name, str) or not plain_child(name):
            return [('save-escapes', f'filename of {raw!r} is {name!r}: join(dir, filename) is not a direct child of dir')]
        if existing:
            with open(os.path.join(d, name), 'wb') as f:
                f.write(b'old')
        try:
            u.save(d, overwrite)
            raised = None
        except Exception as e:  # noqa
            raised = e
        tree = sorted(os.path.relpath(os.path.join(dp, f), root) for dp, _, fs in os.walk(root) for f in fs)
        if tree != ['outside', os.path.join('up', name)] and not (raised is not None and not existing and tree == ['outside']):
            bad.append(('save-escapes', f'after save({raw!r}) into up/ the tree is {tree}'))
        if open(os.path.join(root, 'outside'), 'rb').read() != b'outside':
            bad.append(('save-escapes', 'a file outside the directory was overwritten'))
        got = open(os.path.join(d, name), 'rb').read() if os.path.isfile(os.path.join(d, name)) else None
        if existing and not overwrite:
            if not isinstance(raised, IOError):
                bad.append(('save-existing-not-refused', f'save over an existing file raised {raised!r}'))
            if got != b'old':
                bad.append(('save-existing-clobbered', f'the existing file now holds {got!r}'))
        else:
            if raised is not None:
                bad.append(('save-raises', f'save({raw!r}) into a directory raised {raised!r}'))
            elif got != content:
                bad.append(('save-content', f'saved {got!r}, the part holds {content!r}'))
        if u.file.tell() != 0:
            bad.append(('save-offset', f'after save the upload is at {u.file.tell()}, it was at 0'))
    return bad


def oracle_save_filelike(body, st, en, offset, chunk):
    FileUpload, BytesIOProxy = mods()
    bad = []
    p = BytesIOProxy(io.BytesIO(body), st, en)
    p.seek(offset)
    at = p.tell()
    sink = Sink()
    FileUpload(p, 'field', 'x').save(sink, chunk_size=chunk)
    want = body[st:en][at:]
    if b''.join(sink.pieces) != want:
        bad.append(('copy-content', f'copied {b"".join(sink.pieces)!r} from offset {at}, the window holds {want!r}'))
    if any(len(x) > chunk or not x for x in sink.pieces):
        bad.append(('copy-piece-size', f'pieces of {[len(x) for x in sink.pieces]} bytes with chunk_size {chunk}'))
    if p.tell() != at:
        bad.append(('copy-offset', f'offset {at} before, {p.tell()} after'))
    return bad


def in_both(op, n, pos):
    """is `op` one that BytesIOProxy and BytesIO define alike at position `pos` of an n-byte window (see proxy_window)"""
    if op in ('t', 'a', 'k', 'R', 'F', 'f', 'r'):
        return True
    if op[0] == 'r':
        return int(op[1:]) != 0
    if op[0] == 's':
        a, w = (int(x) for x in op[1:].split('/'))
        if w == 0:
            return 0 <= a <= n
        if w == 1:
            return pos + a <= n
        if w == 2:
            return a <= 0
    return False


def oracle_proxy(body, st, en, ops):
    """BytesIOProxy(src, st, en) against io.BytesIO(src[st:en]) on the operations both define alike; and for every
    operation whatsoever: what a read returns is the window's bytes at the position the read started from"""
    _, BytesIOProxy = mods()
    bad = []
    src = io.BytesIO(body)
    p, ref = BytesIOProxy(src, st, en), io.BytesIO(body[st:en])
    n, agree = en - st, True
    for op in ops:
        at = p.tell()
        both = agree and in_both(op, n, ref.tell())
        a = apply_pop(p, src, op)
        if op[0] == 'r' and not a.startswith('e'):
            got = core.unhb(a)
            if got != body[st:en][at:at + len(got)] or not (0 <= at <= n):
                bad.append(('proxy-outside-window', f'read at {at} of window [{st}:{en}] returned {got!r}'))
        if both:
            b = apply_pop(ref, ref, op)
            if a != b:
                bad.append(('proxy-vs-bytesio:' + (op[0] if op[0] in 'rs' else op), f'after {ops[:ops.index(op)]} {op} gives {a} on the proxy, {b} on BytesIO(src[{st}:{en}])'))
                break
        else:
            agree = False
    return bad


def search_stream(rng, n, pid, stats, seeds=()):
    findings, evals = [], 0

    def note(kind, value, bads):
        for site, what in bads:
            findings.append(Finding(f'{pid}:upload:{site}', what, dict(probe=KIND, kind=kind, value=value)))
    for s in seeds:      # correspondence disagreements: look at the same input with the oracle
        try:
            evals += 1
            if s.get('sub') in ('fname', 'obj', 'save') and (s.get('raw') or s.get('case')):
                r = s.get('raw') or s['case']['raw']
                if r[0] != 'o':
                    raw = bytes.fromhex(r[1]) if r[0] == 'b' else r[1]
                    note('fname', r, oracle_filename(raw))
                    for ex, ow in ((False, False), (True, False), (True, True)):
                        note('savedir', [r, 'abc'.encode().hex(), ex, ow], oracle_save_dir(raw, b'abc', ex, ow))
            if s.get('sub') in ('proxy', 'copy', 'save'):
                c = s.get('case') or s
                body, st, en = bytes.fromhex(c['body']), c['st'], c['en']
                if 0 <= st <= en <= len(body):
                    ops = [o for o in (c.get('ops') or c.get('pre') or []) if o != 'X']
                    note('proxy', [c['body'], st, en, ops], oracle_proxy(body, st, en, ops))
                    for off in range(0, en - st + 1):
                        for ch in (1, 3, c.get('chunk') if isinstance(c.get('chunk'), int) and c.get('chunk') > 0 else 65536):
                            note('copy', [c['body'], st, en, off, ch], oracle_save_filelike(body, st, en, off, ch))
        except Exception as e:  # noqa: a crash of the real code on a seed is a finding as well
            findings.append(Finding(f'{pid}:upload:oracle-crash', f'{type(e).__name__}: {e}', dict(probe=KIND, kind='seed', value=repr(s)[:300])))
    for i in range(n):
        k = i % 8
        evals += 1
        if k < 3:
            raw = gen_raw(rng)
            if raw[0] == 'o':
                continue
            note('fname', [raw[0], raw[1].hex() if raw[0] == 'b' else raw[1]], oracle_filename(raw[1]))
            bump(stats, 'upload:oracle-fname')
        elif k == 3:
            note('accent', None, oracle_accents(rng))
            note('basename', None, oracle_basename(rng))
            bump(stats, 'upload:oracle-doc')
        elif k == 4:
            raw = gen_raw(rng)
            if raw[0] == 'o' or len(raw[1]) > 300:
                continue
            content = bytes(rng.randrange(256) for _ in range(rng.randint(0, 30)))
            ex, ow = rng.random() < .4, rng.random() < .4
            note('savedir', [[raw[0], raw[1].hex() if raw[0] == 'b' else raw[1]], content.hex(), ex, ow], oracle_save_dir(raw[1], content, ex, ow))
            bump(stats, 'upload:oracle-savedir')
        elif k == 5:
            body = bytes(rng.randrange(256) for _ in range(rng.randint(0, 40)))
            st = rng.randint(0, len(body))
            en = rng.randint(st, len(body))
            off, ch = rng.randint(0, en - st + 1), rng.choice([1, 2, 3, 5, 8, 65536])
            note('copy', [body.hex(), st, en, off, ch], oracle_save_filelike(body, st, en, off, ch))
            bump(stats, 'upload:oracle-copy')
        else:
            body = bytes(rng.randrange(256) for _ in range(rng.randint(0, 16)))
            st = rng.randint(0, len(body))
            en = rng.randint(st, len(body))
            ops = [o for o in gen_pops(rng, en - st, rng.random() < .3, with_close=False) if o not in ('c', 'x', 'X', 'w') and BIG not in o]
            note('proxy', [body.hex(), st, en, ops], oracle_proxy(body, st, en, ops))
            bump(stats, 'upload:oracle-proxy')
    return evals, findings


def replay_case(i, pid):
    out = dict(input=i)
    if i.get('probe') == KIND:
        kind, v = i['kind'], i['value']
        if kind == 'fname':
            raw = bytes.fromhex(v[1]) if v[0] == 'b' else v[1]
            out['filename'] = real_filename((v[0], raw))
            out['oracle'] = [list(b) for b in oracle_filename(raw)]
        elif kind == 'savedir':
            raw = bytes.fromhex(v[0][1]) if v[0][0] == 'b' else v[0][1]
            out['oracle'] = [list(b) for b in oracle_save_dir(raw, bytes.fromhex(v[1]), v[2], v[3])]
        elif kind == 'copy':
            out['oracle'] = [list(b) for b in oracle_save_filelike(bytes.fromhex(v[0]), v[1], v[2], v[3], v[4])]
        elif kind == 'proxy':
            out['oracle'] = [list(b) for b in oracle_proxy(bytes.fromhex(v[0]), v[1], v[2], v[3])]
        else:
            out['note'] = 'fixed docstring examples (accent / basename): see `what`'
        return out
    sub = i.get('sub')
    if sub == 'fname':
        raw = (i['raw'][0], bytes.fromhex(i['raw'][1]) if i['raw'][0] == 'b' else i['raw'][1])
        out['line'], out['impl_now'] = f'upload fname {raw_token(raw)}', real_filename(raw)
    elif sub == 'save':
        out['line'], out['impl_now'], _ = run_save(i['case'])
    return out


UP_ANCHORS = ['ombott/request_pkg/helpers.py', 'ombott/request_pkg/multipart.py', 'ombott/common_helpers.py']
UP_RULE = ('; upload object stream: raw file names (text and bytes with invalid UTF-8) rich in separators, dots, dashes, every kind of '
           'white space, accents, compatibility forms that decompose to / \\ . - and space, CJK, controls, lengths around 255 x accessor '
           'sequences (filename get/del/set, get_header, content_type, content_length) x BytesIOProxy operation sequences (valid and '
           'malformed: negative sizes, whence 3, huge offsets, inverted windows, closed source) x _copy_file (chunk sizes incl. <= 0, '
           'short-read schedules) x save into a temporary directory (directories, existing files, clashes, missing parents, file-likes)')
UP_ASSUMPTIONS = ['the ASCII part of unicodedata.normalize("NFKD", s) is the concatenation of the ASCII parts of the per-character '
                  'decompositions (reordering only moves combining marks); the decomposition is a parameter of the theorems, the driver '
                  'runs the table probed from the live normalize over the generator alphabet (Gen.upNfkd)',
                  're / str.strip character classes as probed from the live interpreter over code points <= 0x3000 (Gen.upKeep1, upDashWs, upStripWs)',
                  'os.path.isdir / exists / open are the parameter structure Fs of the model; posixpath.join as Model/StaticFile.join']
UP_NOTE = ('upload object: unicodedata.normalize is a parameter (probed table for the driver); the file system is a parameter structure')


def install(cls, quick=(1300, 500), thorough=(40000, 12000)):
    """adds the upload stream to check class `cls` (C07): table, anchors, correspondence, oracle, replay"""
    pid = cls.pid
    cls.tables = list(cls.tables) + ['upload']
    cls.anchors = list(cls.anchors) + [a for a in UP_ANCHORS if a not in cls.anchors]
    cls.rule = cls.rule + UP_RULE
    cls.assumptions = list(cls.assumptions) + UP_ASSUMPTIONS
    cls.level_note_extra = (cls.level_note_extra + '; ' if cls.level_note_extra else '') + UP_NOTE
    o_budget, o_corr, o_search, o_replay, o_nontrivial = cls.budget, cls.corr, cls.search, cls.replay, cls.nontrivial

    def budget(self, tier, escalated):
        self._up = (tier, escalated)
        return o_budget(self, tier, escalated)

    def sizes(self):
        tier, esc = getattr(self, '_up', ('quick', False))
        a, b = quick if tier == 'quick' else thorough
        return (a * 3, b * 3) if (esc and tier == 'quick') else (a, b)

    def corr(self, rng, n):
        out = o_corr(self, rng, n)
        if not hasattr(self, 'stats') or self.stats is None:
            self.stats = {}
        out += corr_stream(rng, sizes(self)[0], pid, self.stats)
        return out

    def is_mine(s):
        return isinstance(s, dict) and (s.get('kind') == KIND or s.get('probe') == KIND)

    def search(self, rng, n, seeds):
        mine = [s for s in seeds if is_mine(s)]
        evals, findings = o_search(self, rng, n, [s for s in seeds if not is_mine(s)])
        if not hasattr(self, 'stats') or self.stats is None:
            self.stats = {}
        try:
            ev, fs = core.with_timeout(lambda: search_stream(rng, sizes(self)[1], pid, self.stats, mine), 170)
        except core.Hang:
            ev, fs = 1, [Finding(f'{pid}:upload:hang', 'an operation of the upload object did not terminate',
                                 dict(probe=KIND, kind='hang', value=None))]
        return evals + ev, list(findings) + fs

    def replay(self, data):
        i = data.get('input')
        if is_mine(i):
            return replay_case(i, pid)
        return o_replay(self, data)

    def nontrivial(self, sample):
        if is_mine(sample):
            sub = sample.get('sub')
            if sub in ('obj', 'proxy', 'bio'):
                return len(sample.get('ops', [])) >= 2
            if sub == 'fname':
                return bool(sample.get('raw', [0, ''])[1])
            return True
        return o_nontrivial(self, sample)

    cls.budget, cls.corr, cls.search, cls.replay, cls.nontrivial = budget, corr, search, replay, nontrivial
    return cls
