"""The interpreter's limit on decimal int <-> str conversions (`sys.get_int_max_str_digits()`, 4300 by
default): input classes, correspondence lines and independent oracles for the checks whose code
calls `int()` on request-controlled text.  Hooked by `install(cls)` at the bottom of
harness/c01.py and harness/c17.py.

C17  `get_first_range`: numerals of LIMIT-1, LIMIT, LIMIT+1, 2*LIMIT digit characters, canonical and
     with leading zeros, in each of the three range forms; judged by RFC 7233 clipping written here
     without `int()` of the long text.  A numeral of more than LIMIT digits that names a satisfiable
     range answers 416: recorded finding `C17:range:numeral-longer-than-int-max-str-digits`
     (Props/C17.lean `range_rfc_fails_beyond_int_limit`).  Every other disagreement is a violation.
C01  digit runs of those sizes in request paths, under `int`, `float` and plain wildcards and as
     literal rule text; expectation from the property: the handler gets `int(text)` (or the text /
     `float(text)`), or the rule does not match — never a 5xx.
"""
import io
import math

from harness import core
from harness.core import Finding
from harness.tables import pyint

KEY_C17 = 'C17:range:numeral-longer-than-int-max-str-digits'


def limit():
    return pyint.limit()


def sizes():
    lim = limit()
    if lim > 100000:          # no limit in this interpreter: the class degenerates to long numerals
        return [4299, 4300, 4301, 8600]
    return [lim - 1, lim, lim + 1, 2 * lim]


def numerals(rng, nd):
    """spellings with exactly `nd` digit characters: (text, tag)"""
    small = rng.choice(['0', '3', '7', '9', '12'])
    out = [('9' * nd, 'nines'), ('1' + '0' * (nd - 1), 'pow10'),
           (rng.choice('123456789') + ''.join(rng.choice('0123456789') for _ in range(nd - 1)), 'random'),
           ('0' * (nd - len(small)) + small, 'zeros+' + small), ('0' * nd, 'all-zeros')]
    return out


# ---------------------------------------------------------------------------------------------
# C17

def _val(t):
    """value of a digit string for clipping purposes, without int() of a long text"""
    s = t.lstrip('0')
    return math.inf if len(s) > 18 else int(s or '0')


def rfc_clip(a, b, length):
    """RFC 7233 on the first range-spec `a-b` (digit strings, '' = absent); None = unsatisfiable"""
    if a == '' and b == '':
        return None
    if a == '':
        n = _val(b)
        if n == 0 or length == 0:
            return None
        return (0 if n >= length else length - n, length)
    s = _val(a)
    if s >= length:
        return None
    if b == '':
        return (s, length)
    e = _val(b)
    if e < s:
        return None
    return (s, length if e + 1 >= length else e + 1)


def c17_class(rng):
    """[(a, b, tail, tag)]: first range-spec `a-b` + tail"""
    out = []
    for nd in sizes():
        for text, tag in numerals(rng, nd):
            small = rng.choice(['0', '2', '5', '9', '11'])
            tail = rng.choice(['', '', ',0-1', ',x'])
            out.append((small, text, tail, f'closed-end/{tag}/{nd}'))
            out.append((text, small, tail, f'closed-start/{tag}/{nd}'))
            out.append((text, '', tail, f'open/{tag}/{nd}'))
            out.append(('', text, tail, f'suffix/{tag}/{nd}'))
        z = '0' * (nd - 1) + rng.choice('0123')
        out.append((z, z[:-1] + rng.choice('3459'), '', f'closed-both-zeros/{nd}'))
        out.append((z, '9' * nd, '', f'closed-both/{nd}'))
    return out


def c17_spellings(rng):
    """what else `int()` accepts around the digits (sign, whitespace, underscores): correspondence only"""
    out = []
    for nd in sizes()[:3]:
        d = '0' * (nd - 1) + '4'
        for h in ('bytes=0-+' + d, 'bytes=0- ' + d + ' ', 'bytes=' + d[:-1] + '1-\t' + '9' * nd, 'bytes=-' + '_'.join(d[-3:]).rjust(nd + 2, '0'),
                  'bytes=0-' + '_'.join('9' * nd), 'bytes=0-' + '9' * (nd - 1) + '_9', 'bytes=--' + d, 'bytes=-+' + d,
                  'bytes=0-' + d + 'x', 'bytes=0-' + '9' * nd + ' x', 'bytes= ' + d + ' - ' + d + ' '):
            out.append(h)
    return out


def _over(a, b):
    lim = limit()
    return len(a) > lim or len(b) > lim


def c17_judge(chk, a, b, tail, L):
    """None or (key, what)"""
    h = f'bytes={a}-{b}{tail}'
    exp = rfc_clip(a, b, L)
    short = f'bytes={_abbr(a)}-{_abbr(b)}{tail}'
    try:
        got = core.with_timeout(lambda: chk.ss.get_first_range(h, L))
    except core.Hang:
        return 'C17:range:long-numeral-hang', f'get_first_range({short!r}, {L}) did not return'
    except Exception as e:
        return 'C17:range:long-numeral-exception', f'get_first_range({short!r}, {L}) raised {type(e).__name__}'
    bad = None
    if got != exp:
        bad = f'get_first_range({short!r}, {L}) = {got!r}, RFC 7233 clipping gives {exp!r}'
    else:
        r, chunks = chk._static(L, 'GET', h, None, 4)
        sc = r.status_code
        if exp is None and sc != 416:
            bad = f'Range {short!r} on a {L}-byte file: unsatisfiable, answered {sc}'
        elif exp is not None:
            cr = r.headers.get('Content-Range') if sc == 206 else None
            if sc != 206 or cr != f'bytes {exp[0]}-{exp[1] - 1}/{L}':
                bad = f'Range {short!r} on a {L}-byte file: expected 206 bytes {exp[0]}-{exp[1] - 1}/{L}, answered {sc} {cr!r}'
    if bad is None:
        return None
    if _over(a, b) and got is None and exp is not None:
        return (KEY_C17, 'a numeral of more than sys.get_int_max_str_digits() = %d digit characters (leading zeros count) in the '
                'first range-spec makes int() raise ValueError inside get_first_range, which answers None -> 416 although the '
                'range is satisfiable by RFC 7233 clipping (e.g. bytes=0-<%d nines> on a 10-byte file is bytes 0-9; '
                'bytes=-<%d digits> is the whole file; a first-byte-pos written with %d leading zeros). Recorded, not '
                'repaired: a repair means parsing numerals without int(); model: Props/C17.lean range_rfc_fails_beyond_int_limit'
                % (limit(), limit() + 1, limit() + 1, limit() + 1))
    return 'C17:range:long-numeral-rfc-clipping', bad


def _abbr(t):
    if len(t) <= 24:
        return t
    return f'{t[:6]}..({len(t)} digits)..{t[-4:]}'


def bare_pyint_in_models():
    """model files that call the unbounded grammar `pyInt` directly (every Python `int(str)` of request text must be
    mirrored by `pyIntLim`): should be empty"""
    import glob
    import os
    import re
    out = []
    for f in sorted(glob.glob(os.path.join(core.LEAN, 'OmbottModel', 'Model', '*.lean'))):
        txt = re.sub(r'/-.*?-/', '', open(f, encoding='utf8').read(), flags=re.S)
        txt = re.sub(r'--[^\n]*', '', txt)
        if re.search(r'(?<![A-Za-z0-9_.])pyInt(?![A-Za-z0-9_])', txt):
            out.append(os.path.basename(f))
    return out


def install_c17(cls):
    cls.tables = list(cls.tables) + ['pyint']
    cls.rule = cls.rule + (' || int() limit (intlimlib): numerals of LIMIT-1 / LIMIT / LIMIT+1 / 2*LIMIT digit characters '
                           '(LIMIT = sys.get_int_max_str_digits()), canonical and with leading zeros, in each of the three range '
                           'forms and on both sides, plus the spellings int() accepts (sign, whitespace, underscores); judged by '
                           'RFC 7233 clipping written without int()')
    cls.assumptions = list(cls.assumptions) + [
        'numerals of more than sys.get_int_max_str_digits() digit characters are outside range_rfc_closed/open/suffix '
        '(explicit hypothesis WithinIntLimit; known finding ' + KEY_C17 + ')']
    o_corr, o_search, o_replay = cls.corr, cls.search, cls.replay

    def corr(self, rng, n):
        out = o_corr(self, rng, n)
        bare = bare_pyint_in_models()
        self.stats['intlim-models-calling-unbounded-pyInt'] = len(bare)
        if bare:
            raise AssertionError('model files mirror int(str) with the unbounded `pyInt` instead of `pyIntLim`: %s' % bare)
        self._setup()
        try:
            gfr = self.ss.get_first_range
            hs_ = core.hs
            cases = [(f'bytes={a}-{b}{t}', tag) for a, b, t, tag in c17_class(rng)] + [(h, 'spelling') for h in c17_spellings(rng)]
            for h, tag in cases:
                L = rng.choice([0, 1, 5, 10, 10, 12, 100])
                try:
                    r = gfr(h, L)
                    ans = 'none' if r is None else f'some {r[0]} {r[1]}'
                except Exception as e:
                    ans = 'err:' + type(e).__name__
                self.stats['intlim-' + tag.split('/')[0] + ('-none' if ans == 'none' else '-some')] = \
                    self.stats.get('intlim-' + tag.split('/')[0] + ('-none' if ans == 'none' else '-some'), 0) + 1
                out.append((f'range first {hs_(h)} {L}', ans, dict(kind='intlim', tag=tag, header_len=len(h), maxlen=L,
                                                                   header=h if len(h) < 200 else None)))
        finally:
            self._teardown()
        return out

    def search(self, rng, n, seeds):
        evals, findings = o_search(self, rng, n, [s for s in seeds if s.get('kind') != 'intlim'])
        findings = list(findings)
        self._setup()
        try:
            seen = set()
            for a, b, tail, tag in c17_class(rng):
                for L in (10, rng.choice([0, 1, 5, 12, 100])):
                    evals += 1
                    bad = c17_judge(self, a, b, tail, L)
                    if bad and bad[0] not in seen:
                        seen.add(bad[0])
                        findings.append(Finding(bad[0], bad[1], dict(kind='intlim', a=_pack(a), b=_pack(b), tail=tail, len=L, tag=tag)))
        finally:
            self._teardown()
        return evals, findings

    def replay(self, data):
        i = data.get('input')
        if isinstance(i, dict) and i.get('kind') == 'intlim' and 'a' in i:
            a, b = _unpack(i['a']), _unpack(i['b'])
            self._setup()
            try:
                h = f'bytes={a}-{b}{i["tail"]}'
                return dict(input=i, header=f'bytes={_abbr(a)}-{_abbr(b)}{i["tail"]}',
                            get_first_range_now=repr(self.ss.get_first_range(h, i['len'])),
                            rfc_clipping=repr(rfc_clip(a, b, i['len'])), oracle=c17_judge(self, a, b, i['tail'], i['len']))
            finally:
                self._teardown()
        return o_replay(self, data)

    cls.corr, cls.search, cls.replay = corr, search, replay
    return cls


def _pack(t):
    """run-length form of a digit string for replay files"""
    out, i = [], 0
    while i < len(t):
        j = i
        while j < len(t) and t[j] == t[i]:
            j += 1
        out.append([t[i], j - i])
        i = j
    return out


def _unpack(p):
    return ''.join(c * k for c, k in p)


# ---------------------------------------------------------------------------------------------
# C01

def c01_runs(rng):
    """[(digit-run text, tag)] : runs of the four sizes, optionally signed / led by zeros"""
    out = []
    for nd in sizes():
        for text, tag in numerals(rng, nd)[:4]:
            out.append((text, f'{tag}/{nd}'))
        out.append(('-' + '7' * nd, f'signed/{nd}'))
    return out


def _int_of(text):
    """int(text) for a run within the limit (sign allowed); None beyond it"""
    digits = text.lstrip('-')
    if len(digits) > limit():
        return None
    return int(text)


def c01_cases(rng):
    """[(rules, path, expectation)] expectation: ('hit', rule index, kwargs) | ('miss',)"""
    out = []
    for text, tag in c01_runs(rng):
        v = _int_of(text)
        # int wildcard, end of path / followed by a literal
        out.append((['/x/<id:int>'], '/x/' + text, ('hit', 0, {'id': v}) if v is not None else ('miss',), 'int/' + tag))
        out.append((['/y/<id:int>/t'], '/y/' + text + '/t', ('hit', 0, {'id': v}) if v is not None else ('miss',), 'int-lit/' + tag))
        out.append((['/s<id:int>.png'], '/s' + text + '.png', ('hit', 0, {'id': v}) if v is not None else ('miss',), 'int-infix/' + tag))
        # the next candidate rule takes over when the int wildcard does not match
        out.append((['/z/<id:int>', '/<q:path>'], '/z/' + text, ('hit', 0, {'id': v}) if v is not None else ('hit', 1, {'q': 'z/' + text}), 'int-then-path/' + tag))
        # plain wildcard, float wildcard, literal text: no limit applies
        out.append((['/p/:w'], '/p/' + text, ('hit', 0, {'w': text}), 'plain/' + tag))
        out.append((['/f/<v:float>'], '/f/' + text, ('hit', 0, {'v': float(text)}), 'float/' + tag))
        if not text.startswith('-'):
            out.append((['/f/<v:float>'], '/f/1.' + text, ('hit', 0, {'v': float('1.' + text)}), 'float-frac/' + tag))
            out.append((['/l/' + text, '/l/<id:int>/no'], '/l/' + text, ('hit', 0, {}), 'literal/' + tag))
            out.append((['/l/' + text], '/l/' + text[:-1] + ('1' if text[-1] != '1' else '2'), ('miss',), 'literal-near/' + tag))
            out.append((['/dl/<p:path>/<n:int>'], '/dl/a/b/' + text, ('hit', 0, {'p': 'a/b', 'n': v}) if v is not None else ('miss',), 'path-int/' + tag))
    return out


def _call(app, path, calls):
    out = {}

    def sr(status, headers, exc_info=None):
        out['status'] = status
    env = {'REQUEST_METHOD': 'GET', 'PATH_INFO': path, 'SCRIPT_NAME': '', 'wsgi.input': io.BytesIO(b''), 'wsgi.errors': io.StringIO(),
           'SERVER_NAME': 'x', 'SERVER_PORT': '80', 'wsgi.url_scheme': 'http', 'SERVER_PROTOCOL': 'HTTP/1.1'}
    del calls[:]
    body = app(env, sr)
    b''.join(body)
    if hasattr(body, 'close'):
        body.close()
    return int(out['status'][:3])


def c01_judge(rules, path, exp):
    """None or (key, what): through the real application"""
    from ombott.ombott import Ombott
    app = Ombott()
    calls = []
    ctx = f'rules={[_abbr_rule(r) for r in rules]} path={_abbr_rule(path)}'
    try:
        for i, r in enumerate(rules):
            def handler(_i=i, **kw):
                calls.append((_i, kw))
                return 'h%d' % _i
            app.route(r, 'GET')(handler)
        st = core.with_timeout(lambda: _call(app, path, calls), 20)
    except core.Hang:
        return 'C01:intlim:hang', 'the request did not finish: ' + ctx
    except Exception as e:
        return 'C01:intlim:exception', f'the application raised {type(e).__name__}: {ctx}'
    if st >= 500:
        return ('C01:intlim:server-fault', f'a long digit run in the path answered {st} (the handler gets int(text) or the rule '
                f'does not match - never a server fault): {ctx}')
    if exp[0] == 'miss':
        if st != 404 or calls:
            return 'C01:intlim:false-match', f'no rule matches, answered {st} calls={_abbr_calls(calls)}: {ctx}'
        return None
    _, idx, kw = exp
    if st == 404:
        return 'C01:intlim:false-404', f'rule {_abbr_rule(rules[idx])} matches, answered 404: {ctx}'
    if st != 200 or len(calls) != 1 or calls[0][0] != idx:
        return 'C01:intlim:wrong-route', f'expected handler {idx}, answered {st} calls={_abbr_calls(calls)}: {ctx}'
    got = calls[0][1]
    if set(got) != set(kw) or any(type(got[k]) is not type(kw[k]) or got[k] != kw[k] for k in kw):
        return 'C01:intlim:kwargs-values', f'handler kwargs {_abbr_calls(calls)} differ from the converted wildcard texts: {ctx}'
    return None


def _abbr_rule(r):
    import re
    return re.sub(r'\d{25,}', lambda m: f'{m.group()[:4]}..({len(m.group())} digits)..{m.group()[-3:]}', r)


def _abbr_calls(calls):
    def ab(v):
        if isinstance(v, int) and not isinstance(v, bool):
            return v if v.bit_length() < 100 else f'<int of about {int(v.bit_length() * 0.30103) + 1} digits>'
        r = repr(v)
        return v if len(r) <= 40 else f'<{type(v).__name__} {r[:8]}..({len(r)} chars)>'
    return [(i, {k: ab(v) for k, v in kw.items()}) for i, kw in calls]


def c01_corr(self, rng):
    from harness import router_gen as G
    from ombott.router.filter_factory import FilterFactory
    from harness.tables.routerbuiltin import val_text
    out = []
    hs_ = core.hs
    # 1. the live handlers on the runs: reference semantics (`router builtin`) and the concrete environment (`router bfilter`)
    for text, tag in c01_runs(rng):
        for name, conf, suffix in (('int', None, ''), ('int', None, '/t'), ('int', '', '.png'), ('float', None, ''),
                                   ('float', None, '.5x'), ('path', '/', '/' + text[:3])):
            t = text + suffix
            fid = '%s(%s)' % (name, conf)
            fc = '~'
            try:
                h = FilterFactory.make_filter(name, conf)[0]
                v, k, sel = h(t)
                ans_b = '~' if v is None else '%s:%d' % (hs_(val_text(name, v, t, k)), k)
                ans_c = '~' if v is None else '%s:%d' % (G.enc_val(v), k)
                if name == 'float' and v is not None:
                    fc = G.enc_val(v)
            except Exception as e:
                v, ans_b = None, 'err:' + G.err_name(e)
                ans_c = ans_b
            self._bump('intlim-filter-' + name + ('-hit' if v is not None else '-miss'))
            sample = dict(kind='intlim', sub='filter', fid=fid, tag=tag, suffix=suffix)
            if name != 'path' or conf:
                out.append(('router builtin %s %s %s' % (hs_(name), hs_(conf or ''), hs_(t)), ans_b, sample))
            out.append(('router bfilter %s %s %s' % (hs_(fid), hs_(t), fc), ans_c, sample))
    # 2. whole lookups: histories of int / plain wildcards and literals, handlers computed by the model (`router histb`)
    for rules, path, exp, tag in c01_cases(rng):
        if any('float' in r for r in rules):
            continue                       # `float(text)` of a long numeral is a parameter of the model: covered by bfilter lines
        if tag.endswith('/%d' % sizes()[-1]) and not tag.startswith(('int/', 'literal/')):
            continue                       # the longest runs (2*LIMIT) go through whole lookups for two shapes only (driver time)
        run = _Runner()
        run.histb = True
        try:
            for r in rules:
                run.add(r, ['GET'], None, False)
            run.resolve(path, ['GET', 'ANY'])
        except core.Hang:
            self._bump('hang-skipped')
            continue
        except Exception as e:             # a 5xx-class fault inside the lookup: the oracle stream reports it
            run.ops.append('R|%s|%s|~' % (hs_(path), core.hsl(['GET', 'ANY'])))
            run.answers.append('err:' + G.err_name(e))
        self._bump('intlim-lookup-' + run.answers[-1].split(':')[0])
        out.append((run.line(), run.answer(), dict(kind='intlim', sub='lookup', tag=tag, wild_hit=run.answers[-1].startswith('hit:'))))
    return out


_RunnerCls = []


def _Runner():
    from harness import router_gen as G
    if not _RunnerCls:
        class R(G.Runner):
            def env_for(self, path):       # built-in handlers are computed by the model (`histb`): nothing to ship
                return []
        _RunnerCls.append(R)
    return _RunnerCls[0]()


def install_c01(cls):
    cls.tables = list(cls.tables) + ['pyint']
    cls.rule = cls.rule + (' || int() limit (intlimlib): digit runs of LIMIT-1 / LIMIT / LIMIT+1 / 2*LIMIT characters '
                           '(LIMIT = sys.get_int_max_str_digits()), canonical / led by zeros / signed, in request paths under int, '
                           'float and plain wildcards (end of path, before a literal, after a path wildcard, with a path wildcard one level up as '
                           'next candidate) and as literal rule text: live handlers against the reference and the concrete '
                           'filter model, whole lookups against `router histb`, and through the real application against '
                           '"the handler gets int(text) or the rule does not match - never a 5xx"')
    o_corr, o_search, o_replay = cls.corr, cls.search, cls.replay

    def corr(self, rng, n):
        out = o_corr(self, rng, n)
        out += c01_corr(self, rng)
        return out

    def search(self, rng, n, seeds):
        evals, findings = o_search(self, rng, n, [s for s in seeds if not (isinstance(s, dict) and s.get('kind') == 'intlim')])
        findings = list(findings)
        seen = set()
        for rules, path, exp, tag in c01_cases(rng):
            evals += 1
            bad = c01_judge(rules, path, exp)
            if bad and bad[0] not in seen:
                seen.add(bad[0])
                findings.append(Finding(bad[0], bad[1], dict(kind='intlim', rules=[_pack(r) for r in rules], path=_pack(path),
                                                             expect=[exp[0]] + ([exp[1], sorted(exp[2])] if exp[0] == 'hit' else []),
                                                             tag=tag)))
        return evals, findings

    def replay(self, data):
        i = data.get('input')
        if isinstance(i, dict) and i.get('kind') == 'intlim':
            rules, path = [_unpack(r) for r in i['rules']], _unpack(i['path'])
            match = [c for c in c01_cases(__import__('random').Random(0)) if c[0] == rules and c[1] == path]
            from ombott.ombott import Ombott
            app, calls = Ombott(), []
            for k, r in enumerate(rules):
                def handler(_i=k, **kw):
                    calls.append((_i, kw))
                    return 'h%d' % _i
                app.route(r, 'GET')(handler)
            try:
                st = _call(app, path, calls)
            except Exception as e:
                st = 'raised ' + type(e).__name__
            return dict(rules=[_abbr_rule(r) for r in rules], path=_abbr_rule(path), expect=i.get('expect'), status_now=st,
                        calls_now=_abbr_calls(calls), oracle=c01_judge(*match[0][:3]) if match else 'status must be 200 or 404')
        return o_replay(self, data)

    cls.corr, cls.search, cls.replay = corr, search, replay
    return cls


def install(cls):
    return {'C01': install_c01, 'C17': install_c17}[cls.pid](cls)
