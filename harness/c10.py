"""C10 - Application objects in one process are independent of each other."""
import copy as _copy
import json
import random

from harness import core, sched, tsconc
from harness.core import Check, Finding
from harness.c08 import mk, diff_key, run_shards, _detuple, KINDS, CFGS

COPY_OPS = ('copy', 'cpath', 'cset', 'cheader')
HANDLER_KINDS = ['cookies', 'headers', 'status', 'raised', 'errpage', 'crash', 'body', 'empty', 'head', 's204',
                 'toolarge', 'badjson', 'errjson', 'crashjson', 'copyhdr', 'badmultipart', 'chunked', 'multipart',
                 'chunkedmp']
ERROR_KINDS = ['toolarge', 'badjson', 'toolarge', 'badjson', 'badmultipart', 'errjson', 'crashjson', 'crash', 'errpage']
READBACK = [('path',), ('rdstatus',), ('query', 'q'), ('rdhdr', 'X-Own'), ('cookie', 'c'), ('method',)]


# --------------------------------------------------------------------------------------
# building arrangements

def req_for(app, rid, kind, p):
    r = mk(kind, p, rid, app=app)
    return r


def with_ops(r, pre=(), post=()):
    r = dict(r)
    r['ops'] = list(pre) + list(r['ops']) + list(post)
    return r


def own_marks(p):
    """what a handler writes to its own response before something else happens"""
    return [('path',), ('status', 201 + p % 2), ('sethdr', 'X-Own', 'o%d' % p)]


SINGLE_ARR = ['alternating', 'nested', 'nested2', 'copy', 'construct', 'mixed', 'mapped', 'mapped-nested',
              'copyhdr', 'helpers', 'idle', 'mutate', 'listen']


def gen_single(rng, idx):
    """single-thread arrangement number idx: (name, case)"""
    apps = rng.choice([[0, 1], [0, 1, 2], [1, 2], [1, 2, 3], [0, 2]])
    rid = [0]

    def nr():
        rid[0] += 1
        return rid[0]

    def rq(app, kind=None, p=None):
        n = nr()
        return req_for(app, n, kind or rng.choice(KINDS), n if p is None else p)
    kind = SINGLE_ARR[idx % len(SINGLE_ARR)]
    if kind == 'listen':
        return gen_listen(rng, idx)
    if kind == 'mutate':
        return gen_mutate(rng, idx)
    if kind == 'helpers':
        return gen_helpers(rng, idx)
    if kind == 'idle':
        return gen_idle(rng, idx)
    a, b = apps[0], apps[1]
    c = apps[2] if len(apps) > 2 else None
    items = []
    if kind == 'alternating':
        seq = [rng.choice(apps) for _ in range(rng.randint(3, 6))]
        items = [('serve', rq(x)) for x in seq]
        init = list(apps)
    elif kind in ('nested', 'nested2'):
        inner = rq(b)
        if kind == 'nested2' and c is not None:
            inner = with_ops(rq(b, 'status'), own_marks(7), [('nested', rq(c))] + READBACK)
        outer = rq(a, rng.choice(['status', 'cookies', 'headers', 'raised', 'errpage', 'body']))
        outer = with_ops(outer, own_marks(outer['rid']), [('nested', inner)] + READBACK)
        items = [('serve', outer)]
        if rng.random() < .5:
            items.append(('serve', rq(b)))
        init = list(apps)
    elif kind == 'copy':
        # B's handler copies its request and edits the copy while A's handler is in progress
        inner = with_ops(rq(b, 'status'), [], [('copy',), ('cset', 0, 'PATH_INFO', '/edited'),
                                               ('cset', 0, 'QUERY_STRING', 'q=edited'), ('cpath', 0), ('path',)])
        outer = with_ops(rq(a, rng.choice(['status', 'cookies', 'body'])), own_marks(3),
                         [('copy',), ('cset', 0, 'PATH_INFO', '/mine'), ('cpath', 0), ('nested', inner)] + READBACK)
        items = [('serve', outer), ('serve', rq(b))]
        init = list(apps)
    elif kind == 'construct':
        new = max(apps) + 1
        outer = with_ops(rq(a, rng.choice(['status', 'headers', 'cookies'])), own_marks(5),
                         [('construct', new)] + READBACK)
        items = [('serve', outer), ('serve', rq(new)), ('serve', rq(a))]
        init = list(apps)
    elif kind == 'mapped':
        # several applications fail onto the same shared error object, alternating
        seq = [rng.choice(apps) for _ in range(rng.randint(3, 6))]
        items = [('serve', rq(x, rng.choice(ERROR_KINDS))) for x in seq]
        init = list(apps)
    elif kind == 'mapped-nested':
        # the handler of A calls B, B fails onto a shared error, then A fails onto the same one
        ek = rng.choice(['toolarge', 'badjson', 'badmultipart'])
        inner = rq(b, ek)
        if c is not None and rng.random() < .5:
            inner = with_ops(rq(b, ek), own_marks(7), [('nested', rq(c, rng.choice(ERROR_KINDS)))])
        outer = with_ops(rq(a, rng.choice([ek, ek, 'errjson', 'crash'])), own_marks(3), [('nested', inner), ('rdstatus',), ('rdhdr', 'X-Own')])
        items = [('serve', outer), ('serve', rq(b, ek)), ('serve', rq(a, ek))]
        init = list(apps)
    elif kind == 'copyhdr':
        # header views, copies and edits of copies down a nested chain: the originals must not move
        inner = with_ops(rq(b, 'copyhdr'), [], [('header', 'X-K'), ('cookie', 'c'), ('path',)])
        if c is not None:
            inner = with_ops(inner, [], [('nested', rq(c, 'copyhdr')), ('header', 'X-K'), ('query', 'q')])
        outer = with_ops(rq(a, 'copyhdr'), own_marks(3), [('nested', inner), ('header', 'X-K'), ('cookie', 'c'),
                                                         ('query', 'q'), ('envget', 'HTTP_X_K')] + READBACK)
        items = [('serve', outer)]
        init = list(apps)
    else:
        new = max(apps) + 1
        inner = with_ops(rq(b, rng.choice(HANDLER_KINDS)), [('construct', new)], [('copy',), ('cset', 0, 'PATH_INFO', '/e2')])
        outer = with_ops(rq(a, 'status'), own_marks(9), [('nested', inner), ('copy',), ('cpath', 0)] + READBACK)
        items = [('serve', outer), ('serve', rq(new)), ('construct', new + 1), ('serve', rq(new + 1)), ('serve', rq(a))]
        init = list(apps)
    case = dict(apps=init, threads={1: items}, switches=[])
    case['cfg'] = pick_cfgs(rng, case)
    return kind, case


HDR_BEFORE = [('rdstatus',), ('rdhdr', 'X-Own'), ('rdhdr', 'Location'), ('rdhdr', 'Content-Type')]


def gen_helpers(rng, idx):
    """a handler calls another application whose handler leaves through redirect() / abort() / a raised
    HTTPResponse; the default application in the outer and in the inner role, also through a third
    application; the outer handler reads its response before and after"""
    v = (idx // len(SINGLE_ARR)) % 6
    n = [0]

    def rq(app, kind='status', **kw):
        n[0] += 1
        r = req_for(app, n[0], kind, n[0])
        r.update(kw)
        return r
    leave = [('redirect', '/moved%d' % idx), ('error', 403 + idx % 3, 'no%d' % idx),
             ('raise', 202, 'r%d' % idx, {'X-In': 'in%d' % idx, 'Location': '/x'})]
    skip = []
    if v == 0:      # default app outside, another app leaves through redirect(): it reads Globals.*
        inner = with_ops(rq(2), [('sethdr', 'X-In', 'i')], [])
        inner['out'] = ('redirect', '/moved%d' % idx)
        skip = [2]      # what redirect() puts into B's response comes from the default app by design
        outer_app, apps = 0, [0, 2]
    elif v == 1:    # default app inside, leaving through its own redirect()
        inner = with_ops(rq(0), [('sethdr', 'X-In', 'i'), ('status', 202)], [])
        inner['out'] = ('redirect', '/moved%d' % idx)
        outer_app, apps = 1, [0, 1]
    elif v == 2:    # default app outside, inner leaves through abort() / raise
        inner = with_ops(rq(2), [('sethdr', 'X-In', 'i'), ('setcookie', 'ci', 'v')], [])
        inner['out'] = leave[1 + idx % 2]
        outer_app, apps = 0, [0, 2]
    elif v == 3:    # through a third application: 0 -> 2 -> 3, the innermost leaves through abort()/raise
        inner3 = with_ops(rq(3), [('sethdr', 'X-In', 'i3')], [])
        inner3['out'] = leave[1 + idx % 2]
        inner = with_ops(rq(2), own_marks(6), [('nested', inner3)] + HDR_BEFORE)
        outer_app, apps = 0, [0, 2, 3]
    elif v == 4:    # 1 -> 2 -> default app, which leaves through redirect()
        inner0 = with_ops(rq(0), [('sethdr', 'X-In', 'i0')], [])
        inner0['out'] = ('redirect', '/m%d' % idx)
        inner = with_ops(rq(2), own_marks(6), [('nested', inner0)] + HDR_BEFORE)
        outer_app, apps = 1, [0, 1, 2]
    else:           # default app outside, 2 -> 3 where 3 leaves through redirect() (reads the default app)
        inner3 = with_ops(rq(3), [('sethdr', 'X-In', 'i3')], [])
        inner3['out'] = ('redirect', '/m%d' % idx)
        inner = with_ops(rq(2), own_marks(6), [('nested', inner3)] + HDR_BEFORE)
        skip = [3]
        outer_app, apps = 0, [0, 2, 3]
    # (no multi-valued header and no cookie on the outer response: BaseResponse.copy() inside redirect() chokes on
    # list values - outside this property - and the model does not copy cookie jars)
    outer = with_ops(rq(outer_app, rng.choice(['status', 'raised', 'errpage'])), own_marks(4) + HDR_BEFORE,
                     [('nested', inner)] + HDR_BEFORE + READBACK)
    case = dict(apps=apps, threads={1: [('serve', outer), ('serve', rq(outer_app, 'status'))]}, switches=[], skip_apps=skip)
    case['cfg'] = {a: CFGS['plain'] for a in apps}     # no hooks: own_marks' X-Own is what the handlers set
    return 'helpers', case


def gen_mutate(rng, idx):
    """one application's handler changes in place every object the framework hands it (and answers an
    unlisted status code with its own reason phrase); the other applications - same static route, same raw
    query string / Cookie header / body - must see what their own request carries: alternating, nested,
    with the default application, with an application created in the middle of a request, both orders"""
    v = (idx // len(SINGLE_ARR)) % 6
    apps = [[0, 2], [1, 2], [2, 0], [0, 1, 2], [1, 2], [2, 1]][v]
    a, b = apps[0], apps[1]

    def rq(app, kind):
        return req_for(app, 900, kind, 1)
    rd = 'reader' if idx % 2 else 'reader799'
    if v in (0, 1, 2):       # alternating, both orders
        items = [('serve', rq(b, rd)), ('serve', rq(a, 'mutator')), ('serve', rq(b, rd)), ('serve', rq(a, 'reader')),
                 ('serve', rq(b, 'mutator')), ('serve', rq(a, rd))]
        init = list(apps)
    elif v == 3:             # nested: the mutator calls a reader, which calls a reader of a third application
        inner = with_ops(rq(b, 'reader'), [], [('nested', rq(apps[2], rd))])
        outer = with_ops(rq(a, 'mutator'), [], [('nested', inner), ('rdstatus',)])
        items = [('serve', outer), ('serve', rq(apps[2], 'reader')), ('serve', rq(b, rd))]
        init = list(apps)
    elif v == 4:             # a reader calls the mutator in the middle and goes on reading
        outer = with_ops(rq(a, 'reader'), [('dump', 'query')], [('nested', rq(b, 'mutator'))])
        outer['ops'] = [('dump', 'query'), ('dump', 'cookies'), ('nested', rq(b, 'mutator'))] + rq(a, 'reader')['ops']
        items = [('serve', outer), ('serve', rq(a, rd))]
        init = list(apps)
    else:                    # an application created in the middle of the mutator's request, then read
        new = 4
        outer = with_ops(rq(a, 'mutator'), [], [('construct', new)])
        items = [('serve', outer), ('serve', rq(new, rd)), ('serve', rq(b, 'reader')), ('serve', rq(new, 'mutator')),
                 ('serve', rq(a, rd))]
        init = list(apps)
    case = dict(apps=init, threads={1: items}, switches=[])
    # (no hooks: a hook that reads an accessor after the handler changed it would see the change, rightly)
    case['cfg'] = {x: CFGS[rng.choice(['plain', 'debug', 'custom'])] for x in sorted(set(tsconc.case_apps(case)))}
    return 'mutate', case


def gen_listen(rng, idx):
    """event subscriptions: a handler of one application subscribes to its request object
    (`app.request.on('env_changed' | user event, cb)`); afterwards the other applications - existing ones, the
    default one, one created later, idle ones - store through THEIR request (`app.request[k] = v`, emit) and read
    back.  A listener fires for the request object it was subscribed to and for no other: alternating, nested
    both ways, with a copy, with an application constructed after the subscription, subscriber = default app"""
    v = (idx // len(SINGLE_ARR)) % 8
    n = [0]

    def rq(app, kind):
        n[0] += 1
        return req_for(app, n[0], kind, n[0] + idx % 5)
    lk = rng.choice(['listener', 'listener', 'listener2', 'ticker'])
    a, b = [(1, 2), (0, 2), (2, 0), (1, 2), (2, 1), (0, 1), (1, 0), (2, 3)][v]
    init = [a, b]
    if v in (0, 1, 2):          # alternating: before the subscription, after it, and again
        items = [('serve', rq(b, 'setter')), ('serve', rq(a, lk)), ('serve', rq(b, 'setter')), ('serve', rq(a, 'setter')),
                 ('serve', rq(b, rng.choice(['setter', 'copyhdr', 'ticker']))), ('serve', rq(a, 'setter'))]
    elif v == 3:                # the subscriber calls the other application, which stores; then stores itself
        outer = with_ops(rq(a, lk), [], [('nested', rq(b, 'setter')), ('reqset', 'x.after', 'a%d' % idx), ('header', 'X-K')])
        items = [('serve', outer), ('serve', rq(b, 'setter')), ('serve', rq(a, 'setter'))]
    elif v == 4:                # the other application is in the middle of a request when the subscription is made
        outer = with_ops(rq(b, 'setter'), [], [('nested', rq(a, lk)), ('reqset', 'HTTP_X_K', 'late%d' % idx), ('header', 'X-K'),
                                               ('reqset', 'x.late', 'l%d' % idx), ('envget', 'x.late')])
        items = [('serve', outer), ('serve', rq(a, 'setter')), ('serve', rq(b, 'setter'))]
    elif v == 5:                # an application constructed after the subscription (inside that handler / later)
        new = 4
        outer = with_ops(rq(a, lk), [], [('construct', new)])
        items = [('serve', outer), ('serve', rq(new, 'setter')), ('construct', new + 1), ('serve', rq(new + 1, 'setter')),
                 ('serve', rq(b, 'setter')), ('serve', rq(a, 'setter'))]
    elif v == 6:                # idle request objects of other applications are stored through
        items = [('construct', 6), ('serve', rq(a, lk)), ('idle', 6), ('poke', 6, 'HTTP_X_K', 'p%d' % idx), ('idle', 6),
                 ('construct', 7), ('poke', 7, 'x.k0', 'q%d' % idx), ('pokeattr', 7, 'foo', 'w'), ('idle', 7), ('idle', 6),
                 ('serve', rq(b, 'setter')), ('serve', rq(a, 'setter'))]
    else:                       # two subscribers, each hears its own request only; a third application hears nothing
        c = 1
        init = [a, b, c]
        outer = with_ops(rq(a, 'listener'), [], [('nested', with_ops(rq(b, 'ticker'), [], [('nested', rq(c, 'setter'))]))])
        items = [('serve', outer), ('serve', rq(c, 'setter')), ('serve', rq(b, 'setter')), ('serve', rq(a, 'setter'))]
    case = dict(apps=init, threads={1: items}, switches=[])
    case['cfg'] = {x: CFGS[rng.choice(['plain', 'debug', 'custom'])] for x in sorted(set(tsconc.case_apps(case)))}
    return 'listen', case


def gen_idle(rng, idx):
    """idle request objects: every Ombott() gives its request a fresh environ; storing through one
    application's idle request must not show in another's (single thread; the worker constructs)"""
    ids = [5, 6, 7]
    items = [('construct', 5), ('construct', 6), ('idle', 5), ('idle', 6),
             ('poke', 5, 'k%d' % idx, 'v5'), ('idle', 6), ('pokeattr', 6, 'foo', 'w6'), ('idle', 5), ('idle', 6),
             ('construct', 7), ('idle', 5), ('idle', 6), ('idle', 7), ('poke', 7, 'HTTP_X', 'x7'),
             ('pokeattr', 5, 'bar', 'b5'), ('idle', 7), ('idle', 6), ('idle', 5)]
    if idx % 2:
        # an application built inside a serving handler, then looked at from outside
        r = with_ops(req_for(5, 1, 'status', 1), [], [('construct', 8)])
        items += [('serve', r), ('idle', 8), ('poke', 8, 'k8', 'v8'), ('idle', 6), ('idle', 7), ('idle', 8)]
        ids.append(8)
    case = dict(apps=[], threads={1: items}, switches=[])
    case['cfg'] = {a: CFGS['plain'] for a in ids}
    return 'idle', case


def pick_cfgs(rng, case):
    """an application configuration per application id (incl. those constructed on the way)"""
    names = sorted(CFGS)
    return {a: CFGS[rng.choice(names)] for a in sorted(set(tsconc.case_apps(case)))}


THREAD_ARR = ['serve', 'construct', 'copy', 'nested', 'default-nested', 'three', 'mapped', 'mapped-default',
              'copyhdr', 'mutate', 'mutate-default', 'listen', 'bodies', 'bodies-default']

# two applications decoding a request body at the same time (preemption points inside _iter_chunked / _iter_body /
# _body_read / the multipart parser of one application while the other one decodes a whole body)
BODY_PAIRS = [('chunked', 'chunked'), ('chunked', 'chunkedmp'), ('chunkedmp', 'chunked'), ('multipart', 'chunkedmp'),
              ('chunkedmp', 'multipart'), ('body', 'chunked'), ('chunked', 'body'), ('multipart', 'multipart'),
              ('chunkedmp', 'chunkedmp')]
SWEEP_CAP = 1000     # quick tier: at most this many single preemption points per arrangement (every k-th line, the
                     # offset varies with the seed and the arrangement number)


def gen_threads(rng, idx):
    """two or three threads, different applications: (name, case)"""
    kind = THREAD_ARR[idx % len(THREAD_ARR)]
    ka = rng.choice(['status', 'cookies', 'headers', 'raised', 'errpage', 'body', 'chunked', 'multipart'])
    kb = rng.choice(['status', 'cookies', 'headers', 'raised', 'errpage', 'body', 'chunkedmp', 'multipart'])
    a = rng.choice([0, 1])
    ra = with_ops(req_for(a, 1, ka, 1), own_marks(1), READBACK)
    if kind == 'serve':
        case = dict(apps=[a, 2], threads={1: [('serve', ra)], 2: [('serve', with_ops(req_for(2, 2, kb, 2), own_marks(2), READBACK))]})
    elif kind == 'construct':
        case = dict(apps=[a], threads={1: [('serve', ra)], 2: [('construct', 2), ('serve', req_for(2, 2, kb, 2))]})
    elif kind == 'copy':
        rb = with_ops(req_for(2, 2, 'status', 2), [], [('copy',), ('cset', 0, 'PATH_INFO', '/edited'), ('cpath', 0),
                                                      ('copy',), ('cset', 1, 'QUERY_STRING', 'q=e'), ('path',)])
        case = dict(apps=[a, 2], threads={1: [('serve', ra)], 2: [('serve', rb)]})
    elif kind == 'nested':
        rb = with_ops(req_for(2, 2, kb, 2), own_marks(2), [('nested', req_for(3, 3, 'status', 3))] + READBACK)
        case = dict(apps=[a, 2, 3], threads={1: [('serve', ra)], 2: [('serve', rb)]})
    elif kind == 'default-nested':
        r0 = with_ops(req_for(0, 1, ka, 1), own_marks(1), [('nested', req_for(2, 3, 'cookies', 3))] + READBACK)
        case = dict(apps=[0, 1, 2], threads={1: [('serve', r0)], 2: [('serve', with_ops(req_for(1, 2, kb, 2), own_marks(2), READBACK))]})
    elif kind in ('mapped', 'mapped-default'):
        # two applications on two threads fail onto the same shared error object
        ek = rng.choice(['toolarge', 'badjson', 'badmultipart'])
        a0 = 0 if kind == 'mapped-default' else a
        r1 = with_ops(req_for(a0, 1, ek, 1), own_marks(1), [])
        partner = {'badjson': 'badmultipart', 'badmultipart': 'badjson', 'toolarge': 'toolarge'}[ek]
        r2 = with_ops(req_for(2, 2, rng.choice([partner, partner, ek, 'crashjson']), 2), own_marks(2), [])
        case = dict(apps=[a0, 2], threads={1: [('serve', r1)], 2: [('serve', r2)]})
    elif kind in ('mutate', 'mutate-default'):
        # one application mutates what it is handed while another one, on another thread, reads
        a0 = 0 if kind == 'mutate-default' else a
        first, second = ('mutator', rng.choice(['reader', 'reader799'])) if rng.random() < .5 else \
            (rng.choice(['reader', 'reader799']), 'mutator')
        case = dict(apps=[a0, 2], threads={1: [('serve', req_for(a0, 900, first, 1)), ('serve', req_for(a0, 900, 'reader', 1))],
                                          2: [('serve', req_for(2, 900, second, 1))]})
    elif kind == 'listen':
        # one application subscribes to its request object while another one, on another thread, stores through its own
        lk = rng.choice(['listener', 'listener2', 'ticker'])
        case = dict(apps=[a, 2], threads={1: [('serve', req_for(a, 1, lk, 1)), ('serve', req_for(a, 3, 'setter', 3))],
                                          2: [('serve', req_for(2, 2, 'setter', 2)), ('serve', req_for(2, 4, 'setter', 4))]})
    elif kind in ('bodies', 'bodies-default'):
        k1, k2 = BODY_PAIRS[(idx // len(THREAD_ARR)) % len(BODY_PAIRS)] if kind == 'bodies' else \
            rng.choice(BODY_PAIRS[:3])
        a0 = 0 if kind == 'bodies-default' else a
        p1, p2 = rng.randint(1, 9), rng.randint(1, 9)      # chunk sizes / size-line spellings depend on p
        case = dict(apps=[a0, 2], threads={1: [('serve', req_for(a0, 1, k1, p1))], 2: [('serve', req_for(2, 2, k2, p2))]})
    elif kind == 'copyhdr':
        r1 = with_ops(req_for(a, 1, 'copyhdr', 1), own_marks(1), READBACK)
        r2 = with_ops(req_for(2, 2, 'copyhdr', 2), [], [('nested', req_for(3, 3, 'copyhdr', 3)), ('header', 'X-K')])
        case = dict(apps=[a, 2, 3], threads={1: [('serve', r1)], 2: [('serve', r2)]})
    else:
        case = dict(apps=[a, 2, 3], threads={1: [('serve', ra)],
                                            2: [('serve', with_ops(req_for(2, 2, kb, 2), own_marks(2), READBACK))],
                                            3: [('serve', with_ops(req_for(3, 3, 'cookies', 3), [('copy',)], READBACK))]})
    case['switches'] = []
    case['cfg'] = pick_cfgs(rng, case)
    if kind.startswith('mutate') or kind == 'listen':
        case['cfg'] = {x: CFGS[rng.choice(['plain', 'debug', 'custom'])] for x in case['cfg']}
    return 'threads-' + kind, case


# --------------------------------------------------------------------------------------
# the oracle: the run in which the other applications' operations are deleted

def strip_req(r, a):
    """request r of application a without what other applications do inside it and without its own
    copy traffic (reads of the copies are not compared, the copies must not matter)"""
    r = dict(r)
    r['ops'] = [op for op in r['ops'] if op[0] not in COPY_OPS and op[0] not in ('nested', 'construct')]
    return r


def flatten(req, a):
    """the requests of application a that serving `req` involves, in program order"""
    out = []
    if req['app'] == a:
        out.append(('serve', strip_req(req, a)))
        # a nested request to the same application re-enters it: not generated
    for op in req.get('ops') or []:
        if op[0] == 'nested':
            out += flatten(op[1], a)
    return out


def project(case, a):
    threads = {}
    for t, items in case['threads'].items():
        mine = []
        for it in items:
            if it[0] == 'serve':
                mine += flatten(it[1], a)
                if any(op[0] == 'construct' and op[1] == a for r in tsconc._walk_req(it[1]) for op in r.get('ops') or []):
                    mine.insert(len(mine) - len(flatten(it[1], a)), ('construct', a))   # built inside that handler
            elif it[1] == a:
                mine.append(it)          # construct / poke / pokeattr / idle of this application
        threads[t] = mine
    built_here = any(it[0] == 'construct' for items in threads.values() for it in items)
    return dict(apps=[] if built_here else [a], threads=threads, switches=[],
                cfg={a: (case.get('cfg') or {}).get(a) or {}})


def solo_for(case, a, cache):
    p = project(case, a)
    key = json.dumps(p, sort_keys=True)
    if key not in cache:
        # sequential: one worker runs the threads' programs one after the other is NOT the same as
        # separate threads (thread-local views), so keep the threads and run them without preemption
        p2 = _copy.deepcopy(p)
        tids = sorted(p2['threads'])
        p2['threads'] = {i + 1: p2['threads'][t] for i, t in enumerate(tids)}

        def go():
            w = tsconc.World(p2, multi=True)
            w.run(core.REPO)
            return {t: [o for o in w.obs.get(i + 1, [])] for i, t in enumerate(tids)}
        # in a forked child of this (so far untouched) process: a pristine reference
        cache[key] = tsconc.pristine(go)
    return cache[key]


def check_case(name, case, w, cache):
    sh = w.shared_handouts()
    if sh:
        return (name + ':shared-object', 'the framework handed the SAME object to two different requests: %r' % (sh,))
    apps = sorted(set(tsconc.case_apps(case)))
    for a in apps:
        if a in (case.get('skip_apps') or ()):
            continue      # an application whose handler uses a helper that reads the default application by design
        solo = solo_for(case, a, cache)
        for t in sorted(case['threads']):
            # reads of copies (`c:`) are not compared: the copies must not matter to the original
            got = [o for o in w.obs.get(t, []) if (o[0] == a or o[0] == -1) and not o[1].startswith('c:')]
            exp = solo.get(t, [])
            k = diff_key(got, exp)
            if k:
                return (name + ':' + k,
                        'application %d, thread %d: with the other applications\' operations present its handlers see '
                        '%r; with them deleted %r' % (a, t, _first_diff(got, exp), _first_diff(exp, got)))
    return None


def _first_diff(x, y):
    for i in range(max(len(x), len(y))):
        if i >= len(x) or i >= len(y) or x[i] != y[i]:
            return x[i] if i < len(x) else None
    return None


def run_one(name, case, cache, label_only=False):
    w = tsconc.World(case, multi=True)
    w.run(core.REPO, label_only=label_only)
    ev = [t for t, _ in w.sched.events]
    return tsconc.case_line(case, ev, multi=True), w.answer(), check_case(name, case, w, cache), w


def shard(args):
    mode, seed, lo, hi = args[:4]
    cap = args[4] if len(args) > 4 else 0
    cache = {}
    out = {}
    finds = []
    stats = dict(schedules=0, points=0, arrangements={})
    try:
        gen = []
        for idx in range(lo, hi):
            rng = random.Random('%s-%d-%d' % (mode, seed, idx))
            name, case = (gen_single if mode == 'single' else gen_threads)(rng, idx)
            gen.append((idx, rng, name, case))
        # all references first, while this process has not run anything of its own
        for idx, rng, name, case in gen:
            for a in sorted(set(tsconc.case_apps(case))):
                solo_for(case, a, cache)
        for idx, rng, name, case in gen:
            if mode == 'single':
                todo = [[]]
            else:
                line, ans, bad, w0 = run_one(name, case, cache)
                n1 = w0.sched.order[0][1]
                nthreads = len(case['threads'])
                # every single preemption point of thread 1 (capped: every k-th line, offset from seed and idx)
                stride = 1 if not cap or n1 <= cap else -(-n1 // cap)
                ks = range(1 + (seed + idx) % stride, n1 + 1, stride)
                todo = [[]] + [[(k, t)] for k in ks for t in range(2, nthreads + 1)]
                total = w0.sched.step
                for _ in range(30):
                    pts = sorted(rng.sample(range(1, total + 1), min(rng.randint(2, 5), total)))
                    todo.append([(p, rng.randint(1, nthreads)) for p in pts])
                stats['points'] += len(ks)
            stats['arrangements'][name] = stats['arrangements'].get(name, 0) + 1
            for sw in todo:
                c = dict(case, switches=sw)
                line, ans, bad, w = run_one(name, c, cache, label_only=(mode == 'single'))
                stats['schedules'] += 1
                if (line, ans) not in out:
                    out[(line, ans)] = dict(arrangement=name, mode=mode, seed=seed, idx=idx, switches=sw)
                if bad:
                    finds.append((bad[0], bad[1], dict(arrangement=name, case=c)))
        return dict(ok=True, cases=[(l, a, s) for (l, a), s in out.items()], finds=finds[:20], stats=stats, base=None)
    except sched.SchedTimeout as e:
        return dict(ok=False, err='scheduler timeout: %s' % e)
    except tsconc.ChildFailed as e:
        return dict(ok=False, err='reference run failed: %s' % e)


class C10(Check):
    pid = 'C10'
    props_mod = 'OmbottModel.Props.C10'
    tables = ['tsprops']
    drv_shard_min = 200
    design_ref = '6/C10'
    level_category = 'proof'
    level_text = ('Lean theorem multi_app_noninterference over the step model of ts_props (one store per instance, looked '
                  'up through the instance) and of the objects all applications share (errors_map): from any heap in which '
                  'dict references stay inside their application, for every sequence of operations of any number of '
                  'applications and threads (serving, Request.copy(), construction, nested calls) that does not write a '
                  'shared error object, the reads of an application equal those of the run with all other applications\' '
                  'operations deleted; the pre-fix decorator (one closure cell per class) is a model variant shown to '
                  'violate it. Tied to the code by arrangements of 2-3 real applications incl. the default app, '
                  'single-threaded and under the baton scheduler. Proof of the model + schedule-controlled '
                  'correspondence; partial for thread switches inside one source line.')
    level_note_extra = ('partial: sub-line thread switches are not exercised; object identity is modelled by names '
                        '(thread, app, serial), only freshness of new objects is used; aliasing of a shared error\'s '
                        'cookie jar into a response is not modelled (no error object of the tree has cookies: generated table).')
    technique = 'Lean 4 proof + schedule-controlled differential correspondence'
    anchors = ['ombott/common_helpers.py', 'ombott/response.py', 'ombott/request_pkg/request.py', 'ombott/ombott.py']
    rule = ('arrangements of 2-3 applications incl. the module-level default app, each with its own configuration '
            '(debug pages, custom error handlers, hooks): alternating requests, nested calls (depth 1-2), '
            'Request.copy() + edits of the copy (PATH_INFO, QUERY_STRING, HTTP_*, cookies) inside a handler and down a '
            'nested chain with header views read before and after, Ombott() constructed inside a handler or on another '
            'thread, several applications failing onto the same shared errors_map object (alternating, nested, '
            'cross-thread, default app), inner handlers leaving through redirect() / abort() / a raised HTTPResponse with the '
            'default app outside and inside (also through a third application) while the outer handler reads its '
            'response before and after, idle request objects (construct / store through one idle request / inspect '
            'all), one application mutating in place everything it is handed while others (same static route, same raw '
            'inputs; default app, nested, app created mid-request, other thread, custom 799 phrase in both orders) read, '
            'with an identity check of the handed-out objects; event subscriptions on the request object (a handler calls '
            'app.request.on(env_changed | a user event), also twice / taken back / next to a copy; afterwards the other '
            'applications - default app, one built after the subscription, idle ones, nested both ways, another thread - '
            'store through app.request[k]=v or emit and read back: a listener hears its own request object only; model op '
            'reqSet); two applications decoding chunked / multipart / chunked-multipart / urlencoded bodies at the same '
            'time on two threads (default app included); single thread, and 2-3 threads under the baton scheduler with every single '
            'preemption point of thread 1 (quick: every k-th line when over 1000, offset from the seed) plus random multi-preemption schedules; every application is compared with '
            'the run in which the others\' operations (and its own copies) are deleted, computed in a forked child of '
            'the untouched process; non-trivial = more than one application takes part')
    assumptions = ['thread switches happen at source-line boundaries inside ombott/* and the handlers',
                   'an application is not re-entered by a nested call to itself',
                   'handlers reach request and response state only through app.request / app.response (or the module '
                   'level aliases of the default application)',
                   'a copy made by a handler is used by that handler\'s thread only',
                   'no code writes the shared HTTPError objects of errors_map (tied: generated table + probe; hypothesis '
                   'sharedOk of the theorem)',
                   'router answer, parsed values, status phrases and the error page templates are data of the request in '
                   'the model (properties C01, C02, C04-C07, C15, C18, C20)']

    def __init__(self):
        self.stats = {}
        self._sweep = None

    def budget(self, tier, escalated):
        self._tier = tier
        n = 1 if tier == 'quick' else 6
        return n * (2 if escalated and tier == 'quick' else 1)

    def nontrivial(self, sample):
        return True

    def _jobs(self, rng, n):
        seed = rng.randrange(1 << 30)
        jobs = []
        cap = SWEEP_CAP if getattr(self, '_tier', 'quick') == 'quick' else 0
        nthr = len(THREAD_ARR) * n
        for i in range(nthr):           # the long jobs first
            jobs.append(('threads', seed, i, i + 1, cap))
        nsingle = 12 * len(SINGLE_ARR) * n
        for lo in range(0, nsingle, 20):
            jobs.append(('single', seed, lo, min(nsingle, lo + 20)))
        return jobs

    def _run(self, rng, n):
        if getattr(self, '_tier', 'quick') == 'quick':
            n = min(n, 3)           # an escalated quick run stays a quick run
        if self._sweep is not None and (self._sweep[0] >= n or self._sweep[1][1]):
            return self._sweep[1]   # enough explored already, or failing schedules already in hand
        jobs = self._jobs(rng, n)
        res = run_shards(jobs, fn=shard)
        cases, finds = [], []
        st = dict(schedules=0, jobs=len(jobs), preemption_points=0, arrangements={})
        for r in res:
            if not r.get('ok'):
                raise core.Infra(r.get('err', 'worker failed'))
            cases += r['cases']
            finds += r['finds']
            st['schedules'] += r['stats']['schedules']
            st['preemption_points'] += r['stats']['points']
            for k, v in r['stats']['arrangements'].items():
                st['arrangements'][k] = st['arrangements'].get(k, 0) + v
        st['distinct_model_lines'] = len({c[0] for c in cases})
        self.stats.update(st)
        self._sweep = (n, (cases, finds))
        return cases, finds

    def corr(self, rng, n):
        return self._run(rng, n)[0]

    def search(self, rng, n, seeds):
        cases, finds = self._run(rng, n)
        evals = self.stats.get('schedules', 0)
        out = [Finding('C10:' + k, what, rep) for k, what, rep in finds]
        cache = {}
        for s in seeds[:40]:
            try:
                r = random.Random('%s-%d-%d' % (s['mode'], s['seed'], s['idx']))
                name, case = (gen_single if s['mode'] == 'single' else gen_threads)(r, s['idx'])
                case['switches'] = [tuple(x) for x in s['switches']]
                bad = tsconc.pristine(lambda: run_one(name, case, {})[2])
                evals += 1
                if bad:
                    out.append(Finding('C10:' + bad[0], bad[1], dict(arrangement=name, case=case)))
            except (sched.SchedTimeout, tsconc.ChildFailed) as e:
                raise core.Infra(str(e))
        return evals, out

    def replay(self, data):
        inp = data['input']
        case = inp['case']
        case['threads'] = {int(k): [tuple(it) if it[0] != 'serve' else ('serve', _detuple(it[1])) for it in v]
                           for k, v in case['threads'].items()}
        case['switches'] = [tuple(x) for x in case['switches']]
        case['cfg'] = {int(k): dict(v, before=[tuple(o) for o in v.get('before', [])],
                                   after=[tuple(o) for o in v.get('after', [])])
                       for k, v in (case.get('cfg') or {}).items()}
        cache = {}
        apps = sorted(set(tsconc.case_apps(case)))
        try:
            alone = {a: solo_for(case, a, cache) for a in apps}

            def go():
                line, ans, bad, w = run_one(inp.get('arrangement', '?'), case, cache)
                return bad, w.sched.order, {t: w.obs.get(t, []) for t in case['threads']}
            bad, order, observed = tsconc.pristine(go)
        except (sched.SchedTimeout, tsconc.ChildFailed) as e:
            raise core.Infra(str(e))
        return dict(arrangement=inp.get('arrangement'), switches=case['switches'], executed_order=order,
                    observed=observed, each_application_alone=alone,
                    verdict=('differs: %s' % (bad,) if bad else 'every application sees what it sees alone'))


# the class / configuration machinery every application is built on (SimpleConfig, NameSpace, cached_property, proxy,
# MixableMeta, Ombott.__init__ / setup, BaseRequest.__new__ / setup / copy): an extra correspondence stream and oracle
from harness import configlib as _config  # noqa: E402
_config.install(C10)
