"""C09 - Each response depends on its own request only; retained state is bounded."""
import gc
import io
import weakref

from harness import core, wsgizoo as zoo
from harness.core import hb, hs, Check, Finding
from harness.c03 import enc, dec


class Env(dict):
    """a WSGI environ that can be weakly referenced"""
    __slots__ = ('__weakref__',)


class In(io.BytesIO):
    pass


MAX_BODY = 1000

# how the handler touches the request body (after its statements, before its outcome)
def _pre_body(app, kw=None):
    app.request.body


def _pre_json(app, kw=None):
    app.request.json


def _pre_bodyecho(app, kw=None):
    """answers with what it read from the (possibly spooled) body stream"""
    import hashlib
    b = app.request.body
    data = b.read()
    b.seek(0)
    again = app.request.body.read()
    return f'body {len(data)} {hashlib.sha1(data).hexdigest()[:12]} again={int(again == data)} cl={app.request.content_length}'


def _pre_reqerr(app, kw=None):
    from ombott.request_pkg.errors import RequestError
    app.request._raise(RequestError('synthetic'), RequestError)


def _pre_upload(app, kw=None):
    """reads the multipart form: answers with a description of every field and upload, part headers
    and content type included"""
    forms, files = app.request.forms, app.request.files
    out = []
    for k in sorted(forms.keys()):
        out.append(f'form {k}={forms[k]!r}')
    for k in sorted(files.keys()):
        v = files[k]
        for f in (v if isinstance(v, list) else [v]):
            out.append(f'file {k} fn={f.raw_filename!r} ct={f.content_type!r} cl={f.content_length} '
                       f'hdrs={sorted(f.headers.items())!r} data={f.file.read()!r}')
    return '\n'.join(out) or 'nothing'


def _pre_wild(app, kw=None):
    """a handler behind a wildcard rule: answers with the matched value, query, cookies, a header"""
    r = app.request
    return (f'wild {sorted((k, repr(v)) for k, v in (kw or {}).items())} q={sorted(r.query.items())} '
            f'c={sorted(r.cookies.items())} h={r.headers.get("X-V")}')


PROBES = ('user', '_token', 'app.key')


def make_pre_ext(sets):
    """login-then-anonymous pattern: the handler stores extension attributes / items on the reused
    request object and answers with what it then reads back"""
    def pre(app, kw=None):
        r = app.request
        for k, v in sets:
            if k == 'app.key':
                r[k] = v
            else:
                setattr(r, k, v)
        out = []
        for n in PROBES:
            if n == 'app.key':
                v = r.get(n, '-')
            else:
                try:
                    v = getattr(r, n)
                except AttributeError:
                    v = '-'
            out.append(f'{n}={v}')
        return ';'.join(out)
    return pre


STATIC = {}
STATIC_MTIME = 1_600_000_000
STATIC_DATA = bytes((i * 7 + 3) % 251 for i in range(40))


def static_root():
    """a directory with one file of known content and date (removed at exit)"""
    import atexit
    import os
    import shutil
    import tempfile
    if 'root' not in STATIC:
        root = tempfile.mkdtemp(prefix='c09_', dir=os.environ.get('VERIF_TMP'))
        for name in ('data.bin', 'note.txt'):
            p = os.path.join(root, name)
            with open(p, 'wb') as f:
                f.write(STATIC_DATA)
            os.utime(p, (STATIC_MTIME, STATIC_MTIME))
        STATIC['root'] = root
        atexit.register(shutil.rmtree, root, True)
    return STATIC['root']


class _FrozenTime:
    @staticmethod
    def time():
        return 1_700_000_000.0


def make_pre_helper(hp):
    """the handler answers with the object a framework helper builds for this request:
    static_file (plain / Range / If-Modified-Since / download / missing), redirect, abort"""
    def pre(app, kw=None):
        import importlib
        import time as real_time
        from ombott import HTTPResponse
        ss = importlib.import_module('ombott.static_stream')
        om = importlib.import_module('ombott.ombott')
        if hp['helper'] == 'static':
            ss.time = _FrozenTime            # the Date header of a 304 is the clock: frozen for the comparison
            try:
                return ('obj', 'ret', ss.static_file(hp['name'], hp['root'], download=hp.get('download', False)))
            finally:
                ss.time = real_time
        try:
            if hp['helper'] == 'redirect':
                om.redirect(hp['location'], hp.get('code'))
            else:
                om.abort(hp['code'], hp['text'])
        except HTTPResponse as r:
            return ('obj', 'rr', r)
    return pre


PRE = {'body': _pre_body, 'bodyecho': _pre_bodyecho, 'json': _pre_json, 'reqerr': _pre_reqerr, 'upload': _pre_upload, 'wild': _pre_wild}


def pre_of(h):
    if h.get('helper'):
        return make_pre_helper(h['helper'])
    if h.get('ext') is not None:
        return make_pre_ext(h['ext'])
    return PRE.get(h['pre'])


SHARED = {'E': ('r', True, dict(status=403, headers=[('X-S', 's')], cookies=[]), ('t', 'denied')),
          'E2': ('r', True, dict(status=409, headers=[], cookies=[]), ('f', 'none')),
          'E3': ('r', True, dict(status=422, headers=[], cookies=[]), ('t', 'it\'s <b> & "q" \\ é')),
          'R': ('r', False, dict(status=200, headers=[('X-S', 'r')], cookies=[('sc', '1')]), ('t', 'shared body'))}

# an application's own errors_map (class name -> status, body), text with characters rendering transforms
CUSTOM_ERRORS = {'RequestError': (400, 'bad <request> & "co"'), 'BodySizeError': ('413 Too big, isn\'t it', 'it\'s too <big>'),
                 'BodyParsingError': (422, 'can\'t parse <body> & "x" \\')}


RAISE_SINGLETONS = [True]


def plain_spec():
    return dict(before=[], after=[], errh=[], shared=dict(SHARED))


def multipart_body(boundary, parts):
    out = []
    for name, filename, ctype, extra, content in parts:
        disp = f'Content-Disposition: form-data; name="{name}"' + (f'; filename="{filename}"' if filename else '')
        lines = [disp] + ([f'Content-Type: {ctype}'] if ctype else []) + [f'{k}: {v}' for k, v in extra]
        out.append(('--' + boundary + '\r\n' + '\r\n'.join(lines) + '\r\n\r\n').encode('ascii') + content + b'\r\n')
    out.append(('--' + boundary + '--\r\n').encode('ascii'))
    return b''.join(out)

# body-error kinds: (pre, request body, extra environ, class raised through BaseRequest._raise; a trailing
# '+' = raised while a ValueError with a live traceback is being handled, which the shared error's
# __context__ then keeps until the next raise)
BODY_KINDS = {
    'chunked-garbage': ('body', b'zz\r\nxx', {'HTTP_TRANSFER_ENCODING': 'chunked'}, 'BodyParsingError'),
    'chunked-truncated': ('body', b'5\r\nab', {'HTTP_TRANSFER_ENCODING': 'chunked'}, 'BodyParsingError'),
    'oversize': ('body', b'x' * 1200, {'CONTENT_LENGTH': '1200'}, 'BodySizeError'),
    'oversize-chunked': ('body', b'4b1\r\n' + b'y' * 0x4b1 + b'\r\n0\r\n\r\n', {'HTTP_TRANSFER_ENCODING': 'chunked'},
                         'BodySizeError'),
    'bad-json': ('json', b'{x', {'CONTENT_LENGTH': '2', 'CONTENT_TYPE': 'application/json'}, 'BodyParsingError'),
    'request-error': ('reqerr', b'', {}, 'RequestError'),
    'good-body': ('body', b'hello', {'CONTENT_LENGTH': '5'}, None),
}

DEFAULT_MEMFILE = 100 * 1024


def memfile_of(spec):
    """max_memfile_size of the history's application (bodies longer than that are spooled to a temporary file)"""
    return (spec or {}).get('memfile') or DEFAULT_MEMFILE


def maxbody_of(spec):
    return (spec or {}).get('maxbody', MAX_BODY)


# bodies whose length straddles max_memfile_size (in memory / spooled to a temporary file), read by the handler:
# echoed back (length + digest, read twice), chunked, as a multipart upload, or only touched
UPLOAD_MEMFILE = 700    # smallest max_memfile_size the generated multipart uploads (headers + form values) fit into
SPOOL_KINDS = ['spool-body', 'spool-chunked', 'spool-upload', 'spool-read']

# CGI meta-variables / headers with values the framework cannot parse.  They are handed over by the
# "server" at call time (`late`), so that nothing but the application itself ever sees them.
MALFORMED_META = {
    'CONTENT_LENGTH': ['3 bytes', '0x10', 'abc', '1e3', '-', '1.5', '1,5', '+-1', '12\x00'],
    'CONTENT_TYPE': ['multipart/form-data', 'multipart/form-data; boundary=', ';;', 'application/json; charset', '/'],
    'HTTP_COOKIE': ['=;=;', ';;', 'a', 'a=b=c;;=', '\xff=\xfe', 'k="unterminated'],
    'HTTP_RANGE': ['bytes=a-b', 'nonsense', 'bytes=9-1'],
    'HTTP_IF_MODIFIED_SINCE': ['yesterday', '0'],
    'HTTP_CONTENT_LENGTH': ['x'],
    'SERVER_PROTOCOL': ['HTTP/x', ''],
}
# outcomes a request with malformed meta-variables may have (the handler never looks at them)
MALFORMED_BASES = ['ok-text', 'ok-cookie', 'nf', 'na', 'crash', 'badpath', 'head', 'ret-error', 'raise-resp', 'ok-text',
                   'ok-cookie']

HELPER_KINDS = ['static', 'static', 'static-range', 'static-ims', 'static-download', 'static-head', 'static-missing',
                'redirect', 'abort']

KINDS = ['custom-status', 'ok-text', 'ok-cookie', 'ok-zoo', 'nf', 'na', 'badpath', 'crash', 'raise-resp', 'ret-error', 'head',
         'iterable', 'cookie-then-body-error', 'upload', 'upload', 'app-error', 'app-resp', 'login', 'whoami', 'whoami',
         'wild', 'malformed-meta', 'malformed-meta', 'malformed-length-read'] + SPOOL_KINDS + list(BODY_KINDS)


def spool_payload(rid, size):
    seedb = bytes((rid * 31 + i * 7) % 251 for i in range(64)) + b'\r\n--bnd'
    return (seedb * (size // len(seedb) + 1))[:size]


def chunked_encode(rng, payload, M):
    """(a chunk header line has to fit into max_memfile_size = M bytes, else the framework answers 400)"""
    out, i = [], 0
    while i < len(payload):
        k = rng.choice([1, 3, 16, 1000, 70000])
        while len('%x' % k) + 2 > M:
            k //= 16
        piece = payload[i:i + max(k, 1)]
        ext = rng.choice([b'', b'', b';ext=1'])
        if len('%x' % len(piece)) + len(ext) + 2 > M:
            ext = b''
        out.append(b'%x%s\r\n' % (len(piece), ext) + piece + b'\r\n')
        i += len(piece)
    out.append(b'0\r\n\r\n')
    return b''.join(out)


def gen_hreq(g, rng, rid, kind=None, spec=None, force=None):
    """-> dict(req=zoo request, kind, body, extra, pre, bodyerr)"""
    kind = kind or rng.choice(KINDS)
    if kind == 'malformed-meta':
        # any outcome, served for a request that carries unparsable meta-variables
        base = rng.choice(MALFORMED_BASES)
        h = gen_hreq(g, rng, rid, base, spec, force)
        late = {k: rng.choice(MALFORMED_META[k]) for k in rng.sample(sorted(MALFORMED_META), rng.choice([1, 1, 2, 3]))}
        if rng.random() < .6:
            late['CONTENT_LENGTH'] = rng.choice(MALFORMED_META['CONTENT_LENGTH'])
        if base not in ('na', 'head') and rng.random() < .6:
            h['req']['method'] = rng.choice(['POST', 'PUT'])
            h['body'] = b'a=1'
        h.update(kind=kind, base=base, late=late)
        return h
    if kind in ('upload', 'spool-upload') and spec is not None and memfile_of(spec) < UPLOAD_MEMFILE:
        # (part headers and plain form values of an upload have to fit into max_memfile_size, else the answer is 413)
        kind = rng.choice(['spool-body', 'spool-chunked'])
    req = dict(id=rid, method='GET', fw=rng.random() < .3, path_ok=True,
               tail=rng.choice(['', '', 'a', 'u%d' % rid, '<i>&"\'', 'é€']), query=rng.choice(['', 'a=1', 'r=%d' % rid]),
               route=None)
    body, extra, pre, bodyerr, ext, helper, late = b'', {}, None, None, None, None, None
    ck = lambda: ('ck', rng.choice(zoo.CK_NAMES), rng.choice(zoo.CK_VALS))
    sh = lambda: ('sh', rng.choice(['X-A', 'X-B', 'ETag']), rng.choice(['v', '1', 'r%d' % rid]))
    if kind == 'ok-text':
        req['route'] = ('h', [], ('ret', ('t', g.text())))
    elif kind == 'ok-cookie':
        req['route'] = ('h', [ck(), sh(), ('st', rng.choice([200, 201, 202, 299]))] + ([ck()] if rng.random() < .5 else []),
                        ('ret', ('b', g.bytesv())))
    elif kind == 'ok-zoo':
        req['route'] = g.route()
        if req['route'][0] == 'na':
            req['route'] = ('nf',)
        req['method'] = rng.choice(['GET', 'HEAD', 'POST'])
    elif kind == 'nf':
        req['route'] = ('nf',)
    elif kind == 'na':
        req['route'] = ('na', ['GET', 'PUT'])
        req['method'] = 'POST'
    elif kind == 'badpath':
        req['route'] = ('h', [ck()], ('ret', ('t', 'never')))
        req['path_ok'] = False
    elif kind == 'crash':
        req['route'] = ('h', [ck()] if rng.random() < .5 else [], ('ex',))
    elif kind == 'raise-resp':
        req['route'] = ('h', [sh()], ('rr', ('r', False, dict(status=rng.choice([200, 302, 401]), headers=[('X-R', 'r%d' % rid)],
                                                           cookies=[('rc', 'v%d' % rid)]), ('t', 'raised'))))
    elif kind == 'ret-error':
        req['route'] = ('h', [ck()], ('ret', ('r', True, dict(status=rng.choice([418, 403, 500]), headers=[], cookies=[]),
                                            ('t', 'err%d' % rid))))
    elif kind == 'head':
        req['route'] = ('h', [ck()], ('ret', ('t', g.text())))
        req['method'] = 'HEAD'
    elif kind == 'iterable':
        req['route'] = ('h', [], ('ret', ('it', g.nid(), True, [('e', None), ('t', 'a'), ('t', 'b%d' % rid)], 'cls')))
    elif kind == 'upload':
        parts = []
        for j in range(rng.choice([1, 2, 3])):
            if rng.random() < .75:
                parts.append((rng.choice(['f', 'g', 'doc']), rng.choice(['a.txt', 'b.bin', 'c d.txt']),
                              rng.choice([None, None, 'text/plain', 'application/octet-stream']),
                              rng.choice([[], [], [('X-P%d' % rid, 'v%d' % j)], [('Content-Transfer-Encoding', 'binary')],
                                          [('X-Note', 'n%d' % rid), ('X-P%d' % (rid % 7), 'w')]]),
                              rng.choice([b'hello', b'', b'x' * 20, b'\xff\x00', b'r%d' % rid])))
            else:
                parts.append((rng.choice(['t', 'u']), None, None, [], rng.choice([b'text', b'', b'v%d' % rid])))
        boundary = 'bnd%d' % rid
        body = multipart_body(boundary, parts)
        extra = {'CONTENT_TYPE': 'multipart/form-data; boundary=' + boundary, 'CONTENT_LENGTH': str(len(body))}
        pre = 'upload'
        req['route'] = ('h', [ck()] if rng.random() < .3 else [], ('ret', ('t', 'upload-description')))
        req['method'] = 'POST'
    elif kind in ('app-error', 'app-resp'):
        key = (force or {}).get('key') or (rng.choice(['E', 'E2', 'E3', 'E3']) if kind == 'app-error' else 'R')
        # raised or returned (d1483c6: `_handle` drops the traceback of a raised response it catches)
        how = rng.choice(['rr', 'ret']) if kind == 'app-error' and RAISE_SINGLETONS[0] else 'ret'
        req['route'] = ('h', [ck()] if rng.random() < .3 else [], (how, ('sh', key)))
        if rng.random() < .3:
            req['method'] = 'HEAD'
    elif kind == 'custom-status':
        # an unlisted code with a reason phrase in one request, the bare code in another
        code = (force or {}).get('code') or rng.choice([799, 298, 599])
        how = (force or {}).get('how', rng.randrange(5))
        if how == 0:
            req['route'] = ('h', [('sl', '%d Quota exceeded' % code)], ('ret', ('t', g.text())))
        elif how == 1:
            req['route'] = ('h', [('st', code)], ('ret', ('t', g.text())))
        elif how == 2:
            req['route'] = ('h', [], (rng.choice(['ret', 'rr']), ('r', True, dict(status=code, headers=[], cookies=[]), ('t', 'plain %d' % rid))))
        elif how == 3:
            req['route'] = ('h', [], ('ret', ('r', True, dict(status='%d Over quota' % code, headers=[], cookies=[]), ('t', 'phrase %d' % rid))))
        else:
            req['route'] = ('h', [], ('ret', ('r', False, dict(status=code, headers=[], cookies=[]), ('t', 'resp %d' % rid))))
    elif kind in HELPER_KINDS:
        hp = dict(helper='static', root=static_root(), name='data.bin')
        if kind == 'static-range':
            extra = {'HTTP_RANGE': rng.choice(['bytes=2-5', 'bytes=-7', 'bytes=30-', 'bytes=90-99'])}
        elif kind == 'static-ims':
            import email.utils
            extra = {'HTTP_IF_MODIFIED_SINCE': email.utils.formatdate(STATIC_MTIME + rng.choice([0, 3600]), usegmt=True)}
        elif kind == 'static-download':
            hp['download'] = rng.choice([True, 'report-%d.bin' % rid])
        elif kind == 'static-head':
            req['method'] = 'HEAD'
        elif kind == 'static-missing':
            hp['name'] = 'nope-%d.bin' % rid
        elif kind == 'redirect':
            hp = dict(helper='redirect', location=rng.choice(['/next/%d' % rid, 'rel?x=%d' % rid, 'http://other/%d' % rid]),
                      code=rng.choice([None, 301, 307]))
        elif kind == 'abort':
            hp = dict(helper='abort', code=rng.choice([401, 403, 410, 799]), text='no <entry> for "%d" & it\'s final' % rid)
        if kind == 'static' and rng.random() < .3:
            hp['name'] = 'note.txt'
        req['route'] = ('h', [ck(), sh()] if rng.random() < .4 else [], ('ret', ('t', 'helper-object')))
        helper = hp
    elif kind in ('login', 'whoami'):
        ext = []
        if kind == 'login':
            ext = rng.sample([('user', 'u%d' % rid), ('_token', 't%d' % rid), ('app.key', 'k%d' % rid)], rng.choice([1, 2, 3]))
        req['route'] = ('h', [ck()] if rng.random() < .2 else [], ('ret', ('t', 'probe')))
    elif kind == 'wild':
        fl = rng.choice(list(zoo.WILD_RULES))
        val = {'s': 'v%d' % rid, 'i': str(rid * 7 - 3), 'f': '%d.%d' % (rid, rid % 10), 'r': 'ab' + 'c' * (rid % 5) + str(rid),
               'p': 'a/b%d/c' % rid, 'x': rng.choice('qz') + 'k%d' % rid, 'c': 'w%d' % rid}[fl]
        req['wild'] = (fl, val)
        req['query'] = 'n=%d&m=x%d' % (rid, rid * 3)
        extra = {'HTTP_COOKIE': 'c=v%d; d=%d' % (rid, rid), 'HTTP_X_V': 'hv%d' % rid}
        pre = 'wild'
        req['route'] = ('h', [], ('ret', ('t', 'wild-description')))
    elif kind in SPOOL_KINDS:
        M, cap = memfile_of(spec), maxbody_of(spec)
        size = rng.choice([M - 1, M, M + 1, M + 1, M + 2, 2 * M + 3, M + 7])
        if kind == 'spool-upload':
            size = min(rng.choice([M - 400, M - 250, M - 100, M + 1]), 600)   # (+ ~250 bytes of part headers and a form field)
        if cap is not None:
            size = min(size, cap - (300 if kind == 'spool-upload' else 0))
        payload = spool_payload(rid, max(size, 0))
        how = kind
        if kind == 'spool-read':
            how = rng.choice(['spool-body', 'spool-chunked'])
        if kind == 'spool-upload':
            boundary = 'bnd%d' % rid
            body = multipart_body(boundary, [('t', None, None, [], b'v%d' % rid),
                                             ('f', 'big%d.bin' % rid, 'application/octet-stream', [], payload)])
            extra = {'CONTENT_TYPE': 'multipart/form-data; boundary=' + boundary, 'CONTENT_LENGTH': str(len(body))}
            pre = 'upload'
        elif how == 'spool-chunked':
            body = chunked_encode(rng, payload, M)
            extra = {'HTTP_TRANSFER_ENCODING': 'chunked'}
            pre = 'bodyecho' if kind != 'spool-read' else 'body'
        else:
            body = payload
            extra = {'CONTENT_LENGTH': str(len(body)), 'CONTENT_TYPE': rng.choice(['application/octet-stream', 'text/plain'])}
            pre = 'bodyecho' if kind != 'spool-read' else 'body'
        req['route'] = ('h', [ck()] if rng.random() < .3 else [], ('ret', ('t', 'body-ok')))
        req['method'] = rng.choice(['POST', 'PUT'])
    elif kind == 'malformed-length-read':
        # the handler reads the body of a request whose Content-Length is not a number: `int()` raises a
        # ValueError that goes through no errors_map (a handler crash)
        late = {'CONTENT_LENGTH': rng.choice(MALFORMED_META['CONTENT_LENGTH'])}
        pre, body, bodyerr = 'body', b'a=1', '!ValueError'
        req['route'] = ('h', [ck(), sh()] if rng.random() < .6 else [], ('ret', ('t', 'unreached')))
        req['method'] = 'POST'
        force = dict(force or {}, json=False)     # (the JSON error body shows the exception text)
    elif kind == 'cookie-then-body-error':
        k = rng.choice([x for x in BODY_KINDS if BODY_KINDS[x][3]])
        pre, body, extra, bodyerr = BODY_KINDS[k]
        req['route'] = ('h', [ck(), sh()], ('ret', ('t', 'unreached')))
        req['method'] = 'POST'
    else:
        pre, body, extra, bodyerr = BODY_KINDS[kind]
        req['route'] = ('h', [], ('ret', ('t', 'body-ok')))
        req['method'] = 'POST'
    want_json = (force or {}).get('json')
    if spec is not None and (rng.random() < .3 if want_json is None else want_json) and zoo.json_safe(spec, req):
        req['json'] = True       # JSON error bodies (same mapped error, other representation)
    return dict(req=req, kind=kind, body=body, extra=dict(extra), pre=pre, bodyerr=bodyerr, ext=ext, helper=helper,
                late=late)


def class_state_snapshot():
    """fingerprints of every class-level / module-level mutable container of the package and of
    the shared error objects (what could carry state from one request to a later one besides the
    per-thread request / response objects)"""
    import inspect
    import re
    import sys
    strip = lambda x: re.sub(r'0x[0-9a-f]+', '0x', repr(x))
    snap = {}
    for mn, mod in sorted(sys.modules.items()):
        if not (mn == 'ombott' or mn.startswith('ombott.')) or mod is None:
            continue
        for name, obj in list(vars(mod).items()):
            if name.startswith('__'):
                continue
            if isinstance(obj, (dict, list, set)):
                snap[f'{mn}:{name}'] = (len(obj), strip(obj))
            if inspect.isclass(obj) and obj.__module__ == mn:
                for an, av in list(vars(obj).items()):
                    if an.startswith('__') and an.endswith('__'):
                        continue
                    if isinstance(av, (dict, list, set)):
                        snap[f'{mn}:{obj.__name__}.{an}'] = (len(av), strip(av))
    om = sys.modules['ombott.ombott']
    for cls, e in om.DefaultConfig.errors_map.items():
        depth, tb = 0, e.__traceback__
        while tb is not None:
            depth, tb = depth + 1, tb.tb_next
        snap[f'errors_map[{cls.__name__}]'] = (
            e._status_code, e._status_line, strip(e._headers), e._cookies.output() if e._cookies else None,
            strip(e.body), strip(e.exception), strip(e.traceback), sorted(getattr(e, '__dict__', {})), depth)
    return snap


def container_sizes():
    """len() of every class-level / module-level container of the package and the current size of every
    functools cache whose wrapped function lives in the package (closures of route filters included:
    the wrappers are found through the collector, not by name)"""
    import functools
    import inspect
    import sys
    out = {}
    for mn, mod in sorted(sys.modules.items()):
        if not (mn == 'ombott' or mn.startswith('ombott.')) or mod is None:
            continue
        for name, obj in list(vars(mod).items()):
            if name.startswith('__'):
                continue
            if isinstance(obj, (dict, list, set)):
                out[f'{mn}:{name}'] = len(obj)
            if inspect.isclass(obj) and obj.__module__ == mn:
                for an, av in list(vars(obj).items()):
                    if not (an.startswith('__') and an.endswith('__')) and isinstance(av, (dict, list, set)):
                        out[f'{mn}:{obj.__name__}.{an}'] = len(av)
    for o in gc.get_objects():
        if isinstance(o, functools._lru_cache_wrapper):
            w = getattr(o, '__wrapped__', None)
            mod = getattr(w, '__module__', '') or ''
            if mod == 'ombott' or mod.startswith('ombott.'):
                key = f'cache:{mod}.{getattr(w, "__qualname__", "?")}'
                out[key] = out.get(key, 0) + o.cache_info().currsize
    return out


class Server:
    """one real application that serves a history (all routes of the zoo installed lazily)"""

    def __init__(self, spec, fresh_errors=False):
        self.log = zoo.Log()
        config = dict(max_body_size=maxbody_of(spec), max_memfile_size=memfile_of(spec))
        if fresh_errors:
            import importlib
            om = importlib.import_module('ombott.ombott')
            from ombott import HTTPError
            config['errors_map'] = {cls: HTTPError(e._status_line, str(e.body))
                                    for cls, e in om.DefaultConfig.errors_map.items()}
        if spec.get('errors_map'):
            import importlib
            from ombott import HTTPError
            rq = importlib.import_module('ombott.request_pkg.errors')
            config['errors_map'] = {getattr(rq, cls): HTTPError(st, body) for cls, (st, body) in spec['errors_map'].items()}
        config['catchall'] = bool(spec.get('catchall', True))
        self.app = zoo.make_app(spec, self.log)
        self.app.setup(config)
        self.cur = dict(routes=set(), prog=None)
        self.late = None
        self.fw, self.seen, self.shared_ids, self.count = [], {}, set(), 0
        self.interpose()

    def interpose(self):
        """the "server" side of the WSGI call: hands over the request's late meta-variables (the values a
        client controls and that the harness itself must not parse) and, after the application returned,
        takes weak references to the per-request objects the framework made (whatever hangs off the
        environ: the body stream that replaced wsgi.input, parsed forms / uploads / cookies, ...)"""
        app = self.app
        orig = type(app).wsgi.__get__(app)
        srv = weakref.ref(self)

        def wsgi(environ, start_response):
            me = srv()
            if me is not None and me.late:
                environ.update(me.late)
            try:
                return orig(environ, start_response)
            finally:
                if me is not None:
                    me.scan(environ)
        app.__dict__['wsgi'] = wsgi

    def scan(self, environ):
        import types
        idx, self.count = self.count, self.count + 1
        app = self.app
        own = (app, app.request, app.response, self.log)
        atoms = (str, bytes, int, float, bool, type, types.FunctionType, types.MethodType, types.BuiltinFunctionType,
                 types.ModuleType)

        def track(o, depth):
            if o is None or isinstance(o, atoms) or any(o is x for x in own):
                return
            try:
                r = weakref.ref(o)
            except TypeError:
                r = None
            if r is not None:
                prev = self.seen.get(id(o))
                if prev is not None and prev[1]() is o:
                    if prev[0] != idx:
                        self.shared_ids.add(id(o))      # lives across requests: not a per-request object
                    return
                self.seen[id(o)] = (idx, r)
                self.fw.append((idx, r))
            if depth <= 0:
                return
            if isinstance(o, dict):
                for x in list(o.values()):
                    track(x, depth - 1)
            elif isinstance(o, (list, tuple)):
                for x in o:
                    track(x, depth - 1)
            else:
                for name in ('dict', 'file', 'ombott_markup'):
                    try:
                        x = getattr(o, name, None)
                    except Exception:
                        x = None
                    if x is not None:
                        track(x, depth - 1)
        for v in list(environ.values()):
            track(v, 3)

    def live_requests(self, keep=None):
        """numbers of the requests of which some per-request object (environ, original input stream,
        framework-made object) is still alive"""
        alive = set()
        for i, r in enumerate((keep or [])[0::2]):
            if r() is not None:
                alive.add(i)
        for i, r in enumerate((keep or [])[1::2]):
            if r() is not None:
                alive.add(i)
        for idx, r in self.fw:
            o = r()
            if o is not None and id(o) not in self.shared_ids:
                alive.add(idx)
            del o
        return alive

    def serve_obs(self, h, keep=None, validate=False):
        self.late = h.get('late')
        return zoo.serve_one(self.app, self.log, self.cur, h['req'], body=h['body'], extra=h['extra'], pre=pre_of(h),
                             validate=validate, env_cls=dict if validate else Env, input_cls=In, keep=keep)

    def serve(self, h, keep=None):
        """-> (status, headers, body bytes, urlrepr); `keep` collects weak references"""
        o = self.serve_obs(h, keep)
        if o['escaped']:
            return ('escaped ' + o['escaped'], [], o['data'], o['urlrepr'], o['described'])
        if len(o['starts']) != 1:
            return ('start_response x%d' % len(o['starts']), [], o['data'], o['urlrepr'], o['described'])
        return (o['starts'][0][0], o['starts'][0][1], o['data'], o['urlrepr'], o['described'])


def show(resp):
    st, hd, data = resp[:3]
    return f'{hs(st)}|{",".join(hs(k) + ":" + hs(v) for k, v in hd) if hd else "~"}|{hb(data)}'


def ser_hreq(h, urlrepr):
    req = h['req']
    if h.get('helper'):
        # the value of the object the framework helper built, as a pristine process reports it
        res = h.get('model_res') or ('ret', ('t', 'unreached'))
        req = dict(req, route=('h', req['route'][1], res))
    if h.get('said') is not None:
        # what the handler read from the request, as a pristine process reports it
        req = dict(req, route=('h', req['route'][1], ('ret', ('t', h['said']))))
    ext = h.get('ext')
    exts = ['-'] if ext is None else [str(len(ext))] + [x for k, v in ext for x in (hs(k), hs(v))]
    res = req['route'][2] if req['route'][0] == 'h' else ()
    sg = str(sorted(SHARED).index(res[1][1])) if len(res) > 1 and res[1][0] == 'sh' else '-'
    return zoo.ser_req(req, urlrepr) + [h['bodyerr'] or '-', sg] + exts


def ser_errors_map(spec):
    """the application's own errors_map for the model (empty = the default one of Gen/Wsgi.lean)"""
    m = spec.get('errors_map')
    if not m:
        return ['0']
    from ombott import HTTPError
    toks = [str(len(m))]
    for cls, (st, body) in m.items():
        e = HTTPError(st, body)
        toks += [cls, str(e._status_code), hs(e._status_line), hs(body)]
    return toks


def fixed_app(g, rng):
    """hooks / error handlers of a history's application"""
    r = rng.random()
    if r < .4:
        spec = plain_spec()
    else:
        spec = g.app()
    if rng.random() < .3:
        spec['default_app'] = True        # static_file / redirect work on the default application
    if rng.random() < .2:
        spec['errors_map'] = dict(CUSTOM_ERRORS)
    if rng.random() < .5:
        spec['memfile'] = rng.choice([8, 16, 64, UPLOAD_MEMFILE, UPLOAD_MEMFILE])     # request bodies of the history straddle the spooling threshold
    if r < .4:
        return spec
    spec.pop('edits', None)          # C09's application is fixed over the history
    spec.pop('catchall', None)
    spec['shared'] = dict(SHARED)
    return spec


class C09(Check):
    pid = 'C09'
    props_mod = 'OmbottModel.Props.C09'
    tables = ['wsgi']
    design_ref = '6/C09'
    level_category = 'proof'
    level_text = ('Lean theorems over the state-threaded model of the request path (per-thread request/response slots, '
                  'shared error objects of errors_map with their traceback chains): the response to a request after any '
                  'history equals its response on a fresh application, and the set of retained requests is bounded by a '
                  'numeral; model tied to the code by differential runs of request histories on one real Ombott(), '
                  'a fresh-application oracle and weak-reference counting.')
    level_note_extra = ('object liveness is a CPython runtime fact: the retention half is a theorem about the model plus a '
                        'weak-reference measurement (partial); body parsing itself is abstracted to "reading the body '
                        'raises class X" (C04/C05/C12 cover the parsers)')
    anchors = ['ombott/ombott.py', 'ombott/response.py', 'ombott/request_pkg/request.py', 'ombott/request_pkg/body_mixin.py']
    rule = ('request histories of length 1..12 over 19 request kinds (text, cookies+headers+status, zoo programs, 404, 405, '
            'undecodable path, handler crash, raised response with cookies, returned error, HEAD, closable iterable, '
            'malformed/truncated chunked body, oversized body (Content-Length and chunked), invalid JSON, mapped '
            'RequestError, cookie then body error, unparsable meta-variables (Content-Length / Content-Type / Cookie / '
            'Range ...) handed over at call time with any outcome, a handler reading the body of a request whose '
            'Content-Length is not a number, bodies straddling max_memfile_size (8..700 bytes and the default 100 KiB: '
            'in memory / spooled; Content-Length, chunked, multipart; echoed back)) on one application with random '
            'hooks/error handlers; each response '
            'compared with the model and with a fresh application; retention after N requests of one kind '
            'measured by weak references (environ, wsgi.input, every framework-made object hanging off the environ) '
            'and by the descriptors left open; non-trivial = history of length >= 2 containing a state-setting request '
            'followed by an error-path request')
    assumptions = [
        'one worker thread (thread-local slots are C08)',
        'reading the request body is abstracted to the class it raises through BaseRequest._raise',
        'garbage collection / reference counting of CPython decides liveness; weak references to environ and '
        'wsgi.input objects are counted after gc.collect()',
        'the application uses the default errors_map (class-level shared HTTPError objects); the fresh application of '
        'the oracle gets error objects rebuilt from their status and body, so that state left on the shared objects '
        'is visible as a difference',
        'assumptions of C03 about the handler zoo',
        'application code may store extension attributes / items on the reused request object (request.user = v, '
        'request._token = v, request[key] = v): modelled as living in the per-request environ; the probing handler '
        'kinds (login / whoami) answer with what they read back',
        'retention bound: stated for applications whose after_request hooks do not raise, or that raise no '
        'module-level response object of their own (theorem singleton_residue shows the remaining corner); the '
        'retention measurements use hook-free applications',
        'handlers behind wildcard rules and upload handlers answer with what they read; that text is obtained from '
        'the pristine reference process and shipped to the model (routing and multipart parsing are C01/C07)',
    ]

    def budget(self, tier, escalated):
        n = 300 if tier == 'quick' else 5000
        return n * (3 if escalated and tier == 'quick' else 1)

    def nontrivial(self, sample):
        return bool(sample.get('nontrivial'))

    # ------------------------------------------------------------------
    def gen_history(self, g, rng, spec=None):
        n = rng.choice([1, 2, 2, 3, 3, 4, 5, 6, 8, 10, 12])
        hist = []
        for i in range(n):
            kind = None
            if i and rng.random() < .35:
                # the carry-over sites: an error path right after a state-setting request
                kind = rng.choice(['badpath', 'nf', 'na', 'crash', 'chunked-garbage', 'oversize', 'bad-json',
                                   'request-error', 'cookie-then-body-error', 'malformed-meta', 'malformed-meta',
                                   'malformed-length-read'])
            elif rng.random() < .25:
                kind = rng.choice(['ok-cookie', 'raise-resp', 'login'])
            if spec is not None and spec.get('default_app') and rng.random() < .25:
                kind = rng.choice(HELPER_KINDS)
            if hist and any(h['kind'] == 'login' for h in hist[-2:]) and rng.random() < .5:
                kind = 'whoami'          # login-then-anonymous, directly or across one other request
            hist.append(gen_hreq(g, rng, i + 1, kind, spec))
        if spec is not None and rng.random() < .45:
            # a framework object that one request re-renders / mutates and a later request shows
            at = rng.randrange(len(hist) + 1)
            pat = []
            r = rng.random()
            if spec.get('default_app') and r < .5:
                mid = rng.sample([k for k in HELPER_KINDS if k != 'static'], rng.choice([1, 2]))
                pat = [('static', None)] + [(k, None) for k in mid] + [('static', None)]
            elif r < .7:
                k = rng.choice(['app-error', 'chunked-garbage', 'oversize', 'bad-json', 'request-error', 'abort'
                                if spec.get('default_app') else 'app-error'])
                j0 = rng.random() < .5
                pat = [(k, dict(key='E3', json=(j0 if i % 2 == 0 else not j0))) for i in range(rng.choice([3, 4]))]
            else:
                code = rng.choice([799, 298])
                pat = [('custom-status', dict(code=code, how=rng.choice([0, 3]))),
                       ('custom-status', dict(code=code, how=rng.choice([1, 2, 4]), json=rng.random() < .3))]
                if rng.random() < .5:
                    pat.insert(1, (rng.choice(['nf', 'crash', 'ok-text']), None))
            hist[at:at] = [gen_hreq(g, rng, 0, k, spec, force=f) for k, f in pat]
            hist = hist[:14]
            for i, h in enumerate(hist):
                h['req']['id'] = i + 1
        return hist

    def describe_uploads(self, hist, spec=None):
        """for requests whose handler answers with what it read (uploads): obtain that text from a
        pristine process, served on an application without hooks, for the model's line"""
        helped = [h for h in hist if h.get('helper')]
        if helped:
            for h, r in zip(helped, self.reference().serve(spec, helped)):
                if r and r[0] == 'EXC':
                    raise core.Infra(f'{h["kind"]} reference raised {r[1]}')
                h['model_res'] = r[4]
        ups = [h for h in hist if h['pre'] in ('upload', 'wild', 'bodyecho')]
        if not ups:
            return
        plain = [dict(h, req=dict(h['req'], route=('h', [], h['req']['route'][2]), json=False)) for h in ups]
        cfg = {k: spec[k] for k in ('memfile', 'maxbody') if spec and k in spec}
        for h, r in zip(ups, self.reference().serve(dict(plain_spec(), **cfg), plain)):
            if r[0] != '200 OK':
                raise core.Infra(f'{h["kind"]} reference answered {r[0]}')
            h['said'] = r[2].decode('utf8')

    def run_history(self, spec, hist, retention=False):
        srv = Server(spec)
        keep = [] if retention else None
        outs, urls = [], []
        for h in hist:
            r = srv.serve(h, keep)
            outs.append(r)
            urls.append(r[3])
        live = None
        if retention:
            gc.collect()
            live = len(srv.live_requests(keep))
        return outs, urls, live

    def corr(self, rng, n):
        try:
            return self._corr(rng, n)
        finally:
            self.close_reference()

    def _corr(self, rng, n):
        out = []
        stats = self.stats = dict(histories=0, requests=0, kinds={}, lengths={}, statuses={}, retention_runs=0)
        g = zoo.Gen(rng)
        for _ in range(n):
            spec = fixed_app(g, rng)
            hist = self.gen_history(g, rng, spec)
            self.describe_uploads(hist, spec)
            outs, urls, live = zoo.watchdog(lambda: self.run_history(spec, hist, retention=True), 60)
            toks = zoo.ser_app(spec) + ser_errors_map(spec) + [str(len(hist))]
            for h, u in zip(hist, urls):
                toks += ser_hreq(h, u)
            ans = ';'.join(show(o) for o in outs) + f' retained={live}'
            kinds = [h['kind'] for h in hist]
            setters = {'ok-cookie', 'raise-resp', 'ok-zoo', 'head', 'crash', 'ret-error', 'cookie-then-body-error'}
            nontrivial = any(kinds[i] in setters and kinds[i + 1] not in ('ok-text',) for i in range(len(kinds) - 1))
            out.append(('wsgi hist ' + ' '.join(toks), ans,
                        dict(kind='history', nontrivial=nontrivial, app=enc(spec), hist=enc(hist))))
            stats['histories'] += 1
            stats['requests'] += len(hist)
            stats['lengths'][len(hist)] = stats['lengths'].get(len(hist), 0) + 1
            for h, o in zip(hist, outs):
                stats['kinds'][h['kind']] = stats['kinds'].get(h['kind'], 0) + 1
                stats['statuses'][o[0][:3]] = stats['statuses'].get(o[0][:3], 0) + 1
        # retention: N identical failing requests
        sizes = [10, 100] if n < 2000 else [10, 100, 1000]
        for kind in ['chunked-garbage', 'oversize', 'bad-json', 'request-error', 'crash', 'badpath', 'nf',
                     'cookie-then-body-error', 'malformed-meta', 'malformed-length-read', 'spool-read', 'spool-upload']:
            for N in sizes:
                spec = plain_spec()
                if kind in SPOOL_KINDS:
                    spec['memfile'] = UPLOAD_MEMFILE if kind == 'spool-upload' else rng.choice([8, 16, 64])
                hist = [gen_hreq(g, rng, i + 1, kind, spec) for i in range(N)]
                self.describe_uploads(hist, spec)
                outs, urls, live = self.run_history(spec, hist, retention=True)
                toks = zoo.ser_app(spec) + ser_errors_map(spec) + [str(N)]
                for h, u in zip(hist, urls):
                    toks += ser_hreq(h, u)
                ans = ';'.join(show(o) for o in outs) + f' retained={live}'
                out.append(('wsgi hist ' + ' '.join(toks), ans,
                            dict(kind='retention', nontrivial=True, fail_kind=kind, n=N)))
                stats['retention_runs'] += 1
        return out

    # ------------------------------------------------------------------
    K_BOUND = 4     # the numeral of `retained_bounded`

    def reference(self):
        if getattr(self, '_ref', None) is None:
            from harness import c09ref
            self._ref = c09ref.Reference()
        return self._ref

    def close_reference(self):
        if getattr(self, '_ref', None) is not None:
            self._ref.close()
            self._ref = None

    def _oracle(self, spec, hist):
        """every response of a history served by one application in this process, compared with the
        same request served by a fresh application in a pristine forked process; plus the clauses
        that need no reference"""
        bad = []
        refs = self.reference().serve(spec, hist)
        srv = Server(spec)
        for i, h in enumerate(hist):
            got = srv.serve(h)[:3]
            fresh = tuple(refs[i][:3])
            if fresh and fresh[0] == 'EXC':
                bad.append(('reference-failed', f'reference run raised {fresh[1]}'))
                break
            prev = hist[i - 1]['kind'] if i else '-'
            for key, what in self._consistent(h, got):
                bad.append((key, f'request {i + 1} ({h["kind"]}) after {prev}: {what}'))
            if bad:
                break
            if got != fresh:
                what = 'status' if got[0] != fresh[0] else 'headers' if got[1] != fresh[1] else 'body'
                bad.append((f'carry-over:{what}:{h["kind"]}',
                            f'request {i + 1} ({h["kind"]}) after {prev}: {what} differs from a fresh application: '
                            f'{self._diff(got, fresh)}'))
                break
        return bad

    @staticmethod
    def _consistent(h, got):
        """clauses about one response that hold whatever came before it"""
        bad = []
        st, hd, data = got
        code = int(st[:3]) if st[:3].isdigit() else 0
        cls = [v for k, v in hd if k.lower() == 'content-length']
        bodyless = 100 <= code < 200 or code in (204, 304) or h['req']['method'] == 'HEAD'
        if cls and not bodyless and h.get('cl_is_framework', True):
            if len(cls) != 1 or not cls[0].isdigit() or int(cls[0]) != len(data):
                bad.append(('content-length', f'Content-Length {cls} but {len(data)} body bytes'))
        ctypes = [v for k, v in hd if k.lower() == 'content-type']
        if h.get('ctype_is_framework', True) and not bodyless and data:
            is_html_page = data.startswith(b'<!doctype html><html><head><title>Error: ')
            is_json_page = data.startswith(b'{"body": ') and data.endswith(b'}')
            if is_html_page and ctypes != ['text/html; charset=UTF-8']:
                bad.append(('content-type', f'HTML error page sent as {ctypes}'))
            if is_json_page and ctypes != ['application/json']:
                bad.append(('content-type', f'JSON error body sent as {ctypes}'))
        return bad

    @staticmethod
    def _diff(a, b):
        if a[0] != b[0]:
            return f'{a[0]!r} vs {b[0]!r}'
        if a[1] != b[1]:
            return f'extra {[h for h in a[1] if h not in b[1]]} missing {[h for h in b[1] if h not in a[1]]}'
        i = next((k for k in range(min(len(a[2]), len(b[2]))) if a[2][k] != b[2][k]), min(len(a[2]), len(b[2])))
        return f'body differs at byte {i}: {a[2][i:i + 60]!r} vs {b[2][i:i + 60]!r}'

    @staticmethod
    def measured_spec(kind):
        """'kind@M': the application's max_memfile_size is M bytes ('default': the framework's own 100 KiB, with no
        max_body_size so that bodies can get there)"""
        spec = plain_spec()
        kind, _, m = kind.partition('@')
        if m == 'default':
            spec['maxbody'] = None
        elif m:
            spec['memfile'] = int(m)
        return kind, spec

    @staticmethod
    def open_fds():
        import os
        try:
            return len(os.listdir('/proc/self/fd'))
        except OSError:
            return 0

    def _retention(self, kind, N, rng):
        """-> (live environs, live original input streams, requests of which a framework-made object is alive,
        descriptors opened and not closed)"""
        g = zoo.Gen(rng)
        kind, spec = self.measured_spec(kind)
        srv = Server(spec)
        keep = []
        srv.serve(gen_hreq(g, rng, 0, kind, spec))          # (imports, lazily opened resources)
        srv.fw, srv.seen, srv.count = [], {}, 0
        gc.collect()
        fds = self.open_fds()
        for i in range(N):
            srv.serve(gen_hreq(g, rng, i + 1, kind, spec), keep)
        gc.collect()
        envs = len([1 for r in keep[0::2] if r() is not None])
        inputs = len([1 for r in keep[1::2] if r() is not None])
        made = len(srv.live_requests())
        return envs, inputs, made, self.open_fds() - fds

    def _growth(self, kind, N, rng):
        """number of objects the collector tracks after N and after 2N requests of one kind (varied
        urls / bodies); a leak proportional to the number of requests shows as growth"""
        g = zoo.Gen(rng)
        kind, spec = self.measured_spec(kind)
        srv = Server(spec)
        rid = [0]

        def burst(k):
            for _ in range(k):
                rid[0] += 1
                srv.serve(gen_hreq(g, rng, rid[0], kind, spec))
                if len(srv.fw) > 64:
                    srv.fw, srv.seen = [], {}        # (the harness' own bookkeeping must not grow)
        import sys
        import tracemalloc
        tracemalloc.start()            # before the warm-up, so that replaced cache entries balance out
        burst(300)                     # warm-up: routes installed, lru caches of urllib (128 entries) saturated
        burst(N)
        container_sizes()              # (its own imports happen now, not between the two measurements)
        gc.collect()
        a, ma, ca, ba = len(gc.get_objects()), tracemalloc.get_traced_memory()[0], container_sizes(), sys.getallocatedblocks()
        ca['process:open file descriptors'] = self.open_fds()
        burst(N)
        gc.collect()
        b, mb, cb, bb = len(gc.get_objects()), tracemalloc.get_traced_memory()[0], container_sizes(), sys.getallocatedblocks()
        cb['process:open file descriptors'] = self.open_fds()
        tracemalloc.stop()
        grown = sorted((k, ca.get(k, 0), v) for k, v in cb.items() if v - ca.get(k, 0) >= max(8, N // 8))
        return a, b, ma, mb, bb - ba, grown

    def _class_state(self, kind, n, rng):
        """serve one history of every request kind (warm-up), fingerprint the class-level state, serve
        another history of the same kinds with other urls / bodies / values, fingerprint again"""
        g = zoo.Gen(rng)
        srv = Server(plain_spec())
        rid = [0]

        def one_pass():
            for k in KINDS * max(1, n):
                rid[0] += 1
                srv.serve(gen_hreq(g, rng, rid[0], k, plain_spec()))
        one_pass()
        a = class_state_snapshot()
        one_pass()
        b = class_state_snapshot()
        return [(k, str(a.get(k))[:200], str(b.get(k))[:200]) for k in sorted(set(a) | set(b)) if a.get(k) != b.get(k)]

    @staticmethod
    def grew(N, a, b, ma, mb, blocks=0):
        """growth proportional to the number of requests (lru caches of the standard library that are
        periodically cleared account for some tens of kilobytes / hundreds of blocks either way)"""
        return b - a > max(60, N // 10) or mb - ma > max(40960, 48 * N) or blocks > max(600, N // 2)

    def search(self, rng, n, seeds):
        try:
            return self._search(rng, n, seeds)
        finally:
            self.close_reference()

    def _search(self, rng, n, seeds):
        self.stats = getattr(self, 'stats', {})
        findings, evals = [], 0
        g = zoo.Gen(rng, safe_headers=True, odd_status=False)
        g.safe_names = ['X-A', 'X-B', 'ETag', 'x_y', 'Allow', 'Last-Modified']   # Content-Type stays the framework's
        cases = []
        for s in seeds:
            if s.get('kind') == 'history':
                d = dec(s)
                hist = [dict(x, cl_is_framework=False, ctype_is_framework=False) for x in d['hist']]
                cases.append((self._spec(d['app']), hist))
        for _ in range(min(n, 3000)):
            spec = fixed_app(g, rng)
            cases.append((spec, self.gen_history(g, rng, spec)))
        for spec, hist in cases:
            if len({f.key for f in findings}) >= 6 or len(findings) >= 40:
                break           # enough replays; the run is failing anyway
            evals += 1
            try:
                bad = zoo.watchdog(lambda: self._oracle(spec, hist), 60)
            except zoo.HangB:
                bad = [('hang', 'history did not finish within 60 s')]
                self.close_reference()      # the protocol may be out of step
            for key, what in bad:
                findings.append(Finding(f'C09:{key}', what, dict(kind='history', app=enc(spec), hist=enc(hist))))
        sizes = [10, 100, 1000] if n < 2000 else [10, 100, 1000, 5000]
        fail_kinds = ['chunked-garbage', 'chunked-truncated', 'oversize', 'oversize-chunked', 'bad-json',
                      'request-error', 'crash', 'badpath', 'nf', 'na', 'cookie-then-body-error', 'app-error',
                      'malformed-meta', 'malformed-length-read', 'oversize@64', 'upload@64']
        # successful requests whose bodies straddle the spooling threshold (a small one and the framework's default)
        spool_kinds = ['spool-read@8', 'spool-upload@700', 'spool-chunked@64', 'spool-read@default', 'good-body@4']
        evals += 1
        for name, before, after in self.reference().measure('class-state', '-', 2, rng.randrange(1 << 30)):
            findings.append(Finding(f'C09:class-state:{name}',
                                    f'serving further requests changed {name}: {before} -> {after}',
                                    dict(kind='class-state', n=2)))
        growth_kinds = (fail_kinds[:12] + ['ok-cookie', 'raise-resp', 'good-body', 'upload', 'wild', 'login', 'app-resp']
                        + ['malformed-meta', 'upload@64', 'spool-read@8'])
        if n < 2000:      # quick tier: uploads, wildcard routes and two other kinds per run; thorough: every kind
            growth_kinds = ['upload', 'wild'] + rng.sample([k for k in growth_kinds if k not in ('upload', 'wild')], 2)
        for kind in growth_kinds:
            evals += 1
            N = 800 if n < 2000 else 3000
            a, b, ma, mb, blocks, grown = self.reference().measure('growth', kind, N, rng.randrange(1 << 30))
            self.stats.setdefault('growth', {})[kind] = [b - a, mb - ma, blocks]
            if self.grew(N, a, b, ma, mb, blocks) or grown:
                findings.append(Finding(
                    f'C09:growth:{kind.partition("@")[0]}' + (':' + grown[0][0] if grown else ''),
                    f'{N} further requests of kind {kind} (all-different URLs / values) grew the number of live objects '
                    f'from {a} to {b}, the traced memory from {ma} to {mb} bytes, the allocated blocks by {blocks}'
                    + (f'; containers / caches that grew with the requests: {grown[:4]}' if grown else ''),
                    dict(kind='growth', fail_kind=kind, n=N)))
        big = set(fail_kinds + spool_kinds if n >= 2000 else rng.sample(fail_kinds, 4) + rng.sample(spool_kinds, 1))
        for kind in fail_kinds + spool_kinds:
            for N in sizes:
                if N >= 1000 and (kind not in big or (kind not in fail_kinds[:12] and N > 1000)):
                    continue            # (5000 requests: the failing kinds of the first rounds only, to stay in the budget)
                evals += 1
                res = self.reference().measure('retention', kind, N, rng.randrange(1 << 30))
                if res and res[0] == 'EXC':
                    raise core.Infra(f'retention measurement of {kind} raised {res[1]}')
                envs, inputs, made, fds = res
                self.stats.setdefault('retention', {})[f'{kind}/{N}'] = list(res)
                if max(envs, inputs, made, fds) > self.K_BOUND:
                    findings.append(Finding(
                        f'C09:retention:{kind.partition("@")[0]}',
                        f'after {N} requests of kind {kind}: {envs} environ and {inputs} wsgi.input objects are still '
                        f'alive, framework-made per-request objects (body stream, parsed forms, ...) of {made} requests '
                        f'are still alive, {fds} file descriptors opened meanwhile are still open (bound {self.K_BOUND})',
                        dict(kind='retention', fail_kind=kind, n=N)))
                    break
        return evals, findings

    @staticmethod
    def _spec(d):
        from harness.c03 import spec_of
        spec = spec_of(d)
        for k in ('default_app', 'errors_map', 'memfile', 'maxbody'):
            if k in d:
                spec[k] = d[k]
        return spec

    def replay(self, data):
        i = data['input']
        if i.get('kind') == 'class-state':
            import random
            changed = self.reference().measure('class-state', '-', i['n'], 0)
            self.close_reference()
            return dict(changed=changed, violates=bool(changed), input=i)
        if i.get('kind') == 'growth':
            import random
            a, b, ma, mb, blocks, grown = self.reference().measure('growth', i['fail_kind'], i['n'], 0)
            self.close_reference()
            return dict(input=i, objects_after_n=a, objects_after_2n=b, bytes_after_n=ma, bytes_after_2n=mb,
                        blocks_between=blocks, grown_containers=grown,
                        violates=self.grew(i['n'], a, b, ma, mb, blocks) or bool(grown))
        if i.get('kind') == 'retention':
            import random
            envs, inputs, made, fds = self.reference().measure('retention', i['fail_kind'], i['n'], 0)
            self.close_reference()
            return dict(input=i, live_environs=envs, live_inputs=inputs, requests_with_live_framework_objects=made,
                        descriptors_left_open=fds, bound=self.K_BOUND,
                        violates=max(envs, inputs, made, fds) > self.K_BOUND)
        d = dec(i)
        spec, hist = self._spec(d['app']), [dict(x) for x in d['hist']]
        try:
            verdict = zoo.watchdog(lambda: self._oracle(spec, hist), 60)
            return dict(oracle=verdict, violates=bool(verdict), input=i)
        except zoo.HangB:
            return dict(oracle=[['hang', 'history did not finish within 60 s']], violates=True, input=i)
        finally:
            self.close_reference()


# the request OBJECT protocol (listeners, mapping protocol, extension attributes, copy, _raise/_copy_error, ts_props slots):
# an extra correspondence stream and oracle
from harness import reqobjlib as _reqobj  # noqa: E402
_reqobj.install(C09)
