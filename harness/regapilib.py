"""The application-level registration surface of ombott/ombott.py (`Ombott.route` in every call form, the verb shortcuts of
`with_method_shortcuts`, `add_route` / `remove_route`, `on` / `add_hook` / `remove_hook` / `emit` / `_hooks`, `on_route` /
`remove_route_hook`, `error`, the error handler `_cast` picks, the partial 404 hook `Ombott.handler` picks, `Globals` /
`default_app()`, the decision logic of `run()`), as an extra stream of C02.

* correspondence: one self-contained `regapi hist …` line per case - a whole registration history on 1-2 real applications
  (number 0 is the real `Globals.app`, addressed through its methods and through the module-level aliases) with requests through
  `Ombott.__call__` in every method spelling, emissions with self-editing hooks, erroring callbacks - against
  Model/RegApi.lean (Drv/RegApi.lean); `regapi run`, `regapi int`, `regapi upper` lines for the small pieces.
* oracle (no model involved), written from the C02 text and the documented behaviour of the API: whatever form registered a
  callback under method spelling m, it is returned unchanged, the route holds exactly the upper-cased names, and a request
  whose method equals one of them case-insensitively reaches that callback (HEAD -> GET, ANY fallbacks, 405 with the exact
  sorted Allow otherwise); every HTTP_METHODS name has a shortcut that registers exactly that method; before hooks run in
  registration order, after hooks in reverse, remove_hook takes the first occurrence; an emission runs the hooks present when
  it started; the error handler chosen for a status is the last one registered for int(code); the partial 404 hook of the
  innermost hooked prefix answers a 404 below it; the module-level aliases are the default application's; run() decisions.
"""
import io
import sys

from harness import core
from harness.core import hs, hsl, nl, Finding

VERBS = ['GET', 'POST', 'PUT', 'DELETE', 'PATCH', 'OPTIONS', 'HEAD']
RULES = ['/', '/a', '/a/b', '/a/<x>', '/a/:x', '/api', '/api/v1', '/api/<k>/e', '/ab', '/b/', '/a/<x>/<y>']
SUBST = {'<x>': 'q', ':x': 'q', '<k>': 'm', '<y>': 'r'}
MISS_PATHS = ['/nope', '/api/zz/y', '/a/b/c', '/api/v1/x', '', '/a/', '/api/m/e/z', '//a']
HOOK_RULES = ['/api', '/a', '/api/v1', '/', '/a/<x>', '/zz']
BAD_RULES = ['/a/<x', '/<:>', '/a/<x:nosuch>']
BEFORE, AFTER = 'before_request', 'after_request'
HOOK_NAMES = [BEFORE, AFTER]
BAD_HOOK_NAMES = ['before', 'after_response', '', 'Before_request']
ABORT_CODES = [400, 403, 404, 405, 418, 500, 503]
CODE_STRS = ['404', ' 404', '404 ', '+404', '0404', '4_04', '500', '405', '\t418\n', '400', '503', '-1', '99999']
BAD_CODE_STRS = ['', '4x4', '404.0', '4__04', '_404', '404_', '0x194', 'abc', '4 04', '+', '--4']
SHORTCUT_BAD = ['trace', 'connect', 'GET', 'Post', 'any', 'foo']
ALIASES = [('Globals', 'route'), ('ombott', 'route'), ('Globals', 'on_route'), ('ombott', 'on_route'),
           ('Globals', 'error'), ('ombott', 'error')]

# callback identities by role (what a callable does when it runs depends on how the framework calls it)
CB_IDS = list(range(1, 10))          # route callbacks
BEFORE_IDS = list(range(10, 15))     # before_request hooks
AFTER_IDS = list(range(15, 20))      # after_request hooks
RHOOK_IDS = list(range(20, 26))      # simple route hooks
EH_IDS = list(range(30, 38))         # error handlers / partial 404 hooks
FALSY_IDS = [40, 41]                 # callables with bool() == False


def bump(stats, key, n=1):
    stats[key] = stats.get(key, 0) + n


def path_of(rule):
    p = rule
    for k, v in SUBST.items():
        p = p.replace(k, v)
    return p


def respell(rng, m):
    k = rng.random()
    if k < .4:
        return m
    if k < .65:
        return m.lower()
    if k < .85:
        return m.capitalize()
    return ''.join(c.lower() if rng.random() < .5 else c.upper() for c in m)


# --------------------------------------------------------------------------------------
# the real side

class Falsy:
    """a callable whose truth value is False"""

    def __init__(self, fn):
        self.fn = fn
        self.__name__ = self.__qualname__ = fn.__name__
        self.__module__ = fn.__module__

    def __bool__(self):
        return False

    def __call__(self, *a, **kw):
        return self.fn(*a, **kw)


class Real:
    """a process: application 0 is the live `Globals.app` (its registration state reset before and after the case),
    further ones are `Ombott()`"""

    def __init__(self, hooks=None, aborts=None):
        import ombott
        from ombott import ombott as M
        from ombott.router import RadiRouter
        self.M, self.pkg = M, ombott
        self.RadiRouter = RadiRouter
        self.hooks = hooks or {}          # id -> (acts, raises)
        self.aborts = aborts or {}        # id -> status
        self.apps = [M.default_app()]
        self.reset_default()
        self.cbs = {}
        self.events = []
        self.cur = None

    def reset_default(self):
        app = self.M.default_app()
        app.router = self.RadiRouter()
        app.error_handlers = {'404-hooks': {}}
        app._route_hooks = {}
        app.__dict__.pop('_hooks', None)

    def close(self):
        self.reset_default()

    def cb(self, i):
        if i in self.cbs:
            return self.cbs[i]
        real = self

        def fn(*args, **kw):
            real.events.append((i, args, kw))
            if i in real.hooks and not args:
                acts, raises = real.hooks[i]
                for a in acts:
                    if a[0] == 'a':
                        real.cur.add_hook(a[1], real.cb(a[2]))
                    else:
                        real.cur.remove_hook(a[1], real.cb(a[2]))
                if raises:
                    raise RuntimeError('hook %d' % i)
                return None
            if i in real.aborts:
                raise real.M.HTTPError(real.aborts[i], 'aborted by %d' % i)
            return 'cb%d' % i
        fn.__name__ = 'cb%d' % i
        fn.cbid = i
        self.cbs[i] = Falsy(fn) if i in FALSY_IDS else fn
        if i in FALSY_IDS:
            self.cbs[i].cbid = i
        return self.cbs[i]

    def cbo(self, c):
        return None if c is None else self.cb(c)

    def target(self, t):
        """(application, bound callable or None)"""
        if isinstance(t, int):
            return self.apps[t], None
        holder = self.M.Globals if t[1] == 'Globals' else self.pkg
        fn = getattr(holder, t[2])
        return fn.__self__, fn

    def show_ret(self, r):
        if r is None:
            return 'none'
        if r is True:
            return 'true'
        i = getattr(r, 'cbid', None)
        if i is not None and self.cbs.get(i) is r:
            return 'cb:%d' % i
        if callable(r):
            return 'deco'
        return 'other:' + type(r).__name__

    @staticmethod
    def meth(m):
        return m if (m is None or isinstance(m, str)) else list(m)

    def request(self, app, verb, path):
        got = {}

        def sr(status, headers, exc_info=None):
            got['status'] = status
            got['headers'] = headers
        environ = {'REQUEST_METHOD': verb, 'PATH_INFO': path.encode('utf8').decode('latin1'), 'SERVER_NAME': 'h',
                   'SERVER_PORT': '80', 'wsgi.url_scheme': 'http', 'wsgi.input': io.BytesIO(b''),
                   'wsgi.errors': io.StringIO(), 'SERVER_PROTOCOL': 'HTTP/1.1', 'QUERY_STRING': ''}
        self.events = []
        out = core.with_timeout(lambda: app(environ, sr))
        if hasattr(out, 'close'):
            out.close()
        return got.get('status', ''), dict((k.lower(), v) for k, v in got.get('headers', [])), list(self.events)

    def show_request(self, app, verb, path):
        from harness.router_gen import enc_kwargs, enc_val
        status, headers, events = self.request(app, verb, path)
        before = [e[0] for e in events if e[0] in BEFORE_IDS]
        after = [e[0] for e in events if e[0] in AFTER_IDS]
        code = int(status.split()[0])
        fired = ['%d@%s' % (e[0], hs(e[1][0])) for e in events if e[0] in RHOOK_IDS]
        ran = [e for e in events if e[0] in CB_IDS or e[0] in FALSY_IDS]
        ehs = [e for e in events if e[0] in EH_IDS]
        partial = [e for e in ehs if len(e[1]) == 2]
        handler = [e for e in ehs if len(e[1]) == 1]
        raised_before = any(self.hooks.get(i, ((), False))[1] or self._act_fails(i) for i in before)
        raised_after = any(self.hooks.get(i, ((), False))[1] or self._act_fails(i) for i in after)
        err = handler[0][1][0] if handler else None
        if raised_before:
            routed = 'skip'
        elif ran:
            e = ran[0]
            routed = 'ran:%d:%s:%s:%s' % (e[0], hs(self._route_method(app, e[0], verb, path)), enc_kwargs(e[2]),
                                          ','.join(fired) or '-')
        elif partial:
            e = partial[0]
            routed = '404h:%d:%s:%s' % (e[0], hs(e[1][0]), ','.join(enc_val(v) for v in e[1][1]) or '~')
        elif raised_after:
            routed = 'lost'                 # the 404 / 405 in flight was replaced by the hook's exception
        elif err is not None and err.status_code == 405:
            routed = '405:' + hs(err.headers.get('Allow', ''))
        elif err is None and code == 405:
            routed = '405:' + hs(headers.get('allow', ''))
        else:
            routed = '404'
        crit = status == '500 INTERNAL SERVER ERROR'
        return 'rq:b=%s;%s;a=%s;s=%d;h=%s;c=%d' % (nl(before), routed, nl(after), code,
                                                   handler[0][0] if handler else '~', 1 if crit else 0)

    def _act_fails(self, i):
        acts = self.hooks.get(i, ((), False))[0]
        return any(a[1] not in HOOK_NAMES for a in acts)

    def _route_method(self, app, cbid, verb, path):
        """name of the RouteMethod the callback was reached through (read off environ is gone: ask the router)"""
        v = verb.upper()
        cands = [v] + (['GET'] if v == 'HEAD' else []) + ['ANY']
        ep, err = app.router.resolve('/' + path.lstrip('/'), cands)
        return ep[0].name if ep else '?'

    # -- one op ----------------------------------------------------------------------------------
    def play(self, op):
        if op == 'NEW':
            self.apps.append(self.M.Ombott())
            return 'app:%d' % (len(self.apps) - 1)
        t, kind, args = op[0], op[1], op[2:]
        app, bound = self.target(t)
        self.cur = app
        self.events = []
        try:
            if kind == 'RT':
                rule, m, cb, name, ow = args
                f = bound or app.route
                a = [rule] + ([self.meth(m)] if m is not None else [])
                kw = dict(name=name, overwrite=ow)
                if cb is not None:
                    if m is not None:
                        a.append(self.cb(cb))
                    else:
                        kw['callback'] = self.cb(cb)
                return self.show_ret(f(*a, **kw))
            if kind == 'RD':
                rule, m, name, ow, cb = args
                f = bound or app.route
                a = [rule] + ([self.meth(m)] if m is not None else [])
                return self.show_ret(f(*a, name=name, overwrite=ow)(self.cb(cb)))
            if kind == 'SC':
                attr, rule, second, cb, m, name, ow = args
                a = [rule] + ([self.cb(second)] if second is not None else [])
                kw = dict(name=name, overwrite=ow)
                if cb is not None:
                    kw['callback'] = self.cb(cb)
                if m is not None:
                    kw['method'] = self.meth(m)
                return self.show_ret(getattr(app, attr)(*a, **kw))
            if kind == 'SD':
                attr, rule, m, name, ow, cb = args
                kw = dict(name=name, overwrite=ow)
                if m is not None:
                    kw['method'] = self.meth(m)
                return self.show_ret(getattr(app, attr)(rule, **kw)(self.cb(cb)))
            if kind == 'AR':
                rule, m, h, name, ow = args
                r = app.add_route(rule, self.meth(m), self.cb(h), name, overwrite=ow)
                return 'ok:' + hs(r.pattern)
            if kind == 'XR':
                rule, name, pat = args
                return self.show_ret(app.remove_route(rule, route_pattern=pat, name=name))
            if kind == 'AH':
                return self.show_ret(app.add_hook(args[0], self.cb(args[1])))
            if kind == 'ON':
                return self.show_ret(app.on(args[0], self.cb(args[1])) if args[1] is not None else app.on(args[0]))
            if kind == 'OD':
                return self.show_ret(app.on(args[0])(self.cb(args[1])))
            if kind == 'XH':
                return self.show_ret(app.remove_hook(args[0], self.cb(args[1])))
            if kind == 'EM':
                err = '~'
                try:
                    core.with_timeout(lambda: app.emit(args[0]))
                except KeyError:
                    # the unknown event name; a KeyError out of a hook (it edits an unknown hook name) is the hook's exception
                    err = 'KeyError' if not self.events else 'Exception'
                except core.Hang:
                    raise
                except Exception:
                    err = 'Exception'
                return 'em:%s:%s' % (nl([e[0] for e in self.events]), err)
            if kind == 'OR':
                f = bound or app.on_route
                return self.show_ret(f(args[0], self.cb(args[1])) if args[1] is not None else f(args[0]))
            if kind == 'ORD':
                f = bound or app.on_route
                return self.show_ret(f(args[0])(self.cb(args[1])))
            if kind == 'XRH':
                return self.show_ret(app.remove_route_hook(args[0]))
            if kind == 'ER':
                code, rule, h = args
                f = bound or app.error
                c = code[1]
                return self.show_ret(f(c, rule)(self.cb(h)))
            if kind == 'RQ':
                return self.show_request(app, args[0], args[1])
            if kind == 'SU':
                return self.show_ret(app.setup())
            if kind == 'HL':
                d = app.__dict__.get('_hooks')
                if d is None:
                    return 'hl:lazy'
                return 'hl:' + ';'.join('%s=%s' % (hs(k), nl([f.cbid for f in v])) for k, v in d.items())
            if kind == 'EH':
                eh = sorted((k, v.cbid) for k, v in app.error_handlers.items() if isinstance(k, int))
                h4 = sorted((k, v.cbid) for k, v in app.error_handlers['404-hooks'].items())
                return 'eh:%s;%s' % (','.join('%d=%d' % x for x in eh) or '~',
                                      ','.join('%s=%d' % (hs(k), v) for k, v in h4) or '~')
            if kind == 'RL':
                rts = []
                for p in sorted(app.routes):
                    r = app.routes[p]
                    ms = ','.join('%s=%d' % (hs(m), r.methods[m].handler.cbid) for m in sorted(r.methods)) or '~'
                    rts.append('route:%s:%s' % (hs(p), ms))
                named = ['%s=%s' % (hs(n), hs(r.pattern)) for n, r in sorted(app.router.named_routes.items())]
                hk = ['%s=%s.%s' % (hs(p), *('~' if f is None else str(f.cbid) for f in v))
                      for p, v in sorted(app.router.hooks.items())]
                j = lambda l: ','.join(l) or '~'  # noqa
                return 'rl:%s;%s;%s' % (j(rts), j(named), j(hk))
        except core.Hang:
            raise
        except Exception as e:  # noqa: the class is the observation
            return 'err:' + type(e).__name__
        raise core.Infra('unknown regapi op %r' % (op,))


# -- protocol tokens -------------------------------------------------------------------------------

def t_tok(t):
    return str(t) if isinstance(t, int) else 'g:%s:%s' % (t[1], t[2])


def m_tok(m):
    if m is None:
        return '~'
    return 's:' + hs(m) if isinstance(m, str) else 'l:' + hsl(m)


def cb_tok(c):
    return '~' if c is None else ('%df' % c if c in FALSY_IDS else str(c))


def o_tok(x):
    return '~' if x is None else hs(x)


def op_tok(op):
    if op == 'NEW':
        return 'NEW'
    t, kind, a = op[0], op[1], op[2:]
    if kind == 'RT':
        f = [hs(a[0]), m_tok(a[1]), cb_tok(a[2]), o_tok(a[3]), int(a[4])]
    elif kind == 'RD':
        f = [hs(a[0]), m_tok(a[1]), o_tok(a[2]), int(a[3]), cb_tok(a[4])]
    elif kind == 'SC':
        f = [a[0], hs(a[1]), cb_tok(a[2]), cb_tok(a[3]), m_tok(a[4]), o_tok(a[5]), int(a[6])]
    elif kind == 'SD':
        f = [a[0], hs(a[1]), m_tok(a[2]), o_tok(a[3]), int(a[4]), cb_tok(a[5])]
    elif kind == 'AR':
        f = [hs(a[0]), m_tok(a[1]), a[2], o_tok(a[3]), int(a[4])]
    elif kind == 'XR':
        f = [o_tok(a[0]), o_tok(a[1]), o_tok(a[2])]
    elif kind in ('AH', 'XH'):
        f = [hs(a[0]), a[1]]
    elif kind in ('ON', 'OD'):
        f = [hs(a[0]), cb_tok(a[1])]
    elif kind == 'EM':
        f = [hs(a[0])]
    elif kind in ('OR', 'ORD'):
        f = [hs(a[0]), cb_tok(a[1])]
    elif kind == 'XRH':
        f = [hs(a[0])]
    elif kind == 'ER':
        c = a[0]
        f = ['i:%d' % c[1] if c[0] == 'i' else 's:' + hs(c[1]), o_tok(a[1]), a[2]]
    elif kind == 'RQ':
        f = [hs(a[0]), hs(a[1])]
    else:
        f = []
    return '|'.join([t_tok(t), kind] + [str(x) for x in f])


def hooks_tok(hooks):
    if not hooks:
        return '~'
    out = []
    for i, (acts, raises) in sorted(hooks.items()):
        at = '+'.join('%s.%s.%d' % (a[0], hs(a[1]), a[2]) for a in acts) or '-'
        out.append('%d:%d:%s' % (i, 1 if raises else 0, at))
    return ','.join(out)


def aborts_tok(aborts):
    return ','.join('%d=%d' % x for x in sorted(aborts.items())) or '~'


def case_line(case):
    return 'regapi hist %s %s %s' % (hooks_tok(case['hooks']), aborts_tok(case['aborts']),
                                     ' '.join(op_tok(o) for o in case['ops']))


def run_case(case):
    real = Real(case['hooks'], case['aborts'])
    try:
        return [real.play(o) for o in case['ops']]
    finally:
        real.close()


# --------------------------------------------------------------------------------------
# generators

def gen_methods(rng, pool=None):
    pool = pool or (VERBS + ['ANY', 'ANY', 'GET', 'FOO'])
    k = rng.random()
    if k < .35:
        return respell(rng, rng.choice(pool))
    n = rng.choice([1, 1, 2, 2, 3])
    ms = [respell(rng, m) for m in rng.sample(pool, n)]
    if rng.random() < .06:
        ms = []
    return ms


def gen_name(rng):
    return rng.choice([None, None, None, 'n1', 'n2', '', 'home'])


def gen_probe(rng, t, rules, extra_paths=()):
    out = []
    paths = [path_of(r) for r in rules] + list(extra_paths)
    if rng.random() < .5:
        paths.append(rng.choice(MISS_PATHS))
    for p in rng.sample(paths, min(len(paths), rng.choice([1, 2, 3]))):
        for v in rng.sample(VERBS + ['FOO', 'ANY'], rng.choice([1, 2, 3])) + (['HEAD'] if rng.random() < .3 else []):
            out.append([t, 'RQ', respell(rng, v), p])
    return out


def gen_hookprogs(rng, malformed):
    """programs of the request hooks.  A hook that registers hooks ("adder") only registers non-adders, so a list grows
    linearly with the number of emissions (an adder that re-registers itself would double it on every request)."""
    hooks = {}
    adders = {i for i in BEFORE_IDS + AFTER_IDS if rng.random() < .3}
    for i in BEFORE_IDS + AFTER_IDS:
        if rng.random() < .45 and i not in adders:
            continue
        mine = BEFORE if i in BEFORE_IDS else AFTER
        acts = []
        for _ in range(rng.choice([1, 1, 2]) if i in adders else rng.choice([0, 1, 1, 2])):
            name = mine if rng.random() < .8 else (AFTER if mine == BEFORE else BEFORE)
            ids = BEFORE_IDS if name == BEFORE else AFTER_IDS
            if malformed and rng.random() < .2:
                name = rng.choice(BAD_HOOK_NAMES)
            r = rng.random()
            plain = [j for j in ids if j not in adders]
            if i in adders and plain and r < .6:
                acts.append(['a', name, rng.choice(plain)])
            elif r < .5:
                acts.append(['r', name, i if name == mine else rng.choice(ids)])        # one-shot hook
            else:
                acts.append(['r', name, rng.choice(ids)])
        hooks[i] = (acts, rng.random() < .12)
    return hooks


def gen_case(rng, malformed=False):
    two = rng.random() < .45
    ops = []
    if two:
        ops.append('NEW')
    targets = [0, 1] if two else [0]
    rules = rng.sample(RULES, rng.randint(1, 4))
    hooks = gen_hookprogs(rng, malformed) if rng.random() < .6 else {}
    aborts = {}
    for i in CB_IDS + EH_IDS:
        if rng.random() < (.25 if i in CB_IDS else .08):
            aborts[i] = rng.choice(ABORT_CODES)
    used_hook_rules = []

    def tgt(kind):
        t = rng.choice(targets)
        if t == 0 and rng.random() < .4:
            cands = [a for a in ALIASES if a[1] == kind]
            if cands:
                return ['g'] + list(rng.choice(cands))
        return t

    n = rng.randint(4, 12)
    for step in range(n):
        k = rng.random()
        rule = rng.choice(rules)
        if malformed and rng.random() < .15:
            rule = rng.choice(BAD_RULES)
        cb = rng.choice(CB_IDS)
        if rng.random() < .05:
            cb = rng.choice(FALSY_IDS)
        m = gen_methods(rng) if rng.random() < .85 else None
        name, ow = gen_name(rng), rng.random() < .2
        if k < .13:
            ops.append([tgt('route'), 'RT', rule, m, cb if rng.random() < .93 else None, name, ow])
        elif k < .24:
            ops.append([tgt('route'), 'RD', rule, m, name, ow, cb])
        elif k < .36:
            attr = rng.choice([v.lower() for v in VERBS])
            if malformed and rng.random() < .3:
                attr = rng.choice(SHORTCUT_BAD)
            second = cb if rng.random() < (.5 if malformed else .08) else None
            mk = gen_methods(rng) if rng.random() < .12 else None
            ops.append([rng.choice(targets), 'SC', attr, rule, second, None if second is not None and rng.random() < .7 else
                        (cb if rng.random() < .9 else None), mk, name, ow])
        elif k < .44:
            attr = rng.choice([v.lower() for v in VERBS])
            ops.append([rng.choice(targets), 'SD', attr, rule, gen_methods(rng) if rng.random() < .1 else None, name, ow, cb])
        elif k < .49:
            ops.append([rng.choice(targets), 'AR', rule, m if m is not None else 'GET', cb, name, ow])
        elif k < .53:
            r = rng.random()
            if r < .6:
                ops.append([rng.choice(targets), 'XR', rule, None, None])
            elif r < .9:
                ops.append([rng.choice(targets), 'XR', None, rng.choice(['n1', 'n2', 'home', 'zz']), None])
            else:
                ops.append([rng.choice(targets), 'XR', None, None, None])
        elif k < .66:
            t = rng.choice(targets)
            name_h = rng.choice(HOOK_NAMES)
            if malformed and rng.random() < .25:
                name_h = rng.choice(BAD_HOOK_NAMES)
            ids = BEFORE_IDS if name_h != AFTER else AFTER_IDS
            f = rng.choice(ids)
            r = rng.random()
            if r < .3:
                ops.append([t, 'AH', name_h, f])
            elif r < .5:
                ops.append([t, 'ON', name_h, f if rng.random() < .85 else rng.choice([None] + FALSY_IDS)])
            elif r < .65:
                ops.append([t, 'OD', name_h, f])
            elif r < .85:
                ops.append([t, 'XH', name_h, f])
            else:
                ops.append([t, 'EM', name_h])
            if rng.random() < .3:
                ops.append([t, 'HL'])
        elif k < .74:
            hr = rng.choice(HOOK_RULES)
            used_hook_rules.append(hr)
            f = rng.choice(RHOOK_IDS)
            r = rng.random()
            if r < .45:
                ops.append([tgt('on_route'), 'OR', hr, f if rng.random() < .9 else None])
            elif r < .8:
                ops.append([tgt('on_route'), 'ORD', hr, f])
            else:
                ops.append([rng.choice(targets), 'XRH', hr])
        elif k < .9:
            r = rng.random()
            if r < .45:
                code = ['i', rng.choice(ABORT_CODES + [404, 404, 200, -1, 1000])]
            elif r < .9:
                code = ['s', rng.choice(CODE_STRS)]
            else:
                code = ['s', rng.choice(BAD_CODE_STRS if (malformed or rng.random() < .5) else CODE_STRS)]
            hr = None
            if rng.random() < .4:
                hr = rng.choice(HOOK_RULES + [''])
                used_hook_rules.append(hr)
            ops.append([tgt('error'), 'ER', code, hr, rng.choice(EH_IDS)])
            if rng.random() < .25:
                ops.append([rng.choice(targets), 'EH'])
        elif k < .92:
            ops.append([rng.choice(targets), 'SU'])
        else:
            ops.append([rng.choice(targets), 'RL'])
        if rng.random() < .55:
            extra = [path_of(h).rstrip('/') + s for h in used_hook_rules[-2:] if h for s in ('/zz', '/q/zz')]
            ops += gen_probe(rng, rng.choice(targets), rules, extra)
    for t in targets:
        ops += [[t, 'HL'], [t, 'EH'], [t, 'RL']]
    return dict(kind='regapi', sub='hist', ops=ops, hooks=hooks, aborts=aborts)


def hist_case(rng, stats, malformed=False):
    case = gen_case(rng, malformed)
    ans = run_case(case)
    for o, a in zip(case['ops'], ans):
        k = 'NEW' if o == 'NEW' else o[1]
        bump(stats, 'regapi:op:' + k)
        head = a.split(':')[0]
        if a.startswith('err:'):
            bump(stats, 'regapi:err:%s:%s' % (k, a[4:]))
        elif k == 'RQ':
            bump(stats, 'regapi:rq:' + a.split(';')[1].split(':')[0])
            if ';h=~' not in a:
                bump(stats, 'regapi:rq:custom-error-handler')
            if a.endswith('c=1'):
                bump(stats, 'regapi:rq:critical')
        elif k in ('RT', 'SC', 'ON', 'OR'):
            bump(stats, 'regapi:ret:%s:%s' % (k, head))
        if not isinstance(o, str) and not isinstance(o[0], int):
            bump(stats, 'regapi:via-alias')
    bump(stats, 'regapi:ops', len(case['ops']))
    bump(stats, 'regapi:apps:%d' % (2 if 'NEW' in case['ops'] else 1))
    sample = dict(case)
    sample['hooks'] = {str(k): [v[0], v[1]] for k, v in case['hooks'].items()}
    sample['aborts'] = {str(k): v for k, v in case['aborts'].items()}
    return case_line(case), ' '.join(ans), sample


class _Recorder:
    """a server factory for run(): records instead of serving"""
    quiet = False

    def __init__(self, log, quiet):
        self.log, self.q0 = log, quiet

    def __call__(self, host=None, port=None, **kw):
        self.host, self.port, self.quiet = host, port, self.q0
        return self

    def run(self, app):
        self.log.append(app)

    def __repr__(self):
        return 'Recorder'


def real_run(app_kind, server, quiet, server_quiet):
    """the live run() with a recording server; app_kind: None | 'app' | 'noncallable'"""
    from ombott import ombott as M
    from ombott import server_adapters
    log = []
    app = None if app_kind is None else (M.Ombott() if app_kind == 'app' else object())
    patched = []
    err = io.StringIO()
    old_err = sys.stderr
    try:
        if server[0] == 'f':
            srv = _Recorder(log, server_quiet)
        else:
            srv = server[1]
            cls = server_adapters.server_names.get(srv)
            if cls is not None:
                patched.append((cls, cls.__dict__.get('run'), cls.__dict__.get('quiet')))
                cls.run = lambda self, handler: log.append((type(self).__name__, handler, self.quiet))
                cls.quiet = server_quiet
        sys.stderr = err
        try:
            M.run(app, server=srv, quiet=quiet, host='127.0.0.1', port=8080)
        finally:
            sys.stderr = old_err
        served = log[0][1] if isinstance(log[0], tuple) else log[0]
        name = log[0][0] if isinstance(log[0], tuple) else 'factory:%d' % server[1]
        q = log[0][2] if isinstance(log[0], tuple) else srv.quiet
        who = 'default' if served is M.default_app() else ('1' if served is app else '?')
        return 'plan:%s:%s:%d:%d' % (who, name, 1 if q else 0, 1 if err.getvalue() else 0)
    except Exception as e:  # noqa
        return 'err:' + type(e).__name__
    finally:
        sys.stderr = old_err
        for cls, run, q in patched:
            if run is None:
                del cls.run
            else:
                cls.run = run
            if q is None:
                del cls.quiet
            else:
                cls.quiet = q


def run_case_small(rng, stats):
    from ombott import server_adapters
    app_kind = rng.choice([None, 'app', 'app', 'noncallable'])
    if rng.random() < .6:
        server = ['n', rng.choice(list(server_adapters.server_names) + ['nosuch', 'WSGIREF', ''])]
    else:
        server = ['f', rng.randint(1, 9)]
    quiet, sq = rng.random() < .5, rng.random() < .4
    ans = real_run(app_kind, server, quiet, sq)
    bump(stats, 'regapi:run:' + ans.split(':')[0] + (':' + ans.split(':')[1] if ans.startswith('err') else ''))
    line = 'regapi run %s %d %s %d %d' % ('~' if app_kind is None else '1', 0 if app_kind == 'noncallable' else 1,
                                          'n:' + hs(server[1]) if server[0] == 'n' else 'f:%d' % server[1],
                                          1 if quiet else 0, 1 if sq else 0)
    return line, ans, dict(kind='regapi', sub='run', app=app_kind, server=server, quiet=quiet, server_quiet=sq)


def int_case(rng, stats):
    k = rng.random()
    if k < .4:
        s = rng.choice(CODE_STRS + BAD_CODE_STRS)
    else:
        s = ''.join(rng.choice('0123456789_+- \t4x.') for _ in range(rng.randint(0, 6)))
    try:
        ans = str(int(s))
    except ValueError:
        ans = 'err:ValueError'
    bump(stats, 'regapi:int:' + ('err' if ans.startswith('err') else 'ok'))
    return 'regapi int ' + hs(s), ans, dict(kind='regapi', sub='int', s=s)


def upper_case(rng, stats):
    ms = [respell(rng, rng.choice(VERBS + ['ANY', 'FOO', 'x-y_1'])) for _ in range(rng.randint(0, 4))]
    up = [m.upper() for m in ms]
    bump(stats, 'regapi:upper')
    return 'regapi upper ' + hsl(ms), hsl(up) + ':' + hsl([m.upper() for m in up]), dict(kind='regapi', sub='upper', ms=ms)


def corr_stream(rng, n, pid, stats):
    out, hangs = [], 0
    for i in range(n):
        k = rng.random()
        try:
            if k < .72:
                out.append(core.with_timeout(lambda: hist_case(rng, stats), 10))
            elif k < .86:
                bump(stats, 'regapi:malformed-stream')
                out.append(core.with_timeout(lambda: hist_case(rng, stats, True), 10))
            elif k < .92:
                out.append(run_case_small(rng, stats))
            elif k < .97:
                out.append(int_case(rng, stats))
            else:
                out.append(upper_case(rng, stats))
        except core.Hang:
            hangs += 1
            bump(stats, 'regapi:hangs')
            if hangs >= 3:
                break
    return out


# --------------------------------------------------------------------------------------
# oracle (independent of the Lean model; real code only)

def _fresh():
    from ombott import ombott as M
    return M, M.Ombott()


def _mk(log, i, abort=None):
    def fn(*a, **kw):
        log.append((i, a, kw))
        if abort is not None:
            from ombott import HTTPError
            raise HTTPError(abort, 'x')
        return 'cb%d' % i
    fn.cbid = i
    return fn


def _req(app, verb, path):
    got = {}

    def sr(status, headers, exc_info=None):
        got['status'] = int(status.split()[0])
        got['headers'] = dict((k.lower(), v) for k, v in headers)
    env = {'REQUEST_METHOD': verb, 'PATH_INFO': path, 'SERVER_NAME': 'h', 'SERVER_PORT': '80', 'wsgi.url_scheme': 'http',
           'wsgi.input': io.BytesIO(b''), 'wsgi.errors': io.StringIO(), 'SERVER_PROTOCOL': 'HTTP/1.1', 'QUERY_STRING': ''}
    out = core.with_timeout(lambda: app(env, sr))
    if hasattr(out, 'close'):
        out.close()
    return got.get('status'), got.get('headers', {})


ORACLE_RULES = ['/', '/a', '/a/b', '/a/<x>', '/api', '/api/v1', '/api/<k>/e', '/ab']      # pairwise different patterns
FORMS = ['direct', 'direct-kw', 'deco', 'shortcut', 'shortcut-deco', 'add_route', 'alias', 'alias-deco']


def oracle_forms(regs, verbs):
    """regs: [(form, rule, methods (str | list), name)] on one application; then every verb spelling on every rule.
    Expectations from the C02 text over a shadow table {rule: {METHOD: cb id}}."""
    from ombott import ombott as M
    bad, log = [], []
    shadow = {}
    real = None
    use_default = any(r[0].startswith('alias') for r in regs)
    if use_default:
        real = Real()
        app = M.default_app()
    else:
        app = M.Ombott()
    twin = M.Ombott()
    try:
        for i, (form, rule, methods, name) in enumerate(regs):
            cb = _mk(log, i)
            ms = [methods] if isinstance(methods, str) else list(methods)
            ups = [m.upper() for m in ms]
            t = shadow.setdefault(rule, {})
            if form in ('shortcut', 'shortcut-deco'):
                ups = ups[:1]
                if ups[0] not in M.HTTP_METHODS:
                    continue
            if any(u in t for u in ups) or not ups:
                continue                       # a clash is the router's own business (C02 proper)
            try:
                if form == 'direct':
                    r = app.route(rule, methods, cb, name=name)
                elif form == 'direct-kw':
                    r = app.route(rule, method=methods, callback=cb, name=name)
                elif form == 'deco':
                    r = app.route(rule, methods, name=name)(cb)
                elif form == 'shortcut':
                    r = getattr(app, ups[0].lower())(rule, callback=cb, name=name)
                elif form == 'shortcut-deco':
                    r = getattr(app, ups[0].lower())(rule, name=name)(cb)
                elif form == 'add_route':
                    app.add_route(rule, methods, cb, name)
                    r = cb
                elif form == 'alias':
                    r = M.Globals.route(rule, methods, cb, name=name)
                else:
                    import ombott
                    r = ombott.route(rule, methods, name=name)(cb)
            except Exception as e:  # noqa
                bad.append(('route-raises', f'{form} registration of {rule!r} {methods!r} raised {type(e).__name__}: {e}'))
                continue
            if r is not cb:
                bad.append(('route-return', f'{form} registration of {rule!r} {methods!r} returned {r!r}, not the callback'))
            twin.router.add(rule, ups, cb, name)
            for u in ups:
                t[u] = i
        # same router state as the plain RadiRouter.add
        view = lambda a: {p: {m: rm.handler.cbid for m, rm in r.methods.items()} for p, r in a.routes.items()}  # noqa
        if view(app) != view(twin):
            bad.append(('route-methods', f'routes after {regs!r}: {view(app)!r}, RadiRouter.add gives {view(twin)!r}'))
        for rule, t in shadow.items():
            if not t:
                continue
            for v in verbs:
                del log[:]
                status, headers = _req(app, v, path_of(rule))
                u = v.upper()
                cands = [u] + (['GET'] if u == 'HEAD' else []) + ['ANY']
                exp = next((c for c in cands if c in t), None)
                ctx = f'regs={regs!r} request={v} {path_of(rule)}'
                if exp is None:
                    if status != 405:
                        bad.append(('dispatch', f'no candidate registered, answered {status}: {ctx}'))
                    elif headers.get('allow', '').split(',') != sorted(t):
                        bad.append(('allow', f'Allow {headers.get("allow")!r}, registered {sorted(t)}: {ctx}'))
                elif status != 200 or [e[0] for e in log] != [t[exp]]:
                    bad.append(('dispatch', f'expected callback {t[exp]} ({exp}), ran {[e[0] for e in log]} status {status}: {ctx}'))
    finally:
        if real is not None:
            real.close()
    return bad


def oracle_shortcuts():
    from ombott import ombott as M
    bad = []
    for m in M.HTTP_METHODS:
        app = M.Ombott()
        log = []
        cb = _mk(log, 1)
        f = getattr(app, m.lower(), None)
        if f is None:
            bad.append(('shortcut', f'no shortcut for {m}'))
            continue
        try:
            r = f('/p', callback=cb)
            r2 = f('/q')(cb)
        except Exception as e:  # noqa
            bad.append(('shortcut', f'app.{m.lower()} raised {type(e).__name__}: {e}'))
            continue
        if r is not cb or r2 is not cb:
            bad.append(('shortcut', f'app.{m.lower()} does not return the callback'))
        got = {p: sorted(r.methods) for p, r in app.routes.items()}
        if got != {'p': [m.upper()], 'q': [m.upper()]}:
            bad.append(('shortcut', f'app.{m.lower()} registered {got!r}'))
    return bad


def oracle_hooks(seq, editors):
    """seq: [(op, name, id)] with op in add / on / deco / remove; editors: {id: [(a|r, name, id)]}; then one emission per name"""
    M, app = _fresh()
    bad = []
    called = []
    fns = {}

    def fn(i):
        if i not in fns:
            def f(i=i):
                called.append(i)
                for a, n, j in editors.get(i, []):
                    (app.add_hook if a == 'a' else app.remove_hook)(n, fn(j))
            f.cbid = i
            fns[i] = f
        return fns[i]
    if '_hooks' in app.__dict__:
        bad.append(('hooks-lazy', '_hooks exists before first use'))
    shadow = {BEFORE: [], AFTER: []}
    for op, name, i in seq:
        f = fn(i)
        try:
            if name not in shadow:
                try:
                    (app.remove_hook if op == 'remove' else app.add_hook)(name, f)
                    bad.append(('hooks-keyerror', f'{op} on unknown hook name {name!r} accepted'))
                except KeyError:
                    pass
                continue
            if op == 'add':
                r = app.add_hook(name, f)
                want = None
            elif op == 'on':
                r = app.on(name, f)
                want = None
            elif op == 'deco':
                r = app.on(name)(f)
                want = f
            else:
                r = app.remove_hook(name, f)
                want = True if i in shadow[name] else None
            if r is not want:
                bad.append(('hooks-return', f'{op}({name!r}, {i}) returned {r!r}, expected {want!r}'))
            if op == 'remove':
                if i in shadow[name]:
                    shadow[name].remove(i)
            elif name == AFTER:
                shadow[name].insert(0, i)
            else:
                shadow[name].append(i)
        except Exception as e:  # noqa
            bad.append(('hooks-raises', f'{op}({name!r}, {i}) raised {type(e).__name__}'))
    if not seq:
        return bad
    have = {n: [f.cbid for f in l] for n, l in app._hooks.items()}
    if have != shadow:
        bad.append(('hooks-order', f'after {seq!r}: _hooks {have!r}, expected {shadow!r}'))
        return bad
    for name in (BEFORE, AFTER):
        snapshot = [f.cbid for f in app._hooks[name]]
        del called[:]
        try:
            core.with_timeout(lambda: app.emit(name))
        except core.Hang:
            raise
        except Exception as e:  # noqa
            bad.append(('emit-raises', f'emit({name!r}) raised {type(e).__name__} with editors {editors!r}'))
            continue
        if called != snapshot:
            bad.append(('emit-snapshot', f'emit({name!r}) over {snapshot} with editors {editors!r} called {called}'))
    return bad


def oracle_errors(regs, probes):
    """regs: [(code (int | numeric str), id)]; probes: statuses an aborting route raises"""
    M, app = _fresh()
    bad, log = [], []
    shadow = {}
    for code, i in regs:
        h = _mk(log, i)
        try:
            r = app.error(code)(h)
        except Exception as e:  # noqa
            bad.append(('error-int', f'error({code!r}) raised {type(e).__name__}'))
            continue
        if r is not h:
            bad.append(('error-return', f'error({code!r})(h) did not return h'))
        shadow[int(code)] = i
    for s in probes:
        a2 = _mk([], 99, abort=s)
        app.route('/e%d' % s, 'GET', a2, overwrite=True)
        del log[:]
        status, _ = _req(app, 'GET', '/e%d' % s)
        ran = [e[0] for e in log]
        want = [shadow[s]] if s in shadow else []
        if ran != want or status != s:
            bad.append(('error-lookup', f'after {regs!r} an HTTPError {s} was handled by {ran} (status {status}), expected {want}'))
    return bad


def oracle_partial(hooked, routes, path):
    """hooked: [(rule, id)] registered with error(404, rule); routes: rules with a GET callback; a request to `path`"""
    M, app = _fresh()
    bad, log = [], []
    for r in routes:
        app.route(r, 'GET', _mk(log, 100))
    shadow = {}
    for rule, i in hooked:
        h = _mk(log, i)
        if app.error(404, rule)(h) is not h:
            bad.append(('partial-404', 'error(404, rule)(h) did not return h'))
        shadow[rule.strip('/')] = i
    if any(isinstance(k, int) for k in app.error_handlers):
        bad.append(('partial-404', f'error(404, rule) wrote error_handlers {list(app.error_handlers)!r}'))
    p = path.strip('/')
    if any(p == path_of(r).strip('/') for r in routes):
        return bad
    del log[:]
    status, _ = _req(app, 'GET', path)
    # the innermost hooked pattern on the way to `path`: the longest one that is a prefix of it (the tree is a radix tree over
    # characters: a hooked `/a` is also on the way to `/apix`)
    best = None
    for pre in sorted(shadow, key=len, reverse=True):
        if p.startswith(pre):
            best = pre
            break
    ran = [(e[0], e[1][0] if e[1] else None) for e in log]
    if best is None:
        if ran or status != 404:
            bad.append(('partial-404', f'no hooked prefix of {path!r} ({sorted(shadow)}), yet {ran} ran / status {status}'))
    elif [r[0] for r in ran] != [shadow[best]]:
        bad.append(('partial-404', f'404 under hooked prefix {best!r} of {path!r} (hooks {sorted(shadow)}, routes {routes}): ran {ran}'))
    elif best and ran[0][1] != '/' + best:
        bad.append(('partial-404', f'partial hook of {best!r} called with {ran[0][1]!r}'))
    return bad


def oracle_aliases():
    import ombott
    from ombott import ombott as M
    bad = []
    d = M.default_app()
    for holder, hn in ((M.Globals, 'Globals'), (ombott, 'ombott')):
        for n in ('route', 'on_route', 'error'):
            f = getattr(holder, n)
            if getattr(f, '__self__', None) is not d or f.__func__ is not getattr(M.Ombott, n):
                bad.append(('aliases', f'{hn}.{n} is not the default application\'s {n}'))
        for n in ('request', 'response'):
            if getattr(holder, n) is not getattr(d, n):
                bad.append(('aliases', f'{hn}.{n} is not default_app().{n}'))
        if holder.app is not d:
            bad.append(('aliases', f'{hn}.app is not default_app()'))
    return bad


def oracle_run():
    bad = []
    want = {(None, False, False): 'plan:default:factory:1:0:1', ('app', True, False): 'plan:1:factory:1:1:0',
            ('app', False, True): 'plan:1:factory:1:1:0', ('noncallable', False, False): 'err:ValueError'}
    for (k, q, sq), w in want.items():
        got = real_run(k, ['f', 1], q, sq)
        if got != w:
            bad.append(('run', f'run(app={k}, quiet={q}) with a server whose quiet is {sq}: {got}, expected {w}'))
    got = real_run('app', ['n', 'wsgiref'], True, False)
    if got != 'plan:1:WSGIRefServer:1:0':
        bad.append(('run', f"run(app, server='wsgiref', quiet=True): {got}"))
    return bad


def search_stream(rng, n, pid, stats, seeds=()):
    """(evaluations, [Finding])"""
    cases = [('shortcuts', None), ('aliases', None), ('run', None)]
    cases.append(('forms', [[['direct', '/a', 'get', None], ['shortcut', '/a', 'POST', None], ['deco', '/a', ['put', 'Any'], None]],
                            ['GET', 'post', 'Put', 'HEAD', 'delete']]))
    cases.append(('hooks', [[['add', BEFORE, 1], ['add', BEFORE, 2], ['add', AFTER, 1], ['on', AFTER, 2], ['deco', AFTER, 3],
                             ['remove', BEFORE, 1]], {'2': [['r', BEFORE, 2]], '3': [['a', AFTER, 4], ['r', AFTER, 1]]}]))
    # a callback registered more than once (remove_hook takes the FIRST occurrence; the after list is built back to front)
    cases.append(('hooks', [[['add', BEFORE, 1], ['add', BEFORE, 2], ['add', BEFORE, 1], ['add', BEFORE, 3], ['remove', BEFORE, 1]], {}]))
    cases.append(('hooks', [[['add', AFTER, 1], ['on', AFTER, 2], ['add', AFTER, 1], ['deco', AFTER, 3], ['remove', AFTER, 1]], {}]))
    cases.append(('hooks', [[['add', BEFORE, 4], ['add', BEFORE, 4], ['add', BEFORE, 5], ['remove', BEFORE, 4], ['add', AFTER, 5],
                             ['add', AFTER, 4], ['add', AFTER, 5], ['remove', AFTER, 5]], {}]))
    cases.append(('errors', [[[404, 1], ['404', 2], [' 500 ', 3], ['+4_18', 4]], [404, 500, 418, 403]]))
    cases.append(('partial', [[['/api', 1], ['/api/v1', 2]], ['/api/v1/x'], '/api/v1/y/z']))
    for s in seeds:
        if isinstance(s, dict) and s.get('kind') == 'regapi' and s.get('sub') == 'hist':
            regs = []
            for o in s['ops']:
                if o != 'NEW' and o[1] in ('RT', 'RD') and o[3] is not None and o[2] not in BAD_RULES and o[0] == 0:
                    regs.append(['direct' if o[1] == 'RT' else 'deco', o[2], o[3], None])
            if regs:
                cases.append(('forms', [regs[:6], ['GET', 'head', 'Post', 'FOO']]))
    for _ in range(n):
        k = rng.random()
        if k < .4:
            rules = rng.sample(ORACLE_RULES, rng.randint(1, 2))
            regs = [[rng.choice(FORMS), rng.choice(rules), gen_methods(rng, VERBS + ['ANY']) or 'GET', None]
                    for _ in range(rng.randint(1, 5))]
            verbs = [respell(rng, v) for v in rng.sample(VERBS + ['ANY', 'FOO'], 4)] + ['HEAD']
            cases.append(('forms', [regs, verbs]))
        elif k < .65:
            seq = []
            for _ in range(rng.randint(1, 9)):
                name = rng.choice(HOOK_NAMES) if rng.random() < .93 else rng.choice(BAD_HOOK_NAMES)
                seq.append([rng.choice(['add', 'add', 'on', 'deco', 'remove']), name, rng.randint(1, 5)])
            editors = {}
            for i in range(1, 6):
                if rng.random() < .4:
                    editors[str(i)] = [[rng.choice('ar'), rng.choice(HOOK_NAMES), rng.randint(1, 7)]
                                       for _ in range(rng.choice([1, 1, 2]))]
            cases.append(('hooks', [seq, editors]))
        elif k < .85:
            regs = [[rng.choice(ABORT_CODES) if rng.random() < .5 else rng.choice(CODE_STRS[:11]), rng.randint(1, 8)]
                    for _ in range(rng.randint(1, 6))]
            cases.append(('errors', [regs, rng.sample(ABORT_CODES, 3)]))
        else:
            hooked = [[rng.choice(['/api', '/api/v1', '/a', '/a/b', '/b']), i + 1] for i in range(rng.randint(1, 3))]
            routes = rng.sample(['/api/v1/x', '/a/b/c', '/api', '/a', '/b/c'], rng.randint(0, 2))
            path = rng.choice(['/api/zz', '/api/v1/q', '/api/v1/x/y', '/a/zz', '/a/b/zz/k', '/b/q', '/zz', '/apix', '/a/bc'])
            cases.append(('partial', [hooked, routes, path]))
    evals, findings = 0, []
    for kind, x in cases:
        evals += 1
        bump(stats, 'regapi:oracle:' + kind)
        try:
            bad = core.with_timeout(lambda: run_oracle(kind, x), 20)
        except core.Hang:
            bad = [('hang', 'a registration / request did not return')]
        except Exception as e:  # noqa
            bad = [('oracle-exception', f'{kind}: {type(e).__name__}: {e}')]
        for key, what in bad:
            findings.append(Finding(f'{pid}:regapi:{key}', what, dict(probe='regapi', kind=kind, value=x)))
    findings.sort(key=lambda f: len(repr(f.replay['value'])))
    return evals, findings


def run_oracle(kind, x):
    if kind == 'forms':
        return oracle_forms([tuple(r) for r in x[0]], list(x[1]))
    if kind == 'shortcuts':
        return oracle_shortcuts()
    if kind == 'hooks':
        return oracle_hooks([tuple(s) for s in x[0]], {int(k): [tuple(a) for a in v] for k, v in x[1].items()})
    if kind == 'errors':
        return oracle_errors([tuple(r) for r in x[0]], list(x[1]))
    if kind == 'partial':
        return oracle_partial([tuple(h) for h in x[0]], list(x[1]), x[2])
    if kind == 'aliases':
        return oracle_aliases()
    if kind == 'run':
        return oracle_run()
    return []


def replay_case(i, pid):
    if i.get('probe') == 'regapi':
        return dict(input=i, oracle=[list(b) for b in run_oracle(i['kind'], i['value'])])
    out = dict(input=i)
    if i.get('sub') == 'hist':
        case = dict(ops=i['ops'], hooks={int(k): (v[0], v[1]) for k, v in i['hooks'].items()},
                    aborts={int(k): v for k, v in i['aborts'].items()})
        out['line'] = case_line(case)
        out['impl_now'] = ' '.join(run_case(case))
    elif i.get('sub') == 'run':
        out['impl_now'] = real_run(i['app'], i['server'], i['quiet'], i['server_quiet'])
    return out


# --------------------------------------------------------------------------------------
# hooking the stream into C02

RA_ANCHORS = ['ombott/ombott.py', 'ombott/router/radirouter.py', 'ombott/server_adapters.py', 'ombott/__init__.py']
RA_RULE = (' || registration surface (regapilib): histories of 4-12 registration calls on 1-2 real applications (number 0 the '
           'live Globals.app, also through the module-level aliases) - route direct / decorator / shortcut / shortcut decorator / '
           'add_route over method spellings in every letter case as str or list, names, overwrite, falsy callables, a positional '
           'callback on a shortcut, unknown shortcut attributes, malformed rules; remove_route; add_hook / on / @on / remove_hook / '
           'emit with self-editing, raising and one-shot hooks and unknown hook names; on_route / remove_route_hook; error(code) '
           'with int and str codes (signs, blanks, underscores, malformed), error(404, rule) - with WSGI requests over all methods '
           'and letter cases after most steps (hooks called, callback / partial hook / 404 / 405 + Allow, status, custom error '
           'handler, critical) and dumps of _hooks, error_handlers, routes; run() with a recording server; int(); vs '
           'Model/RegApi.lean; oracle: forms agree with RadiRouter.add and return the callback, case-insensitive dispatch with '
           'fallbacks and exact Allow, shortcut table, hook order and first-occurrence removal, emission snapshot, last error '
           'handler per int(code), innermost partial 404 hook, aliases, run() decisions')
RA_ASSUMPTIONS = ['registration surface: rules in the correspondence run carry no filters (filter compilation and the filter '
                  'handlers are parameters of the router model, exercised by C01/C11); rule and hook-name arguments are str; '
                  'error() codes are int or str (ASCII digits); what hooks / callbacks do when they run is a parameter (Ctx) '
                  'instantiated by the generated programs; Globals.app is reset (router, error_handlers, _hooks) around each case']
RA_NOTE = ('registration surface: `app.<verb>(rule, cb)` with the callback as second POSITIONAL argument raises TypeError '
           '(the partialmethod pins `method` by keyword; the stub signatures advertise `(rule, callback)`): model follows the '
           'code, proposed_fixes/regapi-shortcut-positional-callback.patch; a falsy callable is treated as "no callback"')


def install(cls, quick=(330, 260), thorough=(5000, 4000)):
    """adds the registration stream to check class `cls`: table, anchors, correspondence, oracle, replay"""
    pid = cls.pid
    cls.tables = list(cls.tables) + ['regapi']
    cls.anchors = list(cls.anchors) + [a for a in RA_ANCHORS if a not in cls.anchors]
    cls.rule = cls.rule + RA_RULE
    cls.assumptions = list(cls.assumptions) + RA_ASSUMPTIONS
    cls.level_note_extra = (cls.level_note_extra + '; ' if cls.level_note_extra else '') + RA_NOTE
    o_budget, o_corr, o_search, o_replay, o_nontrivial = cls.budget, cls.corr, cls.search, cls.replay, cls.nontrivial

    def budget(self, tier, escalated):
        self._ra = (tier, escalated)
        return o_budget(self, tier, escalated)

    def sizes(self):
        tier, esc = getattr(self, '_ra', ('quick', False))
        a, b = quick if tier == 'quick' else thorough
        return (a * 3, b * 3) if (esc and tier == 'quick') else (a, b)

    def corr(self, rng, n):
        out = o_corr(self, rng, n)
        if getattr(self, 'stats', None) is None:
            self.stats = {}
        out += corr_stream(rng, sizes(self)[0], pid, self.stats)
        return out

    def search(self, rng, n, seeds):
        mine = [s for s in seeds if isinstance(s, dict) and s.get('kind') == 'regapi']
        evals, findings = o_search(self, rng, n, [s for s in seeds if not (isinstance(s, dict) and s.get('kind') == 'regapi')])
        if getattr(self, 'stats', None) is None:
            self.stats = {}
        try:
            ev, fs = core.with_timeout(lambda: search_stream(rng, sizes(self)[1], pid, self.stats, mine), 170)
        except core.Hang:
            ev, fs = 1, [Finding(f'{pid}:regapi:hang', 'the registration oracle stream did not terminate',
                                 dict(probe='regapi', kind='hang', value=None))]
        return evals + ev, list(findings) + fs

    def replay(self, data):
        i = data.get('input')
        if isinstance(i, dict) and (i.get('probe') == 'regapi' or i.get('kind') == 'regapi'):
            return replay_case(i, pid)
        return o_replay(self, data)

    def nontrivial(self, sample):
        if isinstance(sample, dict) and sample.get('kind') == 'regapi':
            return sample.get('sub') != 'hist' or len(sample.get('ops', [])) >= 4
        return o_nontrivial(self, sample)

    cls.budget, cls.corr, cls.search, cls.replay, cls.nontrivial = budget, corr, search, replay, nontrivial
    return cls
