"""property id -> check class (imported lazily so that one broken module cannot take the
others down)"""
import importlib


class _Lazy(dict):
    MODS = {f'C{i:02d}': f'harness.c{i:02d}' for i in range(1, 21)}

    def __getitem__(self, pid):
        mod = importlib.import_module(self.MODS[pid])
        return getattr(mod, pid)


REGISTRY = _Lazy()
