"""C20 - Framework error pages never reflect request data unescaped."""
import io
import json
import string
from html.parser import HTMLParser

from harness import core
from harness.core import hb, hs, Check, Finding


def o(x):
    """optional text: `~` = None, `-` = empty, else hex of UTF-8"""
    return '~' if x is None else hs(x)


# ----------------------------------------------------------------------------------------
# text generators: dense in what the property names (markup, quotes, braces, format syntax,
# non-ASCII, control characters)

MARKUP = ['<', '>', '"', "'", '&']
FORMAT = ['{', '}', '{0}', '{url}', '{e.__class__}', '{e.status}', '{e.body}', '{{', '}}', '{}', '{0!r}',
          '{exception}', '{traceback}', '%s', '%(url)s', '{e.__init__.__globals__}']
HTMLISH = ['<script>', '</tt>', '</pre>', '<img src=x onerror=alert(1)>', '&amp;', '&lt;', '&#x27;', '&#039;',
           '&quot', '<!--', '-->', '</style>', '<style>', '"><b>', "'><i>", '\\', '\\x3c', '\\u003c', '\\"', "\\'"]
NONASCII = ['\xe9', '\xdf', '\xa0', '\xad', '\x80', '\x9f', '\xff', '\u0100', '\u20ac', '\u2603', '\u2028', '\u200b',
            '\ufeff', '\u0378', '\ud7ff', '\ue000', '\uffff', '\U0001f600', '\U00010000', '\U000e0001', '\U0010ffff',
            '\u2100', '\uff1c', '\ufe64']
CONTROL = ['\t', '\n', '\r', '\x00', '\x01', '\x08', '\x0c', '\x1b', '\x1f', '\x7f', ' ']
URLISH = ['/', '?', '#', ':', ';', '=', '[', ']', '@', '..', '.', '//', 'http:', 'javascript:', '%', '%3C', '%00', '+',
          '~', '_', '-', '!', '*', '(', ')', ',', '$', '|', '^', '`']
PLAIN = ['a', 'b', 'x', 'Z', '0', '9', 'index', 'q', 'id']
ALL = MARKUP * 3 + FORMAT + HTMLISH + NONASCII + CONTROL + URLISH + PLAIN


def gen_text(rng, maxn=8, pool=None):
    pool = pool or ALL
    return ''.join(rng.choice(pool) for _ in range(rng.randint(0, maxn)))


# ----------------------------------------------------------------------------------------
# the size axis: lengths around which a length-dependent code path (a cap, a buffer, a "keep the page small"
# clean-up) would switch, measured on the raw field, the assembled URL, the escaped URL and the whole body

THRESHOLDS = [250, 1000, 1024, 2048, 4096, 8192, 65536]
DELTAS = [-2, -1, 0, 1, 2]
MEASURES = ['field', 'url', 'esc', 'body']
SIZE_PAYLOADS = ['<script>alert(1)</script>', '"><img src=x onerror=alert(1)>', "'><i>", '</tt><h1>x</h1>', '<b>', '<', '>',
                 '"', "'", '&', '&lt;', '&amp;lt;', '{url}', '{0}', '{e.__class__}', '<!--', '\\', '\xe9<\xe9', '<\U0001f600>']
SIZE_PADS = ['a', 'a', 'a', 'ab ', 'a=1&', '&', '<', '>', '"', "'", '\xe9', '\\', '\x7f', '%41', '\U0001f600', '../', './',
             '{0}', '{', '}}', '\x80', '\u2028', ' ']
LAYOUTS = ['pad', 'start', 'end', 'middle', 'around', 'repeat', 'straddle', 'every']


def fill(pad, n):
    return (pad * (n // len(pad) + 1))[:n] if n > 0 else ''


def sized_text(rng, total, layout=None, payload=None, pad=None):
    """a text of about `total` characters: padding before / after / around markup payloads, repeated payloads,
    a payload straddling one of the thresholds, a payload at every threshold"""
    layout = layout or rng.choice(LAYOUTS)
    payload = payload if payload is not None else rng.choice(SIZE_PAYLOADS)
    pad = pad or rng.choice(SIZE_PADS)
    rest = max(0, total - len(payload))
    if layout == 'pad':
        return fill(pad, total)
    if layout == 'start':
        return payload + fill(pad, rest)
    if layout == 'end':
        return fill(pad, rest) + payload
    if layout == 'middle':
        return fill(pad, rest // 2) + payload + fill(pad, rest - rest // 2)
    if layout == 'around':
        return payload + fill(pad, max(0, rest - len(payload))) + payload
    if layout == 'repeat':
        sep = rng.choice(['', '', ' ', '&', 'a'])
        unit = payload + sep
        return (unit * (total // len(unit) + 1))[:max(total, len(unit))]
    below = [t for t in THRESHOLDS if t <= total] or [total]
    if layout == 'straddle':          # the payload lies across a threshold
        t = rng.choice(below)
        off = max(0, t - rng.randint(0, len(payload) + 1))
        return fill(pad, off) + payload + fill(pad, max(0, total - off - len(payload)))
    out, pos = [], 0                  # 'every': one payload just before and one just after every threshold
    for t in below:
        for at in (t - len(payload), t):
            if at >= pos:
                out.append(fill(pad, at - pos) + payload)
                pos = at + len(payload)
    out.append(fill(pad, max(0, total - pos)))
    return ''.join(out)


def size_plan(rng, n, holes):
    """[(threshold, delta|None, measure|None, slot|None, field|None)]: exact fits `measure == threshold + delta`
    and approximate sizes.  The quick tier samples the grid (slot and field left to the case generator); the
    thorough tier walks threshold x delta x measure for every hole (slot, field) of every kind of response,
    the 64 KiB row with one delta per cell."""
    plan = []
    full = n >= 5000
    for t in THRESHOLDS:
        heavy = t >= 65536
        for m in MEASURES:
            if full:
                for slot, f in holes:
                    for d in (DELTAS if not heavy else rng.sample(DELTAS, 1)):
                        plan.append((t, d, m, slot, f))
            else:
                for d in rng.sample(DELTAS, 1 if heavy else 2):
                    plan.append((t, d, m, None, None))
        approx = {250: 6, 1000: 6, 1024: 10, 2048: 8, 4096: 8, 8192: 6, 65536: 3}[t] * (6 if full else 1)
        plan += [(t, None, None, None, None)] * approx
    return plan


# the Accept axis: whatever rendering the framework picks for these, the final Content-Type must agree with the body
ACCEPTS = [None, '', 'text/html', 'text/plain', 'text/plain; q=0.9, */*', 'text/plain;q=0.9,*/*;q=0.1', 'text/*', '*/*',
           'application/xml', 'application/xhtml+xml', 'text/html;q=0.5, application/json', 'application/json',
           'application/json;q=0.9, */*;q=0.1', 'application/json; charset=utf-8', 'application/json, text/plain',
           'Application/JSON', 'APPLICATION/JSON', ' application/json', 'application/jsonx', 'application/json-patch+json',
           'text/json', 'text/csv', 'text/x-plain', 'TEXT/PLAIN', 'text/plain, text/html', 'image/png', 'garbage', ';;;', ',',
           'text/plain\t', 'text', '/', 'application/x-www-form-urlencoded', 'multipart/form-data', 'text/event-stream',
           'text/html,application/xhtml+xml,application/xml;q=0.9,*/*;q=0.8', 'text/markdown', 'text/xml', 'application/octet-stream']
LAST = {}        # the header list the application handed to start_response in the last call


def latin1_view(s):
    """what a WSGI server hands over for the bytes of `s`"""
    return s.encode('utf8').decode('latin1')


def has_surrogate(s):
    return any(0xd800 <= ord(c) < 0xe000 for c in s)


def fmt_supported(ln):
    """the fragment of str.format the model interprets: plain names, `e.status`, `e.body`; no conversion,
    format spec or indexing (the model answers `unsupported` there, by design never a guess)"""
    try:
        for _lit, name, spec, conv in string.Formatter().parse(ln):
            if name is None:
                continue
            if conv or spec or '[' in name:
                return False
            first = name.split('.')[0]
            if first == 'e' and name not in ('e.status', 'e.body'):
                return False
            if first in ('url', 'exception', 'traceback') and '.' in name:
                return False
    except ValueError:
        pass
    return True


# ----------------------------------------------------------------------------------------
# the application under test

class Cur:
    """what the handlers do for the current request"""
    cls = ValueError
    msg = ''
    msg2 = ''
    tb = ''
    code = 500
    text = None
    hook = False
    hit = None
    obj = 1


class Boom(Exception):
    pass


REG_CODES = (400, 404, 405, 413, 500, 418, 599)
BAD_OBJS = [123, 1.5, (1,), {'a': 1}, Boom('x'), object]      # truthy, not text: `_cast` answers 500
EXC = [ValueError, KeyError, RuntimeError, ZeroDivisionError, Boom, TypeError]


class FaultyPath:
    """stands in for the template path: every way of reading it raises `exc`"""

    def __init__(self, exc):
        self._exc = exc

    def _fail(self, *a, **kw):
        raise self._exc
    open = read_text = read_bytes = _fail

    def __fspath__(self):
        return '/nonexistent-verif/ombott.pyz/error.html'

    def __str__(self):
        return self.__fspath__()


def template_fault(name):
    """the object `error_render.html` is replaced with (class: a resource that fails when it is first used)"""
    import errno
    import pathlib
    if name == 'missing':               # zipapp / frozen build: the package directory is no directory
        return pathlib.Path('/nonexistent-verif/ombott.pyz/ombott/error.html')
    if name == 'notdir':
        return pathlib.Path(core.__file__) / 'error.html'
    if name == 'isdir':
        return pathlib.Path(core.__file__).parent
    if name == 'perm':
        return FaultyPath(PermissionError(errno.EACCES, 'Permission denied'))
    if name == 'emfile':
        return FaultyPath(OSError(errno.EMFILE, 'Too many open files'))
    if name == 'eio':
        return FaultyPath(OSError(errno.EIO, 'Input/output error'))
    if name == 'decode':
        return FaultyPath(UnicodeDecodeError('utf-8', b'\xff', 0, 1, 'invalid start byte'))
    raise ValueError(name)


# (MemoryError is not among them: the framework lets it through to the server on purpose, there is no response to judge)
TEMPLATE_FAULTS = ['missing', 'notdir', 'isdir', 'perm', 'emfile', 'eio', 'decode']
# configuration histories that END with debug off (the property speaks about that state): debug on while error
# responses were rendered (HTML, JSON, both), switched off by setup(); on/off/on/off; off all along with a setup()
HISTORIES = [
    dict(debug0=True, steps=[['warm', 'nf', None], ['setup', False]]),
    dict(debug0=True, steps=[['warm', 'crash', 'text/html'], ['setup', False]]),
    dict(debug0=True, steps=[['warm', 'crash', 'application/json'], ['warm', 'na', None], ['setup', False]]),
    dict(debug0=True, steps=[['setup', False]]),
    dict(debug0=False, steps=[['warm', 'nf', None], ['setup', True], ['warm', 'crash', None], ['setup', False]]),
    dict(debug0=False, steps=[['setup', True], ['setup', False], ['warm', 'nf', None]]),
    dict(debug0=False, steps=[['warm', 'crash', None], ['setup', False]]),
]


class Apps:
    """four real `Ombott()` applications: debug off/on x default / failing error handlers"""

    def __init__(self):
        import ombott.ombott as om
        from ombott import Ombott
        from ombott.request_pkg import errors as rerr
        self.om = om
        self.rerr = rerr
        from ombott import error_render
        self.error_render = error_render
        self.cur = cur = Cur()

        class Custom(rerr.RequestError):
            pass
        self.req_classes = {'RequestError': rerr.RequestError, 'BodyParsingError': rerr.BodyParsingError,
                            'BodySizeError': rerr.BodySizeError, 'Custom': Custom}
        self.apps = {}
        for debug in (False, True):
            for failing in (False, True):
                app = Ombott({'debug': debug})
                self._routes(app, cur)
                if failing:
                    def bad_handler(res):
                        raise RuntimeError(cur.msg2)
                    for code in REG_CODES:
                        app.error(code)(bad_handler)
                self.apps[(debug, failing)] = app
        self._old_fe = om.format_exc
        om.format_exc = lambda: cur.tb

    def close(self):
        self.om.format_exc = self._old_fe

    def make_app(self, debug, failing):
        from ombott import Ombott
        cur = self.cur
        app = Ombott({'debug': debug})
        self._routes(app, cur)
        if failing:
            def bad_handler(res):
                raise RuntimeError(cur.msg2)
            for code in REG_CODES:
                app.error(code)(bad_handler)
        return app

    def warm(self, app, steps):
        """harmless earlier requests: each `(kind, accept)` renders one error response of the application as configured"""
        cur = self.cur
        keep = (cur.cls, cur.msg, cur.msg2, cur.tb, cur.hook, cur.hit)
        for kind, accept in steps:
            env = base_env()
            env.update({'PATH_INFO': {'nf': '/zz/earlier', 'crash': '/crash/earlier', 'na': '/post/earlier'}[kind],
                        'QUERY_STRING': 'earlier=1', 'SERVER_NAME': 'srv', 'SERVER_PORT': '80', 'wsgi.url_scheme': 'http'})
            if accept is not None:
                env['HTTP_ACCEPT'] = accept
            cur.cls, cur.msg, cur.msg2, cur.tb, cur.hook = ValueError, 'earlier', 'earlier', 'Traceback: earlier', False
            wsgi_call(app, env)
        cur.cls, cur.msg, cur.msg2, cur.tb, cur.hook, cur.hit = keep

    def reconfigured(self, debug, failing):
        """an application whose configuration CHANGED between requests: it ran under the opposite debug mode, rendered
        error responses (HTML and JSON) there, and was then given its present mode by `setup()`; every call repeats the
        round trip, so the judged request is always the first one after a `setup()`"""
        if not hasattr(self, '_reconf'):
            self._reconf = {}
        app = self._reconf.get((debug, failing))
        if app is None:
            app = self._reconf[(debug, failing)] = self.make_app(not debug, failing)
        else:
            app.setup({'debug': not debug})
        self.warm(app, [('nf', None), ('crash', 'text/html'), ('crash', 'application/json')])
        app.setup({'debug': debug})
        return app

    def history_app(self, hist, failing):
        """a fresh application taken through `hist` = dict(debug0, steps=[['warm', kind, accept] | ['setup', debug]])"""
        app = self.make_app(hist['debug0'], failing)
        for st in hist['steps']:
            if st[0] == 'warm':
                self.warm(app, [(st[1], st[2])])
            else:
                app.setup({'debug': st[1]})
        return app

    def _routes(self, app, cur):
        om, rerr = self.om, self.rerr

        @app.route('/ok/<p:path>')
        def ok(p):
            cur.hit = 'ok'
            return cur.text

        @app.route('/crash/<p:path>')
        def crash(p):
            cur.hit = 'crash'
            raise cur.cls(cur.msg)

        @app.route('/post/<p:path>', method='POST')
        def post(p):
            cur.hit = 'post'
            return 'posted'

        @app.route('/reqerr/<p:path>')
        def reqerr(p):
            cur.hit = 'reqerr'
            app.request._raise(cur.cls(cur.msg), rerr.RequestError)

        @app.route('/json/<p:path>')
        def js(p):
            cur.hit = 'json'
            app.request.json
            return 'json read'

        @app.route('/abort/<p:path>')
        def ab(p):
            cur.hit = 'abort'
            om.abort(cur.code, cur.text)

        @app.route('/gen/<p:path>')
        def gen(p):
            cur.hit = 'gen'

            def g():
                raise cur.cls(cur.msg)
                yield 'never'
            return g()

        @app.route('/badtype/<p:path>')
        def badtype(p):
            cur.hit = 'badtype'
            return [cur.obj]

        @app.on('before_request')
        def hook():
            if cur.hook:
                cur.hit = 'hook'
                raise cur.cls(cur.msg)


def base_env(method='GET'):
    return {'REQUEST_METHOD': method, 'SERVER_PROTOCOL': 'HTTP/1.1', 'wsgi.errors': io.StringIO(),
            'wsgi.input': io.BytesIO(b''), 'wsgi.version': (1, 0), 'wsgi.multithread': False,
            'wsgi.multiprocess': False, 'wsgi.run_once': False}


def wsgi_call(app, env):
    return core.with_timeout(lambda: _wsgi_call(app, env), 10)


def _wsgi_call(app, env):
    st = {}

    def sr(status, headers, exc_info=None):
        st['s'], st['h'] = status, headers
    out = app(env, sr)
    try:
        body = b''.join(out)
    finally:
        close = getattr(out, 'close', None)
        if close:
            close()
    LAST['headers'] = list(st['h'])
    ctype = ','.join(v for k, v in st['h'] if k.lower() == 'content-type')
    return st['s'], ctype, body


URL_KEYS = [('fproto', 'HTTP_X_FORWARDED_PROTO'), ('scheme', 'wsgi.url_scheme'), ('fhost', 'HTTP_X_FORWARDED_HOST'),
            ('host', 'HTTP_HOST'), ('sname', 'SERVER_NAME'), ('sport', 'SERVER_PORT'), ('qs', 'QUERY_STRING'),
            ('script', 'SCRIPT_NAME')]
SCRIPTS = [None] * 8 + ['', '/', '/app', '/a/b/', 'app', '//x//y//', '/a?b', '/a;p/c', '/a#f', '/..', '/a/./b', '/\t/x', ' /s']


def gen_urlenv(rng, rich=True):
    """the environ entries Request.urlparts reads (None = key absent)"""
    t = lambda n=6: gen_text(rng, n)
    d = {}
    d['fproto'] = rng.choice([None, None, None, '', 'https', 'http', t(3)])
    d['scheme'] = rng.choice(['http', 'http', 'https', None, '', 'ftp', 'x', t(2)])
    d['fhost'] = rng.choice([None, None, None, '', 'proxy.example', t()])
    d['host'] = rng.choice([None, '', 'example.com', 'example.com:8080', t(), t(), latin1_view(t())])
    d['sname'] = rng.choice([None, '', 'srv', 'localhost', t(3)])
    d['sport'] = rng.choice([None, '', '80', '443', '8080', t(2)])
    d['qs'] = rng.choice([None, '', 'a=1&b=2', t(), t(10), latin1_view(t(10)), t(10)])
    d['script'] = rng.choice(SCRIPTS) if rng.random() < .9 else gen_text(rng, 3)
    if rng.random() < .15:      # unusual but legal header combinations
        d['host'] = rng.choice(['[::1]', '[::1]:8080', '[2001:db8::1]:443', 'user:pw@example.com', 'example.com:80',
                                'example.com:443', 'EXAMPLE.com.', 'a.example, b.example', 'xn--bcher-kva.example',
                                'example.com:0', 'example.com:', ' example.com', 'example.com\t', '*'])
    if rng.random() < .1:
        d['fhost'] = rng.choice(['a.example, b.example', 'proxy1, proxy2:8443', '[::1]:80', 'a.example,', ', b', 'unknown'])
    if rng.random() < .1:
        d['fproto'] = rng.choice(['https,http', 'HTTPS', 'http, https', 'wss', 'on', 'https ', 'ftp'])
    if rng.random() < .1:
        d['sport'], d['scheme'] = rng.choice([('443', 'https'), ('80', 'https'), ('443', 'http'), ('80', 'http'), ('8443', 'https')])
        d['host'] = d['fhost'] = None
    if not rich:
        d['fproto'] = None
        d['scheme'] = 'http'
    return d


def put_urlenv(env, d):
    for k, key in URL_KEYS:
        if d[k] is not None:
            env[key] = d[k]


LIB_UNUSED = 'ok:' + hs('LIB-NOT-CONSULTED')


def fullpath_of(env, config):
    """Request.fullpath of the live code on a copy of the environ: ('ok:<hex>' | 'err:<Name>', exception).
    This is also the library parameter of the model (urljoin's answer), which the model may consult only
    when an authority part `//...` has to be validated; when no `//` can arise the harness ships a
    sentinel instead, so a model that leaned on the parameter would be caught."""
    from ombott.request_pkg import Request
    e2 = {k: v for k, v in env.items() if not k.startswith('ombott.')}
    try:
        return 'ok:' + hs(Request(e2, config=config).fullpath), None
    except Exception as ex:
        return 'err:' + type(ex).__name__, ex


def lib_param(env, real):
    sn = env.get('SCRIPT_NAME')
    t = ('/' + sn.strip('/') + '/' if sn else '/') + '|' + env.get('PATH_INFO', '')
    for ch in '\t\r\n':
        t = t.replace(ch, '')
    return real if '//' in t else LIB_UNUSED


def urlenv_args(d, fullpath):
    return ' '.join(o(d[k]) for k, _ in URL_KEYS) + ' ' + fullpath


# ----------------------------------------------------------------------------------------
# independent oracle helpers (written from the property text)

class TagShape(HTMLParser):
    """the markup skeleton of a page: tags with attributes, comments, declarations"""

    def __init__(self):
        super().__init__(convert_charrefs=True)
        self.shape = []
        self.text = []

    def handle_starttag(self, tag, attrs):
        self.shape.append(('start', tag, tuple(attrs)))

    def handle_endtag(self, tag):
        self.shape.append(('end', tag))

    def handle_startendtag(self, tag, attrs):
        self.shape.append(('startend', tag, tuple(attrs)))

    def handle_comment(self, data):
        self.shape.append(('comment',))

    def handle_decl(self, decl):
        self.shape.append(('decl', decl))

    def handle_pi(self, data):
        self.shape.append(('pi',))

    def unknown_decl(self, data):
        self.shape.append(('unknown',))

    def handle_data(self, data):
        self.text.append(data)


def tag_shape(page):
    p = TagShape()
    p.feed(page)
    p.close()
    return p.shape, ''.join(p.text)


WRAPS = [('<', '>'), ('"', '"'), ("'", "'"), ('&', ';'), ('</tt><', '>'), ('"><', ' x="'), ("'><", " y='")]


class C20(Check):
    pid = 'C20'
    props_mod = 'OmbottModel.Props.C20'
    tables = ['errorpage']
    design_ref = '6/C20'
    level_text = ('Lean theorems over the model of html.escape/html_escape (generated replacement tables), repr, '
                  'error_render.render over the generated error.html lines, default_error_handler (HTML and JSON), '
                  'Request.url assembly (urlquote, urlunsplit, urljoin) and the last-resort page of wsgi: for every URL/Host/query text the page is '
                  'fixed template text around an escaped cell that contains no < > " \' and & only as an entity; '
                  'json.dumps output of the error dict parses back to the same values; model tied to the code by '
                  'real Ombott() WSGI calls on every run.')
    level_note_extra = ('str.isprintable and the authority validation inside urljoin are parameters; routing and the '
                        'user handler are a parameter (which error arises); debug off')
    anchors = ['ombott/error_render.py', 'ombott/error.html', 'ombott/ombott.py', 'ombott/common_helpers.py',
               'ombott/request_pkg/props_mixin.py']
    rule = ('paths, query strings, Host/X-Forwarded-Host/X-Forwarded-Proto values built from markup, quotes, braces, '
            'str.format syntax, control and non-ASCII characters x error kinds (404, 405, 400 undecodable path, '
            '400/413 bad body via errors_map, 500 crashing handler, hook or iterator, unsupported item type, abort, last-resort page via a failing '
            'error handler or a URL urljoin rejects) x a wide Accept axis (HTML, JSON, text/plain, wildcards, q-values, '
            'garbage; the oracle goes by the final Content-Type handed to start_response) x debug off/on x GET/HEAD through real '
            'Ombott() WSGI calls; unit lines for escape, repr, urlquote, json.dumps, json parsing, str.format, '
            'render, Request.fullpath, Request.url; a size axis in both streams (request texts and unit inputs at '
            '250/1000/1024+-2/2048/4096/8192/65536 characters measured on the field, the URL, the escaped URL and the '
            'body; padding before/after/around payloads, repeated payloads, payloads straddling each threshold), '
            'request methods and unusual Host / X-Forwarded-* / Accept combinations, cold template cache; applications whose '
            'configuration CHANGED between requests (ran and rendered HTML / JSON errors under the other debug mode, then setup(); '
            'on-off-on-off histories) in both streams - the model is given the mode in force; the template unreadable when first '
            'needed or after one use (missing / not a directory / a directory / EACCES / EMFILE / EIO / undecodable) in the oracle; non-trivial = input contains one of < > " \' & { }')
    assumptions = ['urljoin is modelled except for the validation of an authority part (//host: IPv6 brackets, NFKC): '
                   'there its live result is shipped to the model; elsewhere a sentinel is shipped instead',
                   'default app_name_header / no domain_map; X-Script-Name not consulted (allow_x_script_name off)',
                   'str.isprintable is a parameter of the theorems (the driver uses the table probed from CPython)',
                   'environ values are str (WSGI); lone surrogates are outside the model',
                   'which error arises (routing, handler behaviour) is a parameter; only its rendering is modelled',
                   'the entity list (&amp; &lt; &gt; &quot; &#x27; &#039;) is what a browser reads as character data']

    def budget(self, tier, escalated):
        n = 1500 if tier == 'quick' else 120000
        return n * (3 if escalated and tier == 'quick' else 1)

    def nontrivial(self, sample):
        s = json.dumps(sample)
        return any(c in s for c in '<>"\'&{}')

    def bump(self, k):
        self.stats[k] = self.stats.get(k, 0) + 1

    # ------------------------------------------------------------------
    # correspondence

    def corr(self, rng, n):
        self.stats = {}
        out = []
        from ombott import error_render
        import ombott.ombott as om
        from ombott.request_pkg import Request
        from ombott.request_pkg import props_mixin
        import sys
        props_mixin = sys.modules['ombott.request_pkg.props_mixin']
        error_render._html_lns[:] = []

        # -- unit: the two escapers, repr, urlquote
        for _ in range(n):
            s = gen_text(rng, 10)
            k = rng.randrange(4)
            if k == 0:
                out.append((f'errorpage escape {hs(s)}', hs(error_render.sanitize_html.escape(s)), dict(kind='escape', s=s)))
            elif k == 1:
                out.append((f'errorpage hescape {hs(s)}', hs(om.html_escape(s)), dict(kind='hescape', s=s)))
            elif k == 2:
                out.append((f'errorpage repr {hs(s)}', hs(repr(s)), dict(kind='repr', s=s)))
            else:
                out.append((f'errorpage quote {hs(s)}', hs(props_mixin.urlquote(s)), dict(kind='quote', s=s)))
            self.bump('unit:' + ['escape', 'hescape', 'repr', 'quote'][k])
        # every single character class once: all of Latin-1 + samples of every plane
        cps = list(range(0, 0x300)) + [rng.randrange(0x300, 0x110000) for _ in range(200 if n < 5000 else 3000)]
        chunk = []
        for cp in cps:
            if 0xd800 <= cp < 0xe000:
                continue
            chunk.append(chr(cp))
            if len(chunk) == 16:
                s = ''.join(chunk)
                chunk = []
                out.append((f'errorpage repr {hs(s)}', hs(repr(s)), dict(kind='repr', s=s)))
                out.append((f'errorpage escape {hs(s)}', hs(error_render.sanitize_html.escape(s)), dict(kind='escape', s=s)))
                out.append((f'errorpage hescape {hs(s)}', hs(om.html_escape(s)), dict(kind='hescape', s=s)))
                out.append((f'errorpage quote {hs(s)}', hs(props_mixin.urlquote(s)), dict(kind='quote', s=s)))

        # exhaustive small scope (thorough tier; validation of the model, not a decision): every string of
        # length <= 3 over the special characters and one representative of each other class
        if n >= 5000:
            import itertools
            alpha = ['<', '>', '"', "'", '&', '\\', 'a', '\n', '\xe9', '{', '\x7f', '\u2028']
            for k in range(0, 4):
                for tup in itertools.product(alpha, repeat=k):
                    s = ''.join(tup)
                    out.append((f'errorpage escape {hs(s)}', hs(error_render.sanitize_html.escape(s)), dict(kind='escape', s=s)))
                    out.append((f'errorpage hescape {hs(s)}', hs(om.html_escape(s)), dict(kind='hescape', s=s)))
                    out.append((f'errorpage repr {hs(s)}', hs(repr(s)), dict(kind='repr', s=s)))
                    self.bump('unit:exhaustive<=3')

        # -- unit: json.dumps of the error dict and the JSON reader
        texts = []
        for _ in range(n // 2):
            ot = lambda: rng.choice([None, '', gen_text(rng, 8)])
            b, e, t = ot(), ot(), ot()
            txt = json.dumps(dict(body=b, exception=e, traceback=t))
            out.append((f'errorpage dumps {o(b)} {o(e)} {o(t)}', hs(txt), dict(kind='dumps', body=b, exception=e, traceback=t)))
            texts.append(txt)
            self.bump('unit:dumps')
        JMUT = list('{}":,\\ unl01aFdD8c\t\n/') + ['\\ud83d', '\\ude00', '\\u00e9', '\\u0041', 'null', '"x"', ': ', ', ',
                                                  '\\n', '\\/', '\\b', '\\x', '\x7f', '\xe9', '\x01', 'true', '1', '[]', '{}']
        for _ in range(n // 2):
            k = rng.randrange(4)
            if k == 0 and texts:
                t = rng.choice(texts)
            elif k == 1 and texts:
                t = list(rng.choice(texts))
                for _ in range(rng.randint(1, 3)):
                    i = rng.randint(0, len(t))
                    if rng.random() < .5 and t:
                        del t[min(i, len(t) - 1)]
                    else:
                        t.insert(i, rng.choice(JMUT))
                t = ''.join(t)
            elif k == 2:
                kv = [(gen_text(rng, 2, JMUT), rng.choice([None, gen_text(rng, 4, JMUT + NONASCII)])) for _ in range(rng.randint(0, 3))]
                sep = rng.choice([(',', ':'), (', ', ': '), (' ,\n', '\t: ')])
                t = rng.choice(['', ' ', '\n']) + json.dumps(dict(kv), separators=sep, ensure_ascii=rng.random() < .5) + rng.choice(['', ' ', '\r\n', 'x'])
            else:
                t = gen_text(rng, 8, JMUT)
            ans = self._jparse_impl(t)
            if ans is None:
                continue
            out.append((f'errorpage jparse {hs(t)}', ans, dict(kind='jparse', text=t)))
            self.bump('unit:jparse:' + ans.split(' ')[0])

        # -- unit: str.format on template-like lines
        class E:
            pass
        FLD = ['{e.status}', '{e.body}', '{url}', '{exception}', '{traceback}']
        FBAD = ['{', '}', '{{', '}}', '{}', '{0}', '{nokey}', '{url', '{ur{l}', '{1.x}', '{URL}', '{e.status}}', '{{url}}']
        FLIT = ['<tt>', '</tt>', 'Error ', '<p>', "'", '"', '&', ' ', 'x', '\xe9', '<pre>', '%s']
        tlines = [ln for ln in self._template_lines() if '{' in ln and not ln.startswith(('html ', 'body ', 'pre '))]
        for _ in range(n // 2):
            if rng.random() < .3 and tlines:
                ln = rng.choice(tlines)
                if rng.random() < .5:
                    i = rng.randint(0, len(ln))
                    ln = ln[:i] + rng.choice(FLD + ['{{', '}}']) + ln[i:]
            else:
                ln = ''.join(rng.choice(FLD * 2 + FBAD + FLIT * 2) for _ in range(rng.randint(0, 6)))
            if not fmt_supported(ln):
                continue
            vals = [gen_text(rng, 3) for _ in range(5)]
            E.status, E.body = vals[0], vals[1]
            try:
                ans = 'ok ' + hs(ln.format(e=E, exception=vals[2], traceback=vals[3], url=vals[4]))
            except Exception as ex:
                ans = 'err ' + type(ex).__name__
            out.append(('errorpage fmt ' + ' '.join(hs(v) for v in vals) + ' ' + hs(ln), ans, dict(kind='fmt', line=ln, vals=vals)))
            self.bump('unit:fmt:' + ans.split(' ')[0] + (':' + ans.split(' ')[1] if ans.startswith('err') else ''))

        # -- unit: error_render.render
        class R:
            def __init__(self, t):
                self.t = t

            def __repr__(self):
                return self.t
        for _ in range(n // 2):
            debug = rng.random() < .3
            E.status = rng.choice(['404 Not Found', '500 Internal Server Error', gen_text(rng, 3)])
            body = rng.choice([None, 'Not Found', gen_text(rng, 4)])
            exc = rng.choice([None, gen_text(rng, 4)])
            tb = rng.choice([None, gen_text(rng, 6)])
            url = gen_text(rng, 12)
            E.body, E.exception, E.traceback = body, (None if exc is None else R(exc)), tb
            try:
                ans = 'ok ' + hs(error_render.render(E, url, debug))
            except Exception as ex:
                ans = 'err ' + type(ex).__name__
            out.append((f'errorpage render {int(debug)} {hs(E.status)} {o(body)} {o(exc)} {o(tb)} {hs(url)}', ans,
                        dict(kind='render', debug=debug, status=E.status, body=body, exc=exc, tb=tb, url=url)))
            self.bump('unit:render:debug' + str(int(debug)))

        # -- unit: Request.fullpath and Request.url
        PATHS = ['/http://[x', '/x://[', '/http://a]b/', '//[', '/a/../../b', '/./a/.', '/http://ok/x', '/x:y', '/', '',
                 '/a/..', '/a/b/../..', '/..', '/.', '/a//b///c', '/ //h/p', '/\t//h', '/a;p?q#f', '/?q', '/#f', '/;p',
                 '/a/b;p/c;q', '/a?', '/a#', '/1x:y', '/x+.-:y', '/ x:y', '/\x01\x1f x', '/a\tb\rc\nd', '/a /b', '/%2e%2e/x']
        for _ in range(n):
            d = gen_urlenv(rng)
            env = base_env()
            put_urlenv(env, d)
            k = rng.random()
            if k < .3:
                path = rng.choice(PATHS) + (gen_text(rng, 2) if rng.random() < .5 else '')
            elif k < .6:
                path = '/' + '/'.join(rng.choice(['a', 'b', '.', '..', '', 'x;p', 'c?d', 'e#f', ' ', 'x:y', gen_text(rng, 1)])
                                      for _ in range(rng.randint(0, 6)))
            else:
                path = '/' + gen_text(rng, 6)
            env['PATH_INFO'] = path
            real, _ = fullpath_of(env, None)
            lib = lib_param(env, real)
            self.bump('unit:fullpath:' + real.split(':')[0] + (':lib-unused' if lib == LIB_UNUSED else ':lib'))
            out.append((f'errorpage fullpath {o(d["script"])} {hs(path)} {lib}', real.replace(':', ' ', 1),
                        dict(kind='fullpath', script=d['script'], path=path)))
            if rng.random() < .5:
                try:
                    ans = 'ok ' + hs(Request(dict(env)).url)
                except Exception as ex:
                    ans = 'err ' + type(ex).__name__
                out.append(('errorpage url ' + urlenv_args(d, lib) + ' ' + hs(path), ans, dict(kind='url', env=d, path=path)))
                self.bump('unit:url:' + ans.split(' ')[0])

        # exhaustive small scope for the urljoin model (thorough tier): every PATH_INFO '/' + w, |w| <= 5, over
        # the characters urljoin treats specially
        if n >= 5000:
            import itertools
            alpha = ['a', '/', '.', ';', '?', '#', ':', ' ']
            for k in range(0, 6):
                for tup in itertools.product(alpha, repeat=k):
                    path = '/' + ''.join(tup)
                    env = base_env()
                    env['PATH_INFO'] = path
                    real, _ = fullpath_of(env, None)
                    out.append((f'errorpage fullpath ~ {hs(path)} {lib_param(env, real)}', real.replace(':', ' ', 1),
                                dict(kind='fullpath', script=None, path=path)))
                    self.bump('unit:fullpath:exhaustive<=5')

        # -- WSGI calls
        apps = Apps()
        try:
            for _ in range(n):
                case = self._gen_case(rng)
                line, ans, sample = self._serve(apps, case)
                out.append((line, ans, sample))
            # the size axis through the whole request path
            # every kind of response under every Accept header
            for kind in ['nf', 'na', 'crash', 'hook', 'badpath', 'reqerr', 'json', 'big', 'abort', 'ipv6', 'gen', 'badtype']:
                for acc in ACCEPTS:
                    for failing in ((False, True) if kind in ('nf', 'crash') else (False,)):
                        case = self._gen_case(rng, kind)
                        case['accept'], case['failing'], case['head'], case['method'] = acc, failing, False, 'GET'
                        out.append(self._serve(apps, case))
            holes = [(slot, f) for slot, spec in self.SLOTS.items() for f in spec['fields']]
            sized = [self._sized_case(apps, rng, i, t, delta, measure, slot, f)
                     for i, (t, delta, measure, slot, f) in enumerate(size_plan(rng, n, holes))]
            sized += [self._sized_case(apps, rng, i, t, None, None, slot, f, lay)
                      for i, (slot, f, t, lay) in enumerate(self._ladder(n >= 5000))]
            for case in sized:
                line, ans, sample = self._serve(apps, case)
                sample = {k: (v if not isinstance(v, str) or len(v) < 300 else v[:120] + f'...[{len(v)} chars]')
                          for k, v in sample.items() if k not in ('raw', 'raw0', 'env')}
                sample['case'], sample['kind'] = 'serve-sized', case['kind']
                sample['seed_kind'] = 'critical' if case['failing'] and not case['debug'] else case['kind']
                out.append((line, ans, sample))
            self._sized_units(rng, n, out)
        finally:
            apps.close()
            error_render._html_lns[:] = []
        rng.shuffle(out)        # lines are stateless; spreads the long ones over the driver shards
        return out

    def _sized_units(self, rng, n, out):
        """the unit lines at the sizes of the grid: exact on the raw and on the escaped length"""
        import html
        from ombott import error_render
        import ombott.ombott as om
        import sys
        quote = sys.modules['ombott.request_pkg.props_mixin'].urlquote

        class E:
            status, body, exception, traceback = '404 Not Found', 'Not Found', None, None
        full = n >= 5000
        for t in THRESHOLDS:
            heavy = t >= 65536
            texts = []
            for d in (DELTAS if full and not heavy else rng.sample(DELTAS, 2)):
                base = sized_text(rng, rng.choice([8, 40, t // 8]), layout=rng.choice(['start', 'end', 'around', 'repeat']))
                ins = rng.choice([0, len(base) // 2, len(base)])
                for ln in (len, lambda x: len(html.escape(x)), lambda x: len(repr(html.escape(x)))):
                    k = t + d - ln(base)
                    if k >= 0:
                        texts.append(base[:ins] + 'a' * k + base[ins:])
            for _ in range(2 if heavy else 6 if not full else 20):
                texts.append(sized_text(rng, t))
            for s in texts:
                k = rng.randrange(4) if not full else -1
                if k in (0, -1):
                    debug = rng.random() < .2
                    out.append((f'errorpage render {int(debug)} {hs(E.status)} {hs(E.body)} ~ ~ {hs(s)}',
                                'ok ' + hs(error_render.render(E, s, debug)), dict(kind='render', sized=t, chars=len(s))))
                if k in (1, -1):
                    out.append((f'errorpage escape {hs(s)}', hs(error_render.sanitize_html.escape(s)), dict(kind='escape', sized=t)))
                    out.append((f'errorpage hescape {hs(s)}', hs(om.html_escape(s)), dict(kind='hescape', sized=t)))
                if k in (2, -1):
                    out.append((f'errorpage repr {hs(s)}', hs(repr(s)), dict(kind='repr', sized=t)))
                    out.append((f'errorpage quote {hs(s)}', hs(quote(s)), dict(kind='quote', sized=t)))
                if k in (3, -1):
                    txt = json.dumps(dict(body='Not Found', exception=s, traceback=rng.choice([None, s])))
                    out.append((f'errorpage jparse {hs(txt)}', self._jparse_impl(txt), dict(kind='jparse', sized=t)))
                    env = base_env()
                    env['PATH_INFO'] = '/' + s
                    real, _ = fullpath_of(env, None)
                    out.append((f'errorpage fullpath ~ {hs(env["PATH_INFO"])} {lib_param(env, real)}', real.replace(':', ' ', 1),
                                dict(kind='fullpath', sized=t)))
                self.bump(f'unit:sized:{t}')

    def _template_lines(self):
        from ombott import error_render
        return [ln.strip() for ln in error_render.html.read_text().split('\n')]

    @staticmethod
    def _jparse_impl(t):
        try:
            v = json.loads(t, object_pairs_hook=lambda p: ('obj', p))
        except (ValueError, RecursionError):
            return 'none'
        if not (isinstance(v, tuple) and len(v) == 2 and v[0] == 'obj'):
            return 'none'
        for k, val in v[1]:
            if not (val is None or isinstance(val, str)):
                return 'none'
            if has_surrogate(k) or (val is not None and has_surrogate(val)):
                return None          # lone surrogate: outside the model
        if not v[1]:
            return 'some'
        return 'some ' + ','.join(f'{hs(k)}={o(val)}' for k, val in v[1])

    def _gen_case(self, rng, kind=None):
        """a request + what the application is told to do with it"""
        c = {}
        c['debug'] = rng.random() < .2
        c['failing'] = rng.random() < .12
        c['head'] = rng.random() < .1
        c['accept'] = rng.choice([None, None, 'application/json', 'application/json', gen_text(rng, 3)] + ACCEPTS)
        c['env'] = gen_urlenv(rng, rich=rng.random() < .5)
        tail = gen_text(rng, 6)
        kind = kind or rng.choice(['nf', 'nf', 'nf', 'na', 'crash', 'crash', 'hook', 'badpath', 'badpath', 'reqerr', 'json',
                                   'big', 'abort', 'ok', 'ipv6', 'gen', 'badtype'])
        c['obj'] = rng.randrange(len(BAD_OBJS))
        c['kind'] = kind
        c['method'] = rng.choice(['GET'] * 8 + ['POST', 'PUT', 'DELETE', 'PATCH', 'OPTIONS', 'get', 'head', 'Head', 'FOO', 'TRACE'])
        if rng.random() < .1:
            c['accept'] = rng.choice(['application/json, text/html;q=0.9', 'application/json;charset=utf-8', 'Application/JSON',
                                      'application/json' + ' ' * 300, 'application/json,' + 'x' * 2000, '*/*',
                                      'text/html,application/xhtml+xml,application/xml;q=0.9,*/*;q=0.8', 'application/',
                                      'application/json\t', 'application/json-patch+json', 'application/jso'])
        c['cold'] = rng.random() < .03      # the renderer's line cache is empty for this request
        c['reconf'] = rng.random() < .15    # the application ran (and rendered errors) under the other debug mode until a setup()
        c['cls'] = rng.choice(EXC).__name__
        c['msg'] = gen_text(rng, 5)
        c['msg2'] = gen_text(rng, 4)
        c['tb'] = 'Traceback (most recent call last):\n' + gen_text(rng, 8)
        c['code'] = rng.choice([400, 401, 403, 404, 418, 500, 503, 599, 299, 777, 101, 199, 204, 304])
        c['text'] = rng.choice([None, '', gen_text(rng, 5)])
        prefix = {'nf': '/zz', 'na': '/post/', 'crash': '/crash/', 'hook': '/' + rng.choice(['zz', 'ok/', 'post/']),
                  'badpath': '/' + rng.choice(['zz', 'ok/', 'crash/']), 'reqerr': '/reqerr/', 'json': '/json/',
                  'big': '/json/', 'abort': '/abort/', 'ok': '/ok/', 'ipv6': '/', 'gen': '/gen/', 'badtype': '/badtype/'}[kind]
        if kind in ('na', 'crash', 'reqerr', 'json', 'big', 'abort', 'ok', 'gen', 'badtype'):
            tail = 'x' + tail
        if kind == 'ipv6':
            tail = rng.choice(['http://[', 'x://[', 'https://a]b/', '//[', 'http://[::1', 'ftp://]']) + tail
        raw = (prefix + tail).encode('utf8')
        if kind == 'badpath':
            bad = rng.choice([b'\xff', b'\xc3', b'\xe2\x82', b'\xed\xa0\x80', b'\xc0\xaf', b'\xf4\x90\x80\x80', b'\x80',
                              b'\xf0\x9f\x98', b'\xfe\xff'])
            i = rng.randint(1, len(raw))
            raw = raw[:i] + bad + raw[i:]
        c['raw'] = raw.hex()
        if kind == 'reqerr':
            c['cls'] = rng.choice(['RequestError', 'BodyParsingError', 'BodySizeError', 'Custom'])
        # the template cannot be read when this request needs it (cold cache): for the model that is the default error
        # handler failing with that exception, i.e. the last-resort page.  Only where the HTML page is what gets rendered.
        if (kind in ('nf', 'na', 'crash', 'hook', 'badpath', 'reqerr', 'json', 'big', 'gen', 'badtype') and not c['failing']
                and rng.random() < .07):
            c['accept'] = rng.choice([None, '', 'text/html', '*/*', 'text/plain'])
            c['tfault'] = rng.choice(TEMPLATE_FAULTS)
        return c

    # which request-derived texts a response shows (its "holes"), per kind of response
    SLOTS = {
        'page': dict(kinds=['nf', 'na', 'crash', 'hook', 'badpath', 'reqerr', 'json', 'big', 'gen', 'badtype', 'abort'],
                     fields=['qs', 'host', 'fhost', 'fproto', 'path', 'script']),
        'critical': dict(kinds=['nf', 'crash', 'ipv6', 'badpath', 'na', 'gen'], fields=['path']),
        'json': dict(kinds=['crash', 'hook', 'gen'], fields=['msg', 'tb']),
        'debug': dict(kinds=['crash', 'gen', 'hook'], fields=['msg', 'tb', 'msg2', 'qs']),
    }
    SLOT_CYCLE = ['page', 'page', 'critical', 'page', 'json', 'page', 'critical', 'debug', 'page', 'json']
    URL_FIELDS = ['qs', 'host', 'fhost', 'fproto', 'path', 'script']

    @staticmethod
    def _put_field(c, f, text):
        if f in ('qs', 'host', 'fhost', 'fproto', 'script'):
            c['env'][f] = text
        elif f == 'path':
            c['raw'] = (bytes.fromhex(c['raw0']) + text.encode('utf8')).hex()
        elif f == 'accept':
            c['accept'] = c['accept0'] + text
        else:
            c[f] = text          # msg, tb, msg2

    def _case_url(self, apps, c):
        """Request.url of the live code for this case (used for sizing only); None when it raises"""
        from ombott.request_pkg import Request
        env = base_env()
        put_urlenv(env, c['env'])
        raw = bytes.fromhex(c['raw'])
        try:
            env['PATH_INFO'] = raw.decode('utf8')
        except UnicodeDecodeError:
            env['PATH_INFO'] = raw.decode('latin1')
        try:
            return Request(env, config=apps.apps[(False, False)].config).url
        except Exception:
            return None

    def _measure(self, apps, c, m, text):
        import html
        if m == 'field':
            return len(text)
        if m in ('url', 'esc'):
            u = self._case_url(apps, c)
            return None if u is None else len(u) if m == 'url' else len(html.escape(u))
        _line, ans, _s = self._serve(apps, dict(c, env=dict(c['env'])), count=False)
        return len(core.unhb(ans.split('body=')[1]).decode('utf8', 'replace'))

    def _sized_case(self, apps, rng, i, t, delta, measure, slot=None, field=None, layout=None):
        """a WSGI case in which a text the response shows has a size around the threshold `t`"""
        slot = slot or (self.SLOT_CYCLE[i % len(self.SLOT_CYCLE)] if rng.random() < .85 else 'page')
        spec = self.SLOTS[slot]
        kind = spec['kinds'][(i // 3) % len(spec['kinds'])] if field is None else rng.choice(spec['kinds'])
        c = self._gen_case(rng, kind)
        c['failing'] = slot == 'critical' and kind != 'ipv6' or (slot == 'debug' and rng.random() < .4)
        c['debug'] = slot == 'debug' or rng.random() < .05
        c['head'], c['cold'], c['method'] = rng.random() < .03, False, 'GET'
        c['accept'] = c['accept0'] = 'application/json' if slot == 'json' else rng.choice([None, 'text/html'])
        c['raw0'] = c['raw']
        f = field or (rng.choice(spec['fields']) if rng.random() < .9 else rng.choice(self.URL_FIELDS + ['msg', 'tb']))
        if measure in ('url', 'esc') and f not in self.URL_FIELDS:
            measure = 'body'
        if f == 'fproto' and rng.random() < .5:
            c['env']['fhost'] = None          # keep the scheme in front of a short host as well
        if f in ('host',):
            c['env']['fhost'] = None          # Host is only shown when no forwarded host overrides it
        if f == 'script':
            c['env']['script'] = '/s'
        if delta is None:
            text = sized_text(rng, int(t * rng.choice([1, 1, 1.05, 1.5])), layout=layout)
        else:
            # exact fit: plain padding before / inside / after a small payload-bearing text
            base = sized_text(rng, rng.choice([0, 12, 40, t // 8]), layout=rng.choice(['start', 'end', 'around', 'repeat', 'pad']))
            ins = rng.choice([0, len(base) // 2, len(base)])
            self._put_field(c, f, base)
            m0 = self._measure(apps, c, measure, base)
            if m0 is None:
                measure, m0 = 'field', len(base)
            k = t + delta - m0
            text = base[:ins] + 'a' * max(0, k) + base[ins:]
        self._put_field(c, f, text)
        c['sized'] = dict(threshold=t, delta=delta, measure=measure, field=f, slot=slot, chars=len(text))
        self.bump(f'sized:{t}:{measure or "approx"}')
        self.bump(f'sized:{slot}:{f}')
        return c

    def _ladder(self, full):
        """(slot, field, threshold, layout): every hole of every kind of response at every size, with a payload
        at every threshold below the size (so a cap at any of them shows) and with repeated payloads"""
        out = []
        for slot, spec in self.SLOTS.items():
            for f in spec['fields']:
                for t in THRESHOLDS:
                    out.append((slot, f, t, 'every'))
                    if full or t in (1024, 4096):
                        out.append((slot, f, t, 'repeat'))
                    if full:
                        out += [(slot, f, t, lay) for lay in ('start', 'end', 'around', 'straddle', 'middle')]
        return out

    def _serve(self, apps, c, count=True):
        """run one case on the real application; returns (line, impl answer, sample)"""
        cur = apps.cur
        app = apps.reconfigured(c['debug'], c['failing']) if c.get('reconf') else apps.apps[(c['debug'], c['failing'])]
        if c.get('reconf') and count:
            self.bump('serve:after-setup')
        kind = c['kind']
        raw = bytes.fromhex(c['raw'])
        method = 'HEAD' if c['head'] else c['method']
        env = base_env(method)
        if c.get('cold'):
            apps.error_render._html_lns[:] = []
        put_urlenv(env, c['env'])
        if c['accept'] is not None:
            env['HTTP_ACCEPT'] = c['accept']
        env['PATH_INFO'] = raw.decode('latin1')
        if kind == 'json':
            env['CONTENT_TYPE'] = 'application/json'
            env['CONTENT_LENGTH'] = '4'
            env['wsgi.input'] = io.BytesIO(b'{bad')
        if kind == 'big':
            env['CONTENT_TYPE'] = 'application/json'
            env['CONTENT_LENGTH'] = str(10 ** 9)
        cur.cls = apps.req_classes[c['cls']] if kind == 'reqerr' else {e.__name__: e for e in EXC}[c['cls']]
        cur.msg, cur.msg2, cur.tb, cur.code, cur.text = c['msg'], c['msg2'], c['tb'], c['code'], c['text']
        if kind == 'ok':
            cur.text = c['text'] or 'fine'
        cur.hook = kind == 'hook'
        cur.hit = None
        cur.obj = BAD_OBJS[c.get('obj', 0)]
        # parameter of the model: Request.fullpath as the live code computes it
        try:
            path = raw.decode('utf8')
            decodable = True
        except UnicodeDecodeError:
            path = env['PATH_INFO']
            decodable = False
        e2 = dict(env)
        e2['PATH_INFO'] = path
        fp, fp_exc = fullpath_of(e2, app.config)
        fp = lib_param(e2, fp)
        texc = None
        # (eligibility re-tested here: the sized cases rewrite kind / Accept after the case was drawn)
        if (c.get('tfault') and not c['failing'] and c['accept'] in (None, '', 'text/html', '*/*', 'text/plain')
                and kind in ('nf', 'na', 'crash', 'hook', 'badpath', 'reqerr', 'json', 'big', 'gen', 'badtype')):
            er = apps.error_render
            er._html_lns[:] = []
            old_html, er.html = er.html, template_fault(c['tfault'])
            try:
                er.html.open('r')
            except Exception as e:      # noqa: the exception the renderer will meet
                texc = e
            try:
                status, ctype, body = wsgi_call(app, env)
            finally:
                er.html = old_html
                er._html_lns[:] = []
            if count:
                self.bump('serve:template-unreadable:' + c['tfault'])
        else:
            status, ctype, body = wsgi_call(app, env)
        # what routing / the handler did (observed; a parameter of the model)
        hit = cur.hit
        if not decodable:
            oc = 'nf'
        elif hit == 'hook' or hit == 'crash':
            oc = f'raise:{hs(cur.cls.__name__)}:{hs(c["msg"])}:{hs(c["tb"])}'
        elif hit == 'reqerr':
            oc = f'reqerr:{c["cls"]}:{hs(c["msg"])}:{hs(c["tb"])}'
        elif hit == 'json':
            cls = 'BodySizeError' if kind == 'big' else 'BodyParsingError'
            msg = '' if kind == 'big' else 'Invalid JSON'
            oc = f'reqerr:{cls}:{hs(msg)}:{hs(c["tb"])}'
        elif hit == 'gen':
            oc = f'iter:{hs(cur.cls.__name__)}:{hs(c["msg"])}:{hs(c["tb"])}'
        elif hit == 'badtype':
            oc = f'badtype:{hs(str(type(cur.obj)))}'
        elif hit == 'abort':
            oc = f'abort:{c["code"]}:{o(c["text"])}'
        elif hit == 'ok':
            oc = f'ok:{hs(cur.text)}'
        elif hit == 'post':
            oc = f'ok:{hs("posted")}'
        elif status.startswith('405'):
            oc = f'na:{hs("POST")}'
        else:
            oc = 'nf'
        hfail = c['failing'] and not (hit == 'abort' and c['code'] not in REG_CODES)
        d1 = repr(RuntimeError(c['msg2'])) if hfail else (repr(fp_exc) if fp_exc is not None else '')
        if texc is not None and not hfail and fp_exc is None:
            hfail, d1 = True, repr(texc)
        # `wsgi` drops the body for REQUEST_METHOD == 'HEAD' exactly (routing upper-cases, this test does not)
        line = (f'errorpage serve {int(c["debug"])} {int(method == "HEAD")} {hb(raw)} {o(c["accept"])} '
                f'{urlenv_args(c["env"], fp)} {oc} {int(hfail)} {hs(d1)} {hs(c["tb"])}')
        ans = f'status={hs(status)} ctype={hs(ctype)} body={hb(body)}'
        if count:
            self.bump('serve:' + kind + ':' + status.split(' ')[0] + (':json' if 'json' in ctype else ':html')
                      + (':critical' if status == '500 INTERNAL SERVER ERROR' else '') + (':head' if c['head'] else ''))
        sample = dict(c)
        sample['case'] = 'serve'
        return line, ans, sample

    # ------------------------------------------------------------------
    # search: taint oracle, independent of the model

    def _taint_case(self, rng, i):
        """request texts carrying unique markers wrapped in markup"""
        mk = lambda tag: f'{tag}{i}q{rng.randrange(10 ** 6)}z'
        marks = {f: mk(f) for f in ('P', 'Q', 'H', 'F', 'S')}    # path, query, Host, X-Forwarded-Host, -Proto

        def dress(m):
            parts = []
            for a, b in rng.sample(WRAPS, rng.randint(2, len(WRAPS))):
                parts.append(a + m + b)
            extra = rng.choice(['', '{0}', '{url}', '{e.__class__}', '}{', '\xe9', '\\', '%', '{exception}'])
            # characters with a role of their own in URLs and header lists, ahead of and between the markers
            lead = rng.choice(['', '', '#', '?', ', ', ';', '@', ':', '//', ' ', '\t', '%00', '&', '=', '#?', 'a, b, ', '[', '*'])
            if rng.random() < .3:
                extra += rng.choice(['#', '?', ', ', ';', '@', ' ', '&', '='])
            return 'w' + lead + extra.join(parts) + extra + 'w'
        c = dict(kind=rng.choice(['nf', 'nf', 'na', 'crash', 'hook', 'badpath', 'json', 'big', 'reqerr', 'critical', 'ipv6', 'gen']),
                 json=False, head=False, marks=marks)
        c['accept'] = rng.choice(ACCEPTS + ['application/json'] * 8)
        c['path'] = dress(marks['P'])
        c['qs'] = rng.choice([dress(marks['Q']), dress(marks['Q']), latin1_view(dress(marks['Q']))])
        c['host'] = rng.choice([None, dress(marks['H'])])
        c['fhost'] = rng.choice([None, None, dress(marks['F'])])
        c['fproto'] = rng.choice([None, None, None, dress(marks['S'])])
        marks['X'] = mk('X')
        c['leak'] = dress(marks['X'])        # exception message / traceback text derived from the request
        return c

    def _taint_env(self, c):
        kind = c['kind']
        prefix = {'nf': '/zz', 'na': '/post/x', 'crash': '/crash/x', 'hook': '/zz', 'badpath': '/zz\xff',
                  'json': '/json/x', 'big': '/json/x', 'reqerr': '/reqerr/x', 'critical': '/zz',
                  'ipv6': '/http://[', 'gen': '/gen/x'}[kind]
        env = base_env()
        env['PATH_INFO'] = prefix + latin1_view(c['path'])     # '\xff' of badpath is not UTF-8
        env['QUERY_STRING'] = c['qs']
        env['SERVER_NAME'], env['SERVER_PORT'], env['wsgi.url_scheme'] = 'srv', '80', 'http'
        if c['host'] is not None:
            env['HTTP_HOST'] = c['host']
        if c['fhost'] is not None:
            env['HTTP_X_FORWARDED_HOST'] = c['fhost']
        if c['fproto'] is not None:
            env['HTTP_X_FORWARDED_PROTO'] = c['fproto']
        acc = c['accept'] if 'accept' in c else ('application/json' if c.get('json') else None)   # old replay files
        if acc is not None:
            env['HTTP_ACCEPT'] = acc
        if kind == 'json':
            env.update({'CONTENT_TYPE': 'application/json', 'CONTENT_LENGTH': '4', 'wsgi.input': io.BytesIO(b'{bad')})
        if kind == 'big':
            env.update({'CONTENT_TYPE': 'application/json', 'CONTENT_LENGTH': str(10 ** 9)})
        return env

    def _taint_run(self, apps, c):
        """returns (status, ctype, body) of the real application, debug off"""
        cur = apps.cur
        kind = c['kind']
        app = apps.apps[(False, kind == 'critical')]
        env = self._taint_env(c)
        # a crashing handler typically quotes request data in its message (int(request.query.x) ...)
        leak = c.get('leak') or 'boom'
        cur.cls, cur.msg, cur.msg2, cur.tb = ValueError, leak, 'handler failed: ' + leak, 'Traceback: ' + leak
        if kind == 'reqerr':
            cur.cls = apps.req_classes['BodyParsingError']
        if c.get('history'):            # the configuration changed between requests; it is debug OFF now
            app = apps.history_app(c['history'], kind == 'critical')
            leak = c.get('leak') or 'boom'
            cur.cls, cur.msg, cur.msg2, cur.tb = ValueError, leak, 'handler failed: ' + leak, 'Traceback: ' + leak
            if kind == 'reqerr':
                cur.cls = apps.req_classes['BodyParsingError']
        cur.hook = kind == 'hook'
        cur.hit = None
        if not c.get('fault'):
            return wsgi_call(app, env)
        # the template cannot be read when it is first needed (fault 'x'), or only after it was read once ('x:warm')
        er = apps.error_render
        name, _, when = c['fault'].partition(':')
        if when == 'warm':
            apps.warm(app, [('nf', None)])
        else:
            er._html_lns[:] = []
        for attr in list(vars(app)):         # whatever the application keeps of an earlier rendering
            if 'error_page' in attr or 'template' in attr:
                vars(app).pop(attr, None)
        old_html = er.html
        er.html = template_fault(name)
        try:
            return wsgi_call(app, env)
        finally:
            er.html = old_html
            er._html_lns[:] = []

    TAINT_FIELDS = ['qs', 'host', 'fhost', 'fproto', 'path', 'leak']
    TAINT_KINDS = ['nf', 'na', 'crash', 'hook', 'badpath', 'json', 'big', 'reqerr', 'critical', 'ipv6', 'gen']
    # the holes of each kind of response, as for the correspondence
    TAINT_SLOTS = {
        'page': dict(kinds=['nf', 'na', 'crash', 'hook', 'badpath', 'json', 'big', 'reqerr', 'gen'],
                     fields=['qs', 'host', 'fhost', 'fproto', 'path']),
        'critical': dict(kinds=['critical', 'ipv6'], fields=['path']),
        'json': dict(kinds=['crash', 'hook', 'gen'], fields=['leak']),
    }
    TAINT_CYCLE = ['page', 'page', 'critical', 'page', 'json', 'page', 'critical', 'page', 'page', 'json']

    def _taint_measure(self, apps, c, m, text):
        import html
        from ombott.request_pkg import Request
        if m == 'field':
            return len(text)
        if m in ('url', 'esc'):
            env = self._taint_env(c)
            try:
                env['PATH_INFO'] = env['PATH_INFO'].encode('latin1').decode('utf8')
            except UnicodeError:
                pass
            try:
                u = Request(env).url
            except Exception:
                return None
            return len(u) if m == 'url' else len(html.escape(u))
        return len(self._taint_run(apps, c)[2].decode('utf8', 'replace'))

    def _taint_sized(self, apps, rng, i, t, delta, measure, field=None, slot=None, layout=None):
        """a taint case in which a marker-carrying text the response shows is padded to a size around the
        threshold `t`: padding before, after and around the dressed markers, or the dressed markers repeated"""
        c = self._taint_case(rng, 1000 + i)
        if slot is None:
            slot = next((sl for sl, sp in self.TAINT_SLOTS.items() if field in sp['fields']), None) if field else None
            slot = slot or self.TAINT_CYCLE[i % len(self.TAINT_CYCLE)]
        spec = self.TAINT_SLOTS[slot]
        c['kind'] = spec['kinds'][(i // 3) % len(spec['kinds'])]
        c['accept'] = rng.choice(['application/json', 'application/json', 'application/json; charset=utf-8',
                                  'application/json;q=0.9, */*;q=0.1']) if slot == 'json' else rng.choice(ACCEPTS[:11])
        f = field if field in spec['fields'] else rng.choice(spec['fields'])
        if measure in ('url', 'esc') and f == 'leak':
            measure = 'body'
        if f == 'host':
            c['fhost'] = None
        if f == 'fproto':
            c['fhost'] = rng.choice([None, c['fhost']])
        core_text = c[f] or c['qs']
        pad = rng.choice(['a', 'a', 'a', '\xe9', '&', '<', '"', 'a=1&', ' ', '%41', '{0}', '\\'])
        if delta is None:
            total = int(t * rng.choice([1, 1, 1.05, 1.5]))
            lay = layout or rng.choice(['after', 'before', 'around', 'between', 'repeat'])
            rest = max(0, total - len(core_text))
            if lay == 'after':
                text = core_text + fill(pad, rest)
            elif lay == 'before':
                text = fill(pad, rest) + core_text
            elif lay == 'around':
                text = fill(pad, rest // 2) + core_text + fill(pad, rest - rest // 2)
            elif lay == 'between':
                text = core_text + fill(pad, max(0, rest - len(core_text))) + core_text
            else:
                text = core_text * max(1, total // len(core_text))
        else:
            ins = rng.choice([0, len(core_text)])        # plain padding before or after the markers
            c[f] = core_text
            m0 = self._taint_measure(apps, c, measure, core_text)
            if m0 is None:
                measure, m0 = 'field', len(core_text)
            text = core_text[:ins] + 'a' * max(0, t + delta - m0) + core_text[ins:]
        c[f] = text
        c['sized'] = dict(threshold=t, delta=delta, measure=measure, field=f, slot=slot, chars=len(text))
        return c

    def _baseline(self, apps, status_code):
        """tag skeleton of the same error page for a harmless request (same template, same status)"""
        if not hasattr(self, '_base'):
            self._base = {}
        if status_code not in self._base:
            from ombott import HTTPError
            from ombott import error_render
            page = error_render.render(HTTPError(int(status_code), 'text'), 'http://srv/plain', False)
            self._base[status_code] = tag_shape(page)[0]
        return self._base[status_code]

    def _oracle(self, apps, c):
        """None or (key, what)"""
        status, ctype, body = self._taint_run(apps, c)
        kind = c['kind']
        try:
            text = body.decode('utf8')
        except UnicodeDecodeError:
            return 'body-not-utf8', 'error body is not UTF-8'
        code = status.split(' ')[0]
        if code not in ('400', '404', '405', '413', '500'):
            return None            # not an error response: nothing to check
        critical = status == '500 INTERNAL SERVER ERROR'
        # what the client is told the body is: the Content-Type header(s) of the list handed to start_response
        # (none at all = the browser sniffs, and the framework's default is text/html)
        ctypes = [v.strip().lower() for k, v in LAST.get('headers', []) if k.lower() == 'content-type']
        says_json = any(ct.startswith('application/json') for ct in ctypes)
        says_html = not ctypes or any(ct.startswith(('text/html', 'application/xhtml')) or not ct for ct in ctypes)
        acc = c['accept'] if 'accept' in c else ('application/json' if c.get('json') else None)
        wants_json = bool(acc) and acc.startswith('application/json')      # the framework's own test for "JSON is requested"
        if wants_json and not critical and not says_json:
            return 'json-content-type', f'JSON requested, Content-Type {ctype!r}'
        if says_json:
            try:
                v = json.loads(text)
            except ValueError as ex:
                return 'json-invalid', f'Content-Type {ctype!r}, body does not parse: {ex}'
            if not (isinstance(v, dict) and set(v) == {'body', 'exception', 'traceback'} and isinstance(v['body'], str)):
                return 'json-fields', f'JSON error body has the wrong shape: {sorted(v) if isinstance(v, dict) else type(v).__name__}'
            if not says_html:
                return None
        if not says_html:
            # another rendering under its own Content-Type (text/plain ...): not interpreted as markup; the body must
            # at least not be an HTML page in disguise
            if text.lstrip().lower().startswith(('<!doctype html', '<html')) and not any(ct.startswith(('text/', 'application/xml')) for ct in ctypes):
                return 'content-type-mismatch', f'an HTML page is sent as {ctype!r}'
            return None
        # 1. no marker may appear next to a markup character (the escaped forms put `;`/`&`/`%` there)
        where = 'critical' if critical else 'page'
        for f, m in c['marks'].items():
            for pat in ('<' + m, m + '>', '"' + m, m + '"', "'" + m, m + "'"):
                if pat in text:
                    return (f'{where}:unescaped:{f}',
                            f'request text reaches the {"last-resort" if critical else "error"} page unescaped: {pat}')
            if '&' + m + ';' in text:
                return f'{where}:unescaped-amp:{f}', 'request text reaches the page with a bare &'
        # 2. the markup skeleton must be that of the harmless request
        shape, _ = tag_shape(text)
        if critical:
            if shape != [('start', 'h1', ()), ('end', 'h1')]:
                return 'critical:markup-injected', f'last-resort page has tags {shape[:6]}'
        elif shape != self._baseline(apps, code):
            if not shape and not text.lstrip().startswith('<'):
                return ('content-type-mismatch',
                        f'a body that is not the HTML page (Accept {acc!r}) is sent as {ctype or "no Content-Type"!r}')
            return 'page:markup-injected', 'tag structure of the error page differs from the harmless request'
        return None

    def search(self, rng, n, seeds):
        findings, evals = [], 0
        from ombott import error_render
        error_render._html_lns[:] = []
        apps = Apps()
        try:
            cases = []
            for s in seeds:
                if s.get('case') == 'serve' and not s.get('debug'):
                    # re-dress the disagreeing request with markers
                    c = self._taint_case(rng, 0)
                    c['kind'] = {'ok': 'nf', 'abort': 'nf', 'badtype': 'nf'}.get(s['kind'], s['kind'])
                    if s.get('failing'):
                        c['kind'] = 'critical'
                    c['accept'] = s.get('accept')
                    cases.append(c)
                    # the same request texts as the disagreeing case, with the markers placed inside them
                    c2 = dict(c, marks=dict(c['marks']))
                    for f in ('qs', 'host', 'fhost', 'fproto'):
                        orig = (s.get('env') or {}).get(f)
                        if orig and len(orig) < 2000:
                            c2[f] = orig + (c[f] or c['qs']) + orig
                    cases.append(c2)
            kinds = ['nf', 'na', 'crash', 'hook', 'badpath', 'json', 'big', 'reqerr', 'critical', 'ipv6', 'gen']
            for i, k in enumerate(kinds):            # every kind of response under every Accept header
                for acc in ACCEPTS:
                    c = self._taint_case(rng, i)
                    c['kind'], c['accept'] = k, acc
                    cases.append(c)
            # the configuration changed by setup() between requests (debug is OFF when the judged request arrives)
            j = 0
            for k in kinds:
                for hist in HISTORIES:
                    for acc in (None, 'text/html', 'application/json'):
                        j += 1
                        if n < 5000 and j % 2 and acc is not None:
                            continue
                        c = self._taint_case(rng, 300 + j)
                        c['kind'], c['accept'], c['history'] = k, acc, hist
                        cases.append(c)
            # the template unreadable when it is first needed (and, as a control, after it was read once)
            for k in kinds:
                for fault in TEMPLATE_FAULTS:
                    for when in ('', ':warm'):
                        j += 1
                        if when and (n < 5000 and j % 3):
                            continue
                        c = self._taint_case(rng, 300 + j)
                        c['kind'], c['fault'] = k, fault + when
                        c['accept'] = rng.choice([None, 'text/html', '*/*', 'text/plain', 'application/json'])
                        cases.append(c)
            for i in range(n // 12):            # both axes at random
                c = self._taint_case(rng, i + 2000)
                if rng.random() < .6:
                    c['history'] = rng.choice(HISTORIES)
                if 'history' not in c or rng.random() < .3:
                    c['fault'] = rng.choice(TEMPLATE_FAULTS) + rng.choice(['', '', ':warm'])
                cases.append(c)
            for i in range(n // 3):
                cases.append(self._taint_case(rng, i + 100))
            # the size axis: same grid as the correspondence (sampled in the quick tier)
            holes = [(slot, f) for slot, spec in self.TAINT_SLOTS.items() for f in spec['fields']]
            for i, (t, delta, measure, slot, f) in enumerate(size_plan(rng, n, holes)):
                cases.append(self._taint_sized(apps, rng, i, t, delta, measure, f, slot))
            for slot, spec in self.TAINT_SLOTS.items():          # every hole at every size, markers everywhere
                for f in spec['fields']:
                    for t in THRESHOLDS:
                        for lay in (('repeat', 'before', 'after') if n < 5000 else ('repeat', 'before', 'after', 'around', 'between')):
                            if n < 5000 and t >= 65536 and lay != 'repeat':
                                continue
                            cases.append(self._taint_sized(apps, rng, len(cases), t, None, None, f, slot, lay))
            for j, sd in enumerate(s for s in seeds if s.get('case') == 'serve-sized'):
                z = sd.get('sized', {})
                fld = {'msg': 'leak', 'tb': 'leak'}.get(z.get('field'), z.get('field'))
                for rep in range(3):
                    c = self._taint_sized(apps, rng, j * 3 + rep, z.get('threshold', 1024), z.get('delta'), z.get('measure'), fld)
                    if sd.get('seed_kind') in self.TAINT_KINDS and z.get('slot') in ('page', 'critical'):
                        c['kind'] = sd['seed_kind']
                    cases.append(c)
            for c in cases:
                evals += 1
                try:
                    bad = self._oracle(apps, c)
                except Exception as e:
                    bad = ('exception', f'{type(e).__name__}: {e}')
                if bad:
                    site = bad[0] + (':after-setup' if c.get('history') else '') + (':template-unreadable' if c.get('fault') else '')
                    findings.append(Finding('C20:' + site, bad[1], c))
        finally:
            apps.close()
            error_render._html_lns[:] = []
        return evals, findings

    def replay(self, data):
        from ombott import error_render
        error_render._html_lns[:] = []
        apps = Apps()
        try:
            c = data['input']
            status, ctype, body = self._taint_run(apps, c)
            text = body.decode('utf8', 'replace')
            if len(text) > 6000:
                text = text[:3000] + f' ...[{len(text)} chars]... ' + text[-1500:]
            shown = {k: (v if not isinstance(v, str) or len(v) < 400 else v[:200] + f'...[{len(v)} chars]') for k, v in c.items()}
            return dict(input=shown, status=status, content_type=ctype, body=text, oracle=self._oracle(apps, c))
        finally:
            apps.close()


# the composed stream (one real application, one request, against App.serve of Model/App.lean)
from harness import applib as _applib  # noqa: E402
_applib.install(C20, quick=(250, 100), thorough=(8000, 2500))
