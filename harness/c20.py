"""C20 - Framework error pages never reflect request data unescaped."""
import io
import json
import string
from html.parser import HTMLParser

from harness import core
from harness.core import hb, hs, Check, Finding


def o(x):
    """optional text: `~` = None, `-` = empty, else hex of UTF-8"""
    return '~' if x is None else hs(x)


# ----------------------------------------------------------------------------------------
# text generators: dense in what the property names (markup, quotes, braces, format syntax,
# non-ASCII, control characters)

MARKUP = ['<', '>', '"', "'", '&']
FORMAT = ['{', '}', '{0}', '{url}', '{e.__class__}', '{e.status}', '{e.body}', '{{', '}}', '{}', '{0!r}',
          '{exception}', '{traceback}', '%s', '%(url)s', '{e.__init__.__globals__}']
HTMLISH = ['<script>', '</tt>', '</pre>', '<img src=x onerror=alert(1)>', '&amp;', '&lt;', '&#x27;', '&#039;',
           '&quot', '<!--', '-->', '</style>', '<style>', '"><b>', "'><i>", '\\', '\\x3c', '\\u003c', '\\"', "\\'"]
NONASCII = ['\xe9', '\xdf', '\xa0', '\xad', '\x80', '\x9f', '\xff', '\u0100', '\u20ac', '\u2603', '\u2028', '\u200b',
            '\ufeff', '\u0378', '\ud7ff', '\ue000', '\uffff', '\U0001f600', '\U00010000', '\U000e0001', '\U0010ffff',
            '\u2100', '\uff1c', '\ufe64']
CONTROL = ['\t', '\n', '\r', '\x00', '\x01', '\x08', '\x0c', '\x1b', '\x1f', '\x7f', ' ']
URLISH = ['/', '?', '#', ':', ';', '=', '[', ']', '@', '..', '.', '//', 'http:', 'javascript:', '%', '%3C', '%00', '+',
          '~', '_', '-', '!', '*', '(', ')', ',', '$', '|', '^', '`']
PLAIN = ['a', 'b', 'x', 'Z', '0', '9', 'index', 'q', 'id']
ALL = MARKUP * 3 + FORMAT + HTMLISH + NONASCII + CONTROL + URLISH + PLAIN


def gen_text(rng, maxn=8, pool=None):
    pool = pool or ALL
    return ''.join(rng.choice(pool) for _ in range(rng.randint(0, maxn)))


def latin1_view(s):
    """what a WSGI server hands over for the bytes of `s`"""
    return s.encode('utf8').decode('latin1')


def has_surrogate(s):
    return any(0xd800 <= ord(c) < 0xe000 for c in s)


def fmt_supported(ln):
    """the fragment of str.format the model interprets: plain names, `e.status`, `e.body`; no conversion,
    format spec or indexing (the model answers `unsupported` there, by design never a guess)"""
    try:
        for _lit, name, spec, conv in string.Formatter().parse(ln):
            if name is None:
                continue
            if conv or spec or '[' in name:
                return False
            first = name.split('.')[0]
            if first == 'e' and name not in ('e.status', 'e.body'):
                return False
            if first in ('url', 'exception', 'traceback') and '.' in name:
                return False
    except ValueError:
        pass
    return True


# ----------------------------------------------------------------------------------------
# the application under test

class Cur:
    """what the handlers do for the current request"""
    cls = ValueError
    msg = ''
    msg2 = ''
    tb = ''
    code = 500
    text = None
    hook = False
    hit = None
    obj = 1


class Boom(Exception):
    pass


REG_CODES = (400, 404, 405, 413, 500, 418, 599)
BAD_OBJS = [123, 1.5, (1,), {'a': 1}, Boom('x'), object]      # truthy, not text: `_cast` answers 500
EXC = [ValueError, KeyError, RuntimeError, ZeroDivisionError, Boom, TypeError]


class Apps:
    """four real `Ombott()` applications: debug off/on x default / failing error handlers"""

    def __init__(self):
        import ombott.ombott as om
        from ombott import Ombott
        from ombott.request_pkg import errors as rerr
        self.om = om
        self.rerr = rerr
        self.cur = cur = Cur()

        class Custom(rerr.RequestError):
            pass
        self.req_classes = {'RequestError': rerr.RequestError, 'BodyParsingError': rerr.BodyParsingError,
                            'BodySizeError': rerr.BodySizeError, 'Custom': Custom}
        self.apps = {}
        for debug in (False, True):
            for failing in (False, True):
                app = Ombott({'debug': debug})
                self._routes(app, cur)
                if failing:
                    def bad_handler(res):
                        raise RuntimeError(cur.msg2)
                    for code in REG_CODES:
                        app.error(code)(bad_handler)
                self.apps[(debug, failing)] = app
        self._old_fe = om.format_exc
        om.format_exc = lambda: cur.tb

    def close(self):
        self.om.format_exc = self._old_fe

    def _routes(self, app, cur):
        om, rerr = self.om, self.rerr

        @app.route('/ok/<p:path>')
        def ok(p):
            cur.hit = 'ok'
            return cur.text

        @app.route('/crash/<p:path>')
        def crash(p):
            cur.hit = 'crash'
            raise cur.cls(cur.msg)

        @app.route('/post/<p:path>', method='POST')
        def post(p):
            cur.hit = 'post'
            return 'posted'

        @app.route('/reqerr/<p:path>')
        def reqerr(p):
            cur.hit = 'reqerr'
            app.request._raise(cur.cls(cur.msg), rerr.RequestError)

        @app.route('/json/<p:path>')
        def js(p):
            cur.hit = 'json'
            app.request.json
            return 'json read'

        @app.route('/abort/<p:path>')
        def ab(p):
            cur.hit = 'abort'
            om.abort(cur.code, cur.text)

        @app.route('/gen/<p:path>')
        def gen(p):
            cur.hit = 'gen'

            def g():
                raise cur.cls(cur.msg)
                yield 'never'
            return g()

        @app.route('/badtype/<p:path>')
        def badtype(p):
            cur.hit = 'badtype'
            return [cur.obj]

        @app.on('before_request')
        def hook():
            if cur.hook:
                cur.hit = 'hook'
                raise cur.cls(cur.msg)


def base_env(method='GET'):
    return {'REQUEST_METHOD': method, 'SERVER_PROTOCOL': 'HTTP/1.1', 'wsgi.errors': io.StringIO(),
            'wsgi.input': io.BytesIO(b''), 'wsgi.version': (1, 0), 'wsgi.multithread': False,
            'wsgi.multiprocess': False, 'wsgi.run_once': False}


def wsgi_call(app, env):
    return core.with_timeout(lambda: _wsgi_call(app, env), 10)


def _wsgi_call(app, env):
    st = {}

    def sr(status, headers, exc_info=None):
        st['s'], st['h'] = status, headers
    out = app(env, sr)
    try:
        body = b''.join(out)
    finally:
        close = getattr(out, 'close', None)
        if close:
            close()
    ctype = ','.join(v for k, v in st['h'] if k.lower() == 'content-type')
    return st['s'], ctype, body


URL_KEYS = [('fproto', 'HTTP_X_FORWARDED_PROTO'), ('scheme', 'wsgi.url_scheme'), ('fhost', 'HTTP_X_FORWARDED_HOST'),
            ('host', 'HTTP_HOST'), ('sname', 'SERVER_NAME'), ('sport', 'SERVER_PORT'), ('qs', 'QUERY_STRING'),
            ('script', 'SCRIPT_NAME')]
SCRIPTS = [None] * 8 + ['', '/', '/app', '/a/b/', 'app', '//x//y//', '/a?b', '/a;p/c', '/a#f', '/..', '/a/./b', '/\t/x', ' /s']


def gen_urlenv(rng, rich=True):
    """the environ entries Request.urlparts reads (None = key absent)"""
    t = lambda n=6: gen_text(rng, n)
    d = {}
    d['fproto'] = rng.choice([None, None, None, '', 'https', 'http', t(3)])
    d['scheme'] = rng.choice(['http', 'http', 'https', None, '', 'ftp', 'x', t(2)])
    d['fhost'] = rng.choice([None, None, None, '', 'proxy.example', t()])
    d['host'] = rng.choice([None, '', 'example.com', 'example.com:8080', t(), t(), latin1_view(t())])
    d['sname'] = rng.choice([None, '', 'srv', 'localhost', t(3)])
    d['sport'] = rng.choice([None, '', '80', '443', '8080', t(2)])
    d['qs'] = rng.choice([None, '', 'a=1&b=2', t(), t(10), latin1_view(t(10)), t(10)])
    d['script'] = rng.choice(SCRIPTS) if rng.random() < .9 else gen_text(rng, 3)
    if not rich:
        d['fproto'] = None
        d['scheme'] = 'http'
    return d


def put_urlenv(env, d):
    for k, key in URL_KEYS:
        if d[k] is not None:
            env[key] = d[k]


LIB_UNUSED = 'ok:' + hs('LIB-NOT-CONSULTED')


def fullpath_of(env, config):
    """Request.fullpath of the live code on a copy of the environ: ('ok:<hex>' | 'err:<Name>', exception).
    This is also the library parameter of the model (urljoin's answer), which the model may consult only
    when an authority part `//...` has to be validated; when no `//` can arise the harness ships a
    sentinel instead, so a model that leaned on the parameter would be caught."""
    from ombott.request_pkg import Request
    e2 = {k: v for k, v in env.items() if not k.startswith('ombott.')}
    try:
        return 'ok:' + hs(Request(e2, config=config).fullpath), None
    except Exception as ex:
        return 'err:' + type(ex).__name__, ex


def lib_param(env, real):
    sn = env.get('SCRIPT_NAME')
    t = ('/' + sn.strip('/') + '/' if sn else '/') + '|' + env.get('PATH_INFO', '')
    for ch in '\t\r\n':
        t = t.replace(ch, '')
    return real if '//' in t else LIB_UNUSED


def urlenv_args(d, fullpath):
    return ' '.join(o(d[k]) for k, _ in URL_KEYS) + ' ' + fullpath


# ----------------------------------------------------------------------------------------
# independent oracle helpers (written from the property text)

class TagShape(HTMLParser):
    """the markup skeleton of a page: tags with attributes, comments, declarations"""

    def __init__(self):
        super().__init__(convert_charrefs=True)
        self.shape = []
        self.text = []

    def handle_starttag(self, tag, attrs):
        self.shape.append(('start', tag, tuple(attrs)))

    def handle_endtag(self, tag):
        self.shape.append(('end', tag))

    def handle_startendtag(self, tag, attrs):
        self.shape.append(('startend', tag, tuple(attrs)))

    def handle_comment(self, data):
        self.shape.append(('comment',))

    def handle_decl(self, decl):
        self.shape.append(('decl', decl))

    def handle_pi(self, data):
        self.shape.append(('pi',))

    def unknown_decl(self, data):
        self.shape.append(('unknown',))

    def handle_data(self, data):
        self.text.append(data)


def tag_shape(page):
    p = TagShape()
    p.feed(page)
    p.close()
    return p.shape, ''.join(p.text)


WRAPS = [('<', '>'), ('"', '"'), ("'", "'"), ('&', ';'), ('</tt><', '>'), ('"><', ' x="'), ("'><", " y='")]


class C20(Check):
    pid = 'C20'
    props_mod = 'OmbottModel.Props.C20'
    tables = ['errorpage']
    design_ref = '6/C20'
    level_text = ('Lean theorems over the model of html.escape/html_escape (generated replacement tables), repr, '
                  'error_render.render over the generated error.html lines, default_error_handler (HTML and JSON), '
                  'Request.url assembly (urlquote, urlunsplit, urljoin) and the last-resort page of wsgi: for every URL/Host/query text the page is '
                  'fixed template text around an escaped cell that contains no < > " \' and & only as an entity; '
                  'json.dumps output of the error dict parses back to the same values; model tied to the code by '
                  'real Ombott() WSGI calls on every run.')
    level_note_extra = ('str.isprintable and the authority validation inside urljoin are parameters; routing and the '
                        'user handler are a parameter (which error arises); debug off')
    anchors = ['ombott/error_render.py', 'ombott/error.html', 'ombott/ombott.py', 'ombott/common_helpers.py',
               'ombott/request_pkg/props_mixin.py']
    rule = ('paths, query strings, Host/X-Forwarded-Host/X-Forwarded-Proto values built from markup, quotes, braces, '
            'str.format syntax, control and non-ASCII characters x error kinds (404, 405, 400 undecodable path, '
            '400/413 bad body via errors_map, 500 crashing handler, hook or iterator, unsupported item type, abort, last-resort page via a failing '
            'error handler or a URL urljoin rejects) x HTML/JSON (Accept) x debug off/on x GET/HEAD through real '
            'Ombott() WSGI calls; unit lines for escape, repr, urlquote, json.dumps, json parsing, str.format, '
            'render, Request.fullpath, Request.url; non-trivial = input contains one of < > " \' & { }')
    assumptions = ['urljoin is modelled except for the validation of an authority part (//host: IPv6 brackets, NFKC): '
                   'there its live result is shipped to the model; elsewhere a sentinel is shipped instead',
                   'default app_name_header / no domain_map; X-Script-Name not consulted (allow_x_script_name off)',
                   'str.isprintable is a parameter of the theorems (the driver uses the table probed from CPython)',
                   'environ values are str (WSGI); lone surrogates are outside the model',
                   'which error arises (routing, handler behaviour) is a parameter; only its rendering is modelled',
                   'the entity list (&amp; &lt; &gt; &quot; &#x27; &#039;) is what a browser reads as character data']

    def budget(self, tier, escalated):
        n = 1500 if tier == 'quick' else 120000
        return n * (3 if escalated and tier == 'quick' else 1)

    def nontrivial(self, sample):
        s = json.dumps(sample)
        return any(c in s for c in '<>"\'&{}')

    def bump(self, k):
        self.stats[k] = self.stats.get(k, 0) + 1

    # ------------------------------------------------------------------
    # correspondence

    def corr(self, rng, n):
        self.stats = {}
        out = []
        from ombott import error_render
        import ombott.ombott as om
        from ombott.request_pkg import Request
        from ombott.request_pkg import props_mixin
        import sys
        props_mixin = sys.modules['ombott.request_pkg.props_mixin']
        error_render._html_lns[:] = []

        # -- unit: the two escapers, repr, urlquote
        for _ in range(n):
            s = gen_text(rng, 10)
            k = rng.randrange(4)
            if k == 0:
                out.append((f'errorpage escape {hs(s)}', hs(error_render.sanitize_html.escape(s)), dict(kind='escape', s=s)))
            elif k == 1:
                out.append((f'errorpage hescape {hs(s)}', hs(om.html_escape(s)), dict(kind='hescape', s=s)))
            elif k == 2:
                out.append((f'errorpage repr {hs(s)}', hs(repr(s)), dict(kind='repr', s=s)))
            else:
                out.append((f'errorpage quote {hs(s)}', hs(props_mixin.urlquote(s)), dict(kind='quote', s=s)))
            self.bump('unit:' + ['escape', 'hescape', 'repr', 'quote'][k])
        # every single character class once: all of Latin-1 + samples of every plane
        cps = list(range(0, 0x300)) + [rng.randrange(0x300, 0x110000) for _ in range(200 if n < 5000 else 3000)]
        chunk = []
        for cp in cps:
            if 0xd800 <= cp < 0xe000:
                continue
            chunk.append(chr(cp))
            if len(chunk) == 16:
                s = ''.join(chunk)
                chunk = []
                out.append((f'errorpage repr {hs(s)}', hs(repr(s)), dict(kind='repr', s=s)))
                out.append((f'errorpage escape {hs(s)}', hs(error_render.sanitize_html.escape(s)), dict(kind='escape', s=s)))
                out.append((f'errorpage hescape {hs(s)}', hs(om.html_escape(s)), dict(kind='hescape', s=s)))
                out.append((f'errorpage quote {hs(s)}', hs(props_mixin.urlquote(s)), dict(kind='quote', s=s)))

        # exhaustive small scope (thorough tier; validation of the model, not a decision): every string of
        # length <= 3 over the special characters and one representative of each other class
        if n >= 5000:
            import itertools
            alpha = ['<', '>', '"', "'", '&', '\\', 'a', '\n', '\xe9', '{', '\x7f', '\u2028']
            for k in range(0, 4):
                for tup in itertools.product(alpha, repeat=k):
                    s = ''.join(tup)
                    out.append((f'errorpage escape {hs(s)}', hs(error_render.sanitize_html.escape(s)), dict(kind='escape', s=s)))
                    out.append((f'errorpage hescape {hs(s)}', hs(om.html_escape(s)), dict(kind='hescape', s=s)))
                    out.append((f'errorpage repr {hs(s)}', hs(repr(s)), dict(kind='repr', s=s)))
                    self.bump('unit:exhaustive<=3')

        # -- unit: json.dumps of the error dict and the JSON reader
        texts = []
        for _ in range(n // 2):
            ot = lambda: rng.choice([None, '', gen_text(rng, 8)])
            b, e, t = ot(), ot(), ot()
            txt = json.dumps(dict(body=b, exception=e, traceback=t))
            out.append((f'errorpage dumps {o(b)} {o(e)} {o(t)}', hs(txt), dict(kind='dumps', body=b, exception=e, traceback=t)))
            texts.append(txt)
            self.bump('unit:dumps')
        JMUT = list('{}":,\\ unl01aFdD8c\t\n/') + ['\\ud83d', '\\ude00', '\\u00e9', '\\u0041', 'null', '"x"', ': ', ', ',
                                                  '\\n', '\\/', '\\b', '\\x', '\x7f', '\xe9', '\x01', 'true', '1', '[]', '{}']
        for _ in range(n // 2):
            k = rng.randrange(4)
            if k == 0 and texts:
                t = rng.choice(texts)
            elif k == 1 and texts:
                t = list(rng.choice(texts))
                for _ in range(rng.randint(1, 3)):
                    i = rng.randint(0, len(t))
                    if rng.random() < .5 and t:
                        del t[min(i, len(t) - 1)]
                    else:
                        t.insert(i, rng.choice(JMUT))
                t = ''.join(t)
            elif k == 2:
                kv = [(gen_text(rng, 2, JMUT), rng.choice([None, gen_text(rng, 4, JMUT + NONASCII)])) for _ in range(rng.randint(0, 3))]
                sep = rng.choice([(',', ':'), (', ', ': '), (' ,\n', '\t: ')])
                t = rng.choice(['', ' ', '\n']) + json.dumps(dict(kv), separators=sep, ensure_ascii=rng.random() < .5) + rng.choice(['', ' ', '\r\n', 'x'])
            else:
                t = gen_text(rng, 8, JMUT)
            ans = self._jparse_impl(t)
            if ans is None:
                continue
            out.append((f'errorpage jparse {hs(t)}', ans, dict(kind='jparse', text=t)))
            self.bump('unit:jparse:' + ans.split(' ')[0])

        # -- unit: str.format on template-like lines
        class E:
            pass
        FLD = ['{e.status}', '{e.body}', '{url}', '{exception}', '{traceback}']
        FBAD = ['{', '}', '{{', '}}', '{}', '{0}', '{nokey}', '{url', '{ur{l}', '{1.x}', '{URL}', '{e.status}}', '{{url}}']
        FLIT = ['<tt>', '</tt>', 'Error ', '<p>', "'", '"', '&', ' ', 'x', '\xe9', '<pre>', '%s']
        tlines = [ln for ln in self._template_lines() if '{' in ln and not ln.startswith(('html ', 'body ', 'pre '))]
        for _ in range(n // 2):
            if rng.random() < .3 and tlines:
                ln = rng.choice(tlines)
                if rng.random() < .5:
                    i = rng.randint(0, len(ln))
                    ln = ln[:i] + rng.choice(FLD + ['{{', '}}']) + ln[i:]
            else:
                ln = ''.join(rng.choice(FLD * 2 + FBAD + FLIT * 2) for _ in range(rng.randint(0, 6)))
            if not fmt_supported(ln):
                continue
            vals = [gen_text(rng, 3) for _ in range(5)]
            E.status, E.body = vals[0], vals[1]
            try:
                ans = 'ok ' + hs(ln.format(e=E, exception=vals[2], traceback=vals[3], url=vals[4]))
            except Exception as ex:
                ans = 'err ' + type(ex).__name__
            out.append(('errorpage fmt ' + ' '.join(hs(v) for v in vals) + ' ' + hs(ln), ans, dict(kind='fmt', line=ln, vals=vals)))
            self.bump('unit:fmt:' + ans.split(' ')[0] + (':' + ans.split(' ')[1] if ans.startswith('err') else ''))

        # -- unit: error_render.render
        class R:
            def __init__(self, t):
                self.t = t

            def __repr__(self):
                return self.t
        for _ in range(n // 2):
            debug = rng.random() < .3
            E.status = rng.choice(['404 Not Found', '500 Internal Server Error', gen_text(rng, 3)])
            body = rng.choice([None, 'Not Found', gen_text(rng, 4)])
            exc = rng.choice([None, gen_text(rng, 4)])
            tb = rng.choice([None, gen_text(rng, 6)])
            url = gen_text(rng, 12)
            E.body, E.exception, E.traceback = body, (None if exc is None else R(exc)), tb
            try:
                ans = 'ok ' + hs(error_render.render(E, url, debug))
            except Exception as ex:
                ans = 'err ' + type(ex).__name__
            out.append((f'errorpage render {int(debug)} {hs(E.status)} {o(body)} {o(exc)} {o(tb)} {hs(url)}', ans,
                        dict(kind='render', debug=debug, status=E.status, body=body, exc=exc, tb=tb, url=url)))
            self.bump('unit:render:debug' + str(int(debug)))

        # -- unit: Request.fullpath and Request.url
        PATHS = ['/http://[x', '/x://[', '/http://a]b/', '//[', '/a/../../b', '/./a/.', '/http://ok/x', '/x:y', '/', '',
                 '/a/..', '/a/b/../..', '/..', '/.', '/a//b///c', '/ //h/p', '/\t//h', '/a;p?q#f', '/?q', '/#f', '/;p',
                 '/a/b;p/c;q', '/a?', '/a#', '/1x:y', '/x+.-:y', '/ x:y', '/\x01\x1f x', '/a\tb\rc\nd', '/a /b', '/%2e%2e/x']
        for _ in range(n):
            d = gen_urlenv(rng)
            env = base_env()
            put_urlenv(env, d)
            k = rng.random()
            if k < .3:
                path = rng.choice(PATHS) + (gen_text(rng, 2) if rng.random() < .5 else '')
            elif k < .6:
                path = '/' + '/'.join(rng.choice(['a', 'b', '.', '..', '', 'x;p', 'c?d', 'e#f', ' ', 'x:y', gen_text(rng, 1)])
                                      for _ in range(rng.randint(0, 6)))
            else:
                path = '/' + gen_text(rng, 6)
            env['PATH_INFO'] = path
            real, _ = fullpath_of(env, None)
            lib = lib_param(env, real)
            self.bump('unit:fullpath:' + real.split(':')[0] + (':lib-unused' if lib == LIB_UNUSED else ':lib'))
            out.append((f'errorpage fullpath {o(d["script"])} {hs(path)} {lib}', real.replace(':', ' ', 1),
                        dict(kind='fullpath', script=d['script'], path=path)))
            if rng.random() < .5:
                try:
                    ans = 'ok ' + hs(Request(dict(env)).url)
                except Exception as ex:
                    ans = 'err ' + type(ex).__name__
                out.append(('errorpage url ' + urlenv_args(d, lib) + ' ' + hs(path), ans, dict(kind='url', env=d, path=path)))
                self.bump('unit:url:' + ans.split(' ')[0])

        # exhaustive small scope for the urljoin model (thorough tier): every PATH_INFO '/' + w, |w| <= 5, over
        # the characters urljoin treats specially
        if n >= 5000:
            import itertools
            alpha = ['a', '/', '.', ';', '?', '#', ':', ' ']
            for k in range(0, 6):
                for tup in itertools.product(alpha, repeat=k):
                    path = '/' + ''.join(tup)
                    env = base_env()
                    env['PATH_INFO'] = path
                    real, _ = fullpath_of(env, None)
                    out.append((f'errorpage fullpath ~ {hs(path)} {lib_param(env, real)}', real.replace(':', ' ', 1),
                                dict(kind='fullpath', script=None, path=path)))
                    self.bump('unit:fullpath:exhaustive<=5')

        # -- WSGI calls
        apps = Apps()
        try:
            for _ in range(n):
                case = self._gen_case(rng)
                line, ans, sample = self._serve(apps, case)
                out.append((line, ans, sample))
        finally:
            apps.close()
            error_render._html_lns[:] = []
        return out

    def _template_lines(self):
        from ombott import error_render
        return [ln.strip() for ln in error_render.html.read_text().split('\n')]

    @staticmethod
    def _jparse_impl(t):
        try:
            v = json.loads(t, object_pairs_hook=lambda p: ('obj', p))
        except (ValueError, RecursionError):
            return 'none'
        if not (isinstance(v, tuple) and len(v) == 2 and v[0] == 'obj'):
            return 'none'
        for k, val in v[1]:
            if not (val is None or isinstance(val, str)):
                return 'none'
            if has_surrogate(k) or (val is not None and has_surrogate(val)):
                return None          # lone surrogate: outside the model
        if not v[1]:
            return 'some'
        return 'some ' + ','.join(f'{hs(k)}={o(val)}' for k, val in v[1])

    def _gen_case(self, rng):
        """a request + what the application is told to do with it"""
        c = {}
        c['debug'] = rng.random() < .2
        c['failing'] = rng.random() < .12
        c['head'] = rng.random() < .1
        c['accept'] = rng.choice([None, None, None, '', 'text/html', 'application/json', 'application/json',
                                  'application/json; q=1', 'application/jsonx', 'text/html, application/json',
                                  ' application/json', gen_text(rng, 3)])
        c['env'] = gen_urlenv(rng, rich=rng.random() < .5)
        tail = gen_text(rng, 6)
        kind = rng.choice(['nf', 'nf', 'nf', 'na', 'crash', 'crash', 'hook', 'badpath', 'badpath', 'reqerr', 'json',
                           'big', 'abort', 'ok', 'ipv6', 'gen', 'badtype'])
        c['obj'] = rng.randrange(len(BAD_OBJS))
        c['kind'] = kind
        c['method'] = 'GET'
        c['cls'] = rng.choice(EXC).__name__
        c['msg'] = gen_text(rng, 5)
        c['msg2'] = gen_text(rng, 4)
        c['tb'] = 'Traceback (most recent call last):\n' + gen_text(rng, 8)
        c['code'] = rng.choice([400, 401, 403, 404, 418, 500, 503, 599, 299, 777, 101, 199, 204, 304])
        c['text'] = rng.choice([None, '', gen_text(rng, 5)])
        prefix = {'nf': '/zz', 'na': '/post/', 'crash': '/crash/', 'hook': '/' + rng.choice(['zz', 'ok/', 'post/']),
                  'badpath': '/' + rng.choice(['zz', 'ok/', 'crash/']), 'reqerr': '/reqerr/', 'json': '/json/',
                  'big': '/json/', 'abort': '/abort/', 'ok': '/ok/', 'ipv6': '/', 'gen': '/gen/', 'badtype': '/badtype/'}[kind]
        if kind in ('na', 'crash', 'reqerr', 'json', 'big', 'abort', 'ok', 'gen', 'badtype'):
            tail = 'x' + tail
        if kind == 'ipv6':
            tail = rng.choice(['http://[', 'x://[', 'https://a]b/', '//[', 'http://[::1', 'ftp://]']) + tail
        raw = (prefix + tail).encode('utf8')
        if kind == 'badpath':
            bad = rng.choice([b'\xff', b'\xc3', b'\xe2\x82', b'\xed\xa0\x80', b'\xc0\xaf', b'\xf4\x90\x80\x80', b'\x80',
                              b'\xf0\x9f\x98', b'\xfe\xff'])
            i = rng.randint(1, len(raw))
            raw = raw[:i] + bad + raw[i:]
        c['raw'] = raw.hex()
        if kind == 'reqerr':
            c['cls'] = rng.choice(['RequestError', 'BodyParsingError', 'BodySizeError', 'Custom'])
        return c

    def _serve(self, apps, c):
        """run one case on the real application; returns (line, impl answer, sample)"""
        cur = apps.cur
        app = apps.apps[(c['debug'], c['failing'])]
        kind = c['kind']
        raw = bytes.fromhex(c['raw'])
        env = base_env('HEAD' if c['head'] else c['method'])
        put_urlenv(env, c['env'])
        if c['accept'] is not None:
            env['HTTP_ACCEPT'] = c['accept']
        env['PATH_INFO'] = raw.decode('latin1')
        if kind == 'json':
            env['CONTENT_TYPE'] = 'application/json'
            env['CONTENT_LENGTH'] = '4'
            env['wsgi.input'] = io.BytesIO(b'{bad')
        if kind == 'big':
            env['CONTENT_TYPE'] = 'application/json'
            env['CONTENT_LENGTH'] = str(10 ** 9)
        cur.cls = apps.req_classes[c['cls']] if kind == 'reqerr' else {e.__name__: e for e in EXC}[c['cls']]
        cur.msg, cur.msg2, cur.tb, cur.code, cur.text = c['msg'], c['msg2'], c['tb'], c['code'], c['text']
        if kind == 'ok':
            cur.text = c['text'] or 'fine'
        cur.hook = kind == 'hook'
        cur.hit = None
        cur.obj = BAD_OBJS[c.get('obj', 0)]
        # parameter of the model: Request.fullpath as the live code computes it
        try:
            path = raw.decode('utf8')
            decodable = True
        except UnicodeDecodeError:
            path = env['PATH_INFO']
            decodable = False
        e2 = dict(env)
        e2['PATH_INFO'] = path
        fp, fp_exc = fullpath_of(e2, app.config)
        fp = lib_param(e2, fp)
        status, ctype, body = wsgi_call(app, env)
        # what routing / the handler did (observed; a parameter of the model)
        hit = cur.hit
        if not decodable:
            oc = 'nf'
        elif hit == 'hook' or hit == 'crash':
            oc = f'raise:{hs(cur.cls.__name__)}:{hs(c["msg"])}:{hs(c["tb"])}'
        elif hit == 'reqerr':
            oc = f'reqerr:{c["cls"]}:{hs(c["msg"])}:{hs(c["tb"])}'
        elif hit == 'json':
            cls = 'BodySizeError' if kind == 'big' else 'BodyParsingError'
            msg = '' if kind == 'big' else 'Invalid JSON'
            oc = f'reqerr:{cls}:{hs(msg)}:{hs(c["tb"])}'
        elif hit == 'gen':
            oc = f'iter:{hs(cur.cls.__name__)}:{hs(c["msg"])}:{hs(c["tb"])}'
        elif hit == 'badtype':
            oc = f'badtype:{hs(str(type(cur.obj)))}'
        elif hit == 'abort':
            oc = f'abort:{c["code"]}:{o(c["text"])}'
        elif hit == 'ok':
            oc = f'ok:{hs(cur.text)}'
        elif status.startswith('405'):
            oc = f'na:{hs("POST")}'
        else:
            oc = 'nf'
        hfail = c['failing'] and not (hit == 'abort' and c['code'] not in REG_CODES)
        d1 = repr(RuntimeError(c['msg2'])) if hfail else (repr(fp_exc) if fp_exc is not None else '')
        line = (f'errorpage serve {int(c["debug"])} {int(c["head"])} {hb(raw)} {o(c["accept"])} '
                f'{urlenv_args(c["env"], fp)} {oc} {int(hfail)} {hs(d1)} {hs(c["tb"])}')
        ans = f'status={hs(status)} ctype={hs(ctype)} body={hb(body)}'
        self.bump('serve:' + kind + ':' + status.split(' ')[0] + (':json' if 'json' in ctype else ':html')
                  + (':critical' if status == '500 INTERNAL SERVER ERROR' else '') + (':head' if c['head'] else ''))
        sample = dict(c)
        sample['case'] = 'serve'
        return line, ans, sample

    # ------------------------------------------------------------------
    # search: taint oracle, independent of the model

    def _taint_case(self, rng, i):
        """request texts carrying unique markers wrapped in markup"""
        mk = lambda tag: f'{tag}{i}q{rng.randrange(10 ** 6)}z'
        marks = {f: mk(f) for f in ('P', 'Q', 'H', 'F', 'S')}    # path, query, Host, X-Forwarded-Host, -Proto

        def dress(m):
            parts = []
            for a, b in rng.sample(WRAPS, rng.randint(2, len(WRAPS))):
                parts.append(a + m + b)
            extra = rng.choice(['', '{0}', '{url}', '{e.__class__}', '}{', '\xe9', '\\', '%', '{exception}'])
            return 'w' + extra.join(parts) + extra + 'w'
        c = dict(kind=rng.choice(['nf', 'nf', 'na', 'crash', 'hook', 'badpath', 'json', 'big', 'reqerr', 'critical', 'ipv6', 'gen']),
                 json=rng.random() < .3, head=False, marks=marks)
        c['path'] = dress(marks['P'])
        c['qs'] = rng.choice([dress(marks['Q']), dress(marks['Q']), latin1_view(dress(marks['Q']))])
        c['host'] = rng.choice([None, dress(marks['H'])])
        c['fhost'] = rng.choice([None, None, dress(marks['F'])])
        c['fproto'] = rng.choice([None, None, None, dress(marks['S'])])
        marks['X'] = mk('X')
        c['leak'] = dress(marks['X'])        # exception message / traceback text derived from the request
        return c

    def _taint_run(self, apps, c):
        """returns (status, ctype, body) of the real application, debug off"""
        cur = apps.cur
        kind = c['kind']
        app = apps.apps[(False, kind == 'critical')]
        prefix = {'nf': '/zz', 'na': '/post/x', 'crash': '/crash/x', 'hook': '/zz', 'badpath': '/zz\xff',
                  'json': '/json/x', 'big': '/json/x', 'reqerr': '/reqerr/x', 'critical': '/zz',
                  'ipv6': '/http://[', 'gen': '/gen/x'}[kind]
        env = base_env()
        env['PATH_INFO'] = prefix + latin1_view(c['path'])     # '\xff' of badpath is not UTF-8
        env['QUERY_STRING'] = c['qs']
        env['SERVER_NAME'], env['SERVER_PORT'], env['wsgi.url_scheme'] = 'srv', '80', 'http'
        if c['host'] is not None:
            env['HTTP_HOST'] = c['host']
        if c['fhost'] is not None:
            env['HTTP_X_FORWARDED_HOST'] = c['fhost']
        if c['fproto'] is not None:
            env['HTTP_X_FORWARDED_PROTO'] = c['fproto']
        if c['json']:
            env['HTTP_ACCEPT'] = 'application/json'
        if kind == 'json':
            env.update({'CONTENT_TYPE': 'application/json', 'CONTENT_LENGTH': '4', 'wsgi.input': io.BytesIO(b'{bad')})
        if kind == 'big':
            env.update({'CONTENT_TYPE': 'application/json', 'CONTENT_LENGTH': str(10 ** 9)})
        # a crashing handler typically quotes request data in its message (int(request.query.x) ...)
        leak = c.get('leak') or 'boom'
        cur.cls, cur.msg, cur.msg2, cur.tb = ValueError, leak, 'handler failed: ' + leak, 'Traceback: ' + leak
        if kind == 'reqerr':
            cur.cls = apps.req_classes['BodyParsingError']
        cur.hook = kind == 'hook'
        cur.hit = None
        return wsgi_call(app, env)

    def _baseline(self, apps, status_code):
        """tag skeleton of the same error page for a harmless request (same template, same status)"""
        if not hasattr(self, '_base'):
            self._base = {}
        if status_code not in self._base:
            from ombott import HTTPError
            from ombott import error_render
            page = error_render.render(HTTPError(int(status_code), 'text'), 'http://srv/plain', False)
            self._base[status_code] = tag_shape(page)[0]
        return self._base[status_code]

    def _oracle(self, apps, c):
        """None or (key, what)"""
        status, ctype, body = self._taint_run(apps, c)
        kind = c['kind']
        try:
            text = body.decode('utf8')
        except UnicodeDecodeError:
            return 'body-not-utf8', 'error body is not UTF-8'
        code = status.split(' ')[0]
        if code not in ('400', '404', '405', '413', '500'):
            return None            # not an error response: nothing to check
        critical = status == '500 INTERNAL SERVER ERROR'
        if c['json'] and not critical:
            if not ctype.startswith('application/json'):
                return 'json-content-type', f'JSON requested, Content-Type {ctype!r}'
            try:
                v = json.loads(text)
            except ValueError as ex:
                return 'json-invalid', f'JSON requested, body does not parse: {ex}'
            if not (isinstance(v, dict) and set(v) == {'body', 'exception', 'traceback'} and isinstance(v['body'], str)):
                return 'json-fields', f'JSON error body has the wrong shape: {sorted(v) if isinstance(v, dict) else type(v).__name__}'
            return None
        if not ctype.startswith('text/html'):
            return 'html-content-type', f'HTML page with Content-Type {ctype!r}'
        # 1. no marker may appear next to a markup character (the escaped forms put `;`/`&`/`%` there)
        where = 'critical' if critical else 'page'
        for f, m in c['marks'].items():
            for pat in ('<' + m, m + '>', '"' + m, m + '"', "'" + m, m + "'"):
                if pat in text:
                    return (f'{where}:unescaped:{f}',
                            f'request text reaches the {"last-resort" if critical else "error"} page unescaped: {pat}')
            if '&' + m + ';' in text:
                return f'{where}:unescaped-amp:{f}', 'request text reaches the page with a bare &'
        # 2. the markup skeleton must be that of the harmless request
        shape, _ = tag_shape(text)
        if critical:
            if shape != [('start', 'h1', ()), ('end', 'h1')]:
                return 'critical:markup-injected', f'last-resort page has tags {shape[:6]}'
        elif shape != self._baseline(apps, code):
            return 'page:markup-injected', 'tag structure of the error page differs from the harmless request'
        return None

    def search(self, rng, n, seeds):
        findings, evals = [], 0
        from ombott import error_render
        error_render._html_lns[:] = []
        apps = Apps()
        try:
            cases = []
            for s in seeds:
                if s.get('case') == 'serve' and not s.get('debug'):
                    # re-dress the disagreeing request with markers
                    c = self._taint_case(rng, 0)
                    c['kind'] = {'ok': 'nf', 'abort': 'nf', 'badtype': 'nf'}.get(s['kind'], s['kind'])
                    if s.get('failing'):
                        c['kind'] = 'critical'
                    c['json'] = (s.get('accept') or '').startswith('application/json')
                    cases.append(c)
            kinds = ['nf', 'na', 'crash', 'hook', 'badpath', 'json', 'big', 'reqerr', 'critical', 'ipv6', 'gen']
            for i, k in enumerate(kinds):            # every kind x HTML/JSON at least once
                for js in (False, True):
                    c = self._taint_case(rng, i)
                    c['kind'], c['json'] = k, js
                    cases.append(c)
            for i in range(n // 3):
                cases.append(self._taint_case(rng, i + 100))
            for c in cases:
                evals += 1
                try:
                    bad = self._oracle(apps, c)
                except Exception as e:
                    bad = ('exception', f'{type(e).__name__}: {e}')
                if bad:
                    findings.append(Finding('C20:' + bad[0], bad[1], c))
        finally:
            apps.close()
            error_render._html_lns[:] = []
        return evals, findings

    def replay(self, data):
        from ombott import error_render
        error_render._html_lns[:] = []
        apps = Apps()
        try:
            c = data['input']
            status, ctype, body = self._taint_run(apps, c)
            return dict(input=c, status=status, content_type=ctype, body=body.decode('utf8', 'replace'),
                        oracle=self._oracle(apps, c))
        finally:
            apps.close()
