"""The request OBJECT protocol of ombott/request_pkg/request.py (BaseRequest.__new__/__init__/setup, on/off/emit, the
mapping protocol, __getattr__/__setattr__, copy, _raise/_copy_error, ts_props('environ', '_env_get')) as an extra stream
of C09.

* correspondence: self-contained `reqobj run …` lines (a whole operation sequence on real `Request` objects - created
  directly or taken from a real `Ombott()` -, operations of thread t executed by a real thread t, sequences spanning
  several `request.__init__` calls on one object) and `reqobj cerr …` lines (`_raise` with an `errors_map` template, then
  mutations of template / copy) against Model/ReqObj.lean (Drv/ReqObj.lean).
* oracle (no model involved), from what the request object promises:
  - an extension attribute reads back what was assigned; after `request.__init__(environ')` (what `Ombott._handle` does
    per request) nothing of the earlier request is readable: no extension attribute, no environ key, no cached property;
    listeners and config are the only things that stay;
  - `del request[k]` calls the listeners once with (k, '') unless the value already was '', then the key is gone; nothing
    raises for a missing key; under `ombott.request.readonly` no item assignment / deletion changes the environ;
  - `copy()`: operations on the copy leave every read of the original unchanged and vice versa, `environ['ombott.request']`
    of each is itself, the copy starts with the listeners of a new object and an equal config;
  - `_raise` with a mapped template raises a copy that equals the template in class, status code, status line, body,
    headers and cookies, is not the template, and shares no list / cookie jar with it.
"""
import queue
import threading

from harness import core
from harness.core import hs, Finding


def bump(stats, key, n=1):
    stats[key] = stats.get(key, 0) + n


def mods():
    from ombott.request_pkg.request import Request
    from ombott.request_pkg import errors
    import importlib
    return Request, errors, importlib.import_module('ombott.response')


class Desc:
    """a value with a `__get__` method"""
    def __init__(self, tag):
        self.tag = tag

    def __get__(self, obj, cls=None):
        return Got(self.tag, obj)


class Got:
    def __init__(self, tag, req):
        self.tag, self.req = tag, req


class Cell:
    """a mutable value compared by identity"""
    def __init__(self):
        self.items = []


class Workers:
    """operations of thread t run on a real thread t"""
    def __init__(self):
        self.q, self.th = {}, {}

    def run(self, t, fn):
        if t not in self.q:
            self.q[t] = queue.Queue()
            th = threading.Thread(target=self._loop, args=(self.q[t],), daemon=True)
            self.th[t] = th
            th.start()
        box = []
        done = threading.Event()
        self.q[t].put((fn, box, done))
        if not done.wait(10):
            raise core.Hang()
        if box[0][0]:
            raise box[0][1]
        return box[0][1]

    @staticmethod
    def _loop(q):
        while True:
            item = q.get()
            if item is None:
                return
            fn, box, done = item
            try:
                box.append((False, fn()))
            except BaseException as e:  # noqa: handed to the caller
                box.append((True, e))
            done.set()

    def close(self):
        for q in self.q.values():
            q.put(None)
        for th in self.th.values():
            th.join(2)


class Runner:
    """executes the operations of a `reqobj run` line on the real code and renders the answers as Drv/ReqObj.lean does"""

    def __init__(self, ncells, via_app=False):
        self.Request = mods()[0]
        self.reqs, self.removers, self.log = [], [], []
        self.cells = [Cell() for _ in range(ncells)]
        self.descs, self.cbs = {}, {}
        self.via_app = via_app
        self.workers = Workers()

    # ---- values
    def val(self, v):
        k = v[0]
        if k == 's':
            return v[1]
        if k == 'n':
            return None
        if k == 'b':
            return bool(v[1])
        if k == 'i':
            return int(v[1])
        if k == 'r':
            return self.reqs[v[1]]
        if k == 'd':
            return self.descs.setdefault(v[1], Desc(v[1]))
        if k == 'c':
            return self.cells[v[1]]
        raise ValueError(v)

    def show(self, x):
        if x is None:
            return 'n'
        if isinstance(x, bool):
            return 'b1' if x else 'b0'
        if isinstance(x, int):
            return 'i%d' % x
        if isinstance(x, str):
            return 's' + hs(x)
        if isinstance(x, Desc):
            return 'd' + hs(x.tag)
        if isinstance(x, Got):
            return 'G%s.%s' % (hs(x.tag), self.idx(x.req))
        if isinstance(x, Cell):
            return 'c%d' % self.cells.index(x)
        if isinstance(x, self.Request):
            return 'r%s' % self.idx(x)
        return 'x:' + type(x).__name__

    def idx(self, r):
        for i, q in enumerate(self.reqs):
            if q is r:
                return i
        return '?'

    def show_env(self, d):
        if not d:
            return '@'
        return '+'.join(hs(k) + '=' + self.show(v) for k, v in d.items())

    def env(self, e):
        return None if e is None else {k: self.val(v) for k, v in e}

    # ---- callbacks
    def cb(self, c):
        if c in self.cbs:
            return self.cbs[c]
        log = self.log
        if c[0] == 'B':
            fn = self.Request._on_env_changed
        elif c[0] == 'R':
            n = c[1]
            fn = lambda req, *a: log.append((n, req, a))  # noqa
        elif c[0] == 'O':
            e, n = c[1], c[2]

            def fn(req, *a):
                log.append((n, req, a))
                req.off(e, fn)
        else:
            e, n, m = c[1], c[2], c[3]
            other = self.cb(('R', m))

            def fn(req, *a):
                log.append((n, req, a))
                req.on(e, other)
        self.cbs[c] = fn
        return fn

    def show_cb(self, fn):
        for c, f in self.cbs.items():
            if f is fn or (c[0] == 'B' and f == fn):
                return cb_token(c)
        if fn == self.Request._on_env_changed:
            return 'B'
        return '?'

    # ---- operations
    def op(self, o):
        try:
            return self._op(o)
        except core.Hang:
            raise
        except Exception as e:  # noqa: the class is the answer
            return 'e' + type(e).__name__

    def _op(self, o):
        k = o[0]
        R = self.Request
        W = self.workers.run
        if k == 'N':
            _, t, env, cfg = o
            cfgd = None if cfg is None else dict(cfg)

            def mk():
                if self.via_app and env is None:
                    import ombott
                    r0 = ombott.Ombott().request     # built by `Request(config=app config)` + `setup(app config)`
                    r0.setup(cfgd)                   # the line says which configuration the object has
                    return r0
                return R(self.env(env), config=cfgd)
            self.reqs.append(None)          # the object's index is known to its own environ spec (`r<i>` of itself)
            try:
                r = W(t, mk)
            except Exception:
                self.reqs.pop()
                raise
            self.reqs[-1] = r
            return '#%d' % (len(self.reqs) - 1)
        if k in ('I', 'E', 'U', 'on', 'off', 'em', 'g', 'k', 'it', 'l', 'gi', 'si', 'di', 'ga', 'sa', 'cp'):
            i = o[1] if k in ('U', 'on', 'off') else o[2]
            if i >= len(self.reqs):
                return 'eIndexError'
        if k == 'I':
            _, t, i, env = o
            W(t, lambda: self.reqs[i].__init__(self.env(env)))
            return 'ok'
        if k == 'E':
            _, t, i, env = o
            W(t, lambda: setattr(self.reqs[i], 'environ', self.env(env)))
            return 'ok'
        if k == 'U':
            self.reqs[o[1]].setup(None if o[2] is None else dict(o[2]))
            return 'ok'
        if k == 'on':
            rm = self.reqs[o[1]].on(o[2], self.cb(o[3]))
            self.removers.append(rm)
            return '#%d' % (len(self.removers) - 1)
        if k == 'off':
            self.reqs[o[1]].off(o[2], self.cb(o[3]))
            return 'ok'
        if k == 'rm':
            if o[1] >= len(self.removers):
                return 'eIndexError'
            self.removers[o[1]]()
            return 'ok'
        if k == 'em':
            _, t, i, e, args = o
            W(t, lambda: self.reqs[i].emit(e, *[self.val(a) for a in args]))
            return 'ok'
        if k == 'g':
            _, t, i, key, d = o
            r = self.reqs[i]
            return self.show(W(t, (lambda: r.get(key)) if d is None else (lambda: r.get(key, self.val(d)))))
        if k == 'k':
            return core.hsl(W(o[1], lambda: list(self.reqs[o[2]].keys())))
        if k == 'it':
            return core.hsl(W(o[1], lambda: list(iter(self.reqs[o[2]]))))
        if k == 'l':
            return str(W(o[1], lambda: len(self.reqs[o[2]])))
        if k == 'gi':
            return self.show(W(o[1], lambda: self.reqs[o[2]][o[3]]))
        if k == 'si':
            W(o[1], lambda: self.reqs[o[2]].__setitem__(o[3], self.val(o[4])))
            return 'ok'
        if k == 'di':
            W(o[1], lambda: self.reqs[o[2]].__delitem__(o[3]))
            return 'ok'
        if k == 'ga':
            _, t, i, name = o
            x = W(t, lambda: getattr(self.reqs[i], name))
            if name == 'environ':
                return 'n' if x is None else 'E' + self.show_env(x)
            if name == '_env_get':
                return 'n' if x is None else 'M1'
            if name == '__listeners__':
                return 'L' + '+'.join(hs(e) + ':' + '|'.join(self.show_cb(f) for f in cbs) for e, cbs in x.items())
            if name == 'config':
                return 'C' + '+'.join(k2 + '=' + hs(repr(v)) for k2, v in x.__dict__.items())
            if name == '_ts_props':
                return 'T'
            return self.show(x)
        if k == 'sa':
            W(o[1], lambda: setattr(self.reqs[o[2]], o[3], self.val(o[4])))
            return 'ok'
        if k == 'cp':
            c = W(o[1], lambda: self.reqs[o[2]].copy())
            self.reqs.append(c)
            return '#%d' % (len(self.reqs) - 1)
        if k == 'pu':
            if o[1] >= len(self.cells):
                return 'eIndexError'
            self.cells[o[1]].items.append(o[2])
            return 'ok'
        if k == 'ce':
            if o[1] >= len(self.cells):
                return 'eIndexError'
            return core.hsl(self.cells[o[1]].items)
        raise ValueError(o)

    def show_log(self):
        if not self.log:
            return '~'
        return '+'.join('%d.%s.%s' % (n, self.idx(req), '&'.join(self.show(a) for a in args)) for n, req, args in self.log)

    def close(self):
        self.workers.close()


# --------------------------------------------------------------------------------------
# tokens (mirror of Drv/ReqObj.lean)

def v_token(v):
    k = v[0]
    if k == 's':
        return 's' + hs(v[1])
    if k == 'n':
        return 'n'
    if k == 'b':
        return 'b%d' % v[1]
    if k == 'i':
        return 'i%d' % v[1]
    if k == 'r':
        return 'r%d' % v[1]
    if k == 'd':
        return 'd' + hs(v[1])
    return 'c%d' % v[1]


def env_token(e):
    if e is None:
        return '~'
    if not e:
        return '@'
    return '+'.join(hs(k) + '=' + v_token(v) for k, v in e)


def cfg_token(c):
    if c is None:
        return '~'
    if not c:
        return '@'
    return '+'.join(k + '=' + hs(repr(v)) for k, v in c)


def cb_token(c):
    if c[0] == 'B':
        return 'B'
    if c[0] == 'R':
        return 'R%d' % c[1]
    if c[0] == 'O':
        return 'O%s.%d' % (hs(c[1]), c[2])
    return 'A%s.%d.%d' % (hs(c[1]), c[2], c[3])


def op_token(o):
    k = o[0]
    if k == 'N':
        return 'N/%d/%s/%s' % (o[1], env_token(o[2]), cfg_token(o[3]))
    if k in ('I', 'E'):
        return '%s/%d/%d/%s' % (k, o[1], o[2], env_token(o[3]))
    if k == 'U':
        return 'U/%d/%s' % (o[1], cfg_token(o[2]))
    if k in ('on', 'off'):
        return '%s/%d/%s/%s' % (k, o[1], hs(o[2]), cb_token(o[3]))
    if k == 'rm':
        return 'rm/%d' % o[1]
    if k == 'em':
        return 'em/%d/%d/%s/%s' % (o[1], o[2], hs(o[3]), '+'.join(v_token(a) for a in o[4]) if o[4] else '~')
    if k == 'g':
        return 'g/%d/%d/%s/%s' % (o[1], o[2], hs(o[3]), '~' if o[4] is None else v_token(o[4]))
    if k in ('k', 'it', 'l', 'cp'):
        return '%s/%d/%d' % (k, o[1], o[2])
    if k in ('gi', 'di', 'ga'):
        return '%s/%d/%d/%s' % (k, o[1], o[2], hs(o[3]))
    if k in ('si', 'sa'):
        return '%s/%d/%d/%s/%s' % (k, o[1], o[2], hs(o[3]), v_token(o[4]))
    if k == 'pu':
        return 'pu/%d/%s' % (o[1], hs(o[2]))
    return 'ce/%d' % o[1]


def run_line(ncells, ops):
    return 'reqobj run %d %s' % (ncells, ','.join(op_token(o) for o in ops))


def run_real(ncells, ops, via_app=False):
    r = Runner(ncells, via_app)
    try:
        ans = [r.op(o) for o in ops]
        return ';'.join(ans) + '|' + r.show_log()
    finally:
        r.close()


# --------------------------------------------------------------------------------------
# generators

EV = 'env_changed'
KEYS = ['QUERY_STRING', 'wsgi.input', 'CONTENT_LENGTH', 'HTTP_COOKIE', 'HTTP_X_A', 'PATH_INFO', 'REQUEST_METHOD', 'a', 'b', '',
        'ombott.request.readonly', 'ombott.request', 'ombott.request.query', 'ombott.request.params', 'ombott.request.cookies',
        'ombott.request.headers', 'ombott.request.content_length', 'ombott.request.body', 'ombott.request.ext.user',
        'ombott.request.ext.x', 'HTTP_', 'http_x', 'é']
NAMES = ['user', 'x', '_token', 'environ', 'config', '__listeners__', '_env_get', '_ts_props', 'query_x', 'é', '', 'readonly']
EXT_NAMES = ['user', 'x', '_token', 'query_x', 'é', '', 'readonly', 'ext']
EVENTS = [EV, EV, EV, 'custom', '', 'other']
STRS = ['', '1', 'a=1', 'v', 'x y', 'é', '0']
CFG_KEYS = ['app_name_header', 'max_body_size', 'max_memfile_size', 'allow_x_script_name', 'unknown_key']
CFG_VALS = ['', 'X-App', None, 0, 10, 102400, True, False]


def gen_val(rng, nreq, ncells, objs=True):
    k = rng.randrange(12 if objs else 8)
    if k < 4:
        return ('s', rng.choice(STRS))
    if k == 4:
        return ('n',)
    if k == 5:
        return ('b', rng.randrange(2))
    if k < 8:
        return ('i', rng.choice([0, 1, 1, 2, -1]))
    if k == 8 and nreq:
        return ('r', rng.randrange(nreq))
    if k == 9 and ncells:
        return ('c', rng.randrange(ncells))
    if k == 10:
        return ('d', rng.choice(['t', 'u', '']))
    return ('s', rng.choice(STRS))


def gen_env(rng, nreq, ncells, allow_none=True):
    if allow_none and rng.random() < .12:
        return None
    n = rng.choice([0, 1, 2, 3, 4, 6])
    out = []
    for _ in range(n):
        k = rng.choice(KEYS)
        if k == 'ombott.request.readonly' and rng.random() < .7:
            continue
        out.append((k, gen_val(rng, nreq, ncells) if rng.random() < .5 else ('s', rng.choice(STRS))))
    return out


def gen_cfg(rng):
    if rng.random() < .5:
        return None
    return [(k, rng.choice(CFG_VALS)) for k in rng.sample(CFG_KEYS, rng.randrange(0, 3))]


def gen_cb(rng):
    k = rng.randrange(10)
    if k < 4:
        return ('R', rng.randrange(4))
    if k < 6:
        return ('O', rng.choice(EVENTS), rng.randrange(4, 7))
    if k < 8:
        return ('A', rng.choice(EVENTS), rng.randrange(7, 9), rng.randrange(4))
    return ('B',)


def gen_ops(rng, stats, malformed=False, execute=None, ncells=0):
    nthreads = rng.choice([1, 1, 2, 2, 3])
    ops = [('N', rng.randrange(nthreads), gen_env(rng, 0, ncells), gen_cfg(rng))]
    answers = [execute(ops[0])]
    nreq, nrm = 1, 0
    used = {('R', n) for n in range(4)}
    for _ in range(rng.choice([2, 4, 6, 9, 14, 20])):
        t = rng.randrange(nthreads)
        i = rng.randrange(nreq) if not (malformed and rng.random() < .1) else nreq + rng.randrange(2)
        k = rng.randrange(100)
        key = rng.choice(KEYS)
        if k < 6:
            ops.append(('I', t, i, gen_env(rng, nreq, ncells)))
        elif k < 8:
            ops.append(('E', t, i, gen_env(rng, nreq, ncells, False)))
        elif k < 10:
            ops.append(('U', i, gen_cfg(rng)))
        elif k < 18:
            c = gen_cb(rng)
            used.add(c)
            ops.append(('on', i, c[1] if c[0] in 'OA' else rng.choice(EVENTS), c))
            nrm += 1
        elif k < 21:
            ops.append(('off', i, rng.choice(EVENTS), rng.choice(sorted(used))))
        elif k < 24:
            ops.append(('rm', rng.randrange(nrm + 1) if nrm or malformed else 0))
        elif k < 28:
            args = [('s', key), gen_val(rng, nreq, ncells)] if rng.random() < .6 else [gen_val(rng, nreq, ncells) for _ in range(rng.randrange(4))]
            if args and args[0][0] == 'r':
                args[0] = ('n',)     # `key.startswith` on a Request object is an attribute lookup of its own: outside the model
            ops.append(('em', t, i, rng.choice(EVENTS), args))
        elif k < 33:
            ops.append(('g', t, i, key, None if rng.random() < .5 else gen_val(rng, nreq, ncells)))
        elif k < 37:
            ops.append((rng.choice(['k', 'it', 'l']), t, i))
        elif k < 42:
            ops.append(('gi', t, i, key))
        elif k < 62:
            if rng.random() < .12:
                key = 'ombott.request.readonly'
            ops.append(('si', t, i, key, gen_val(rng, nreq, ncells) if rng.random() < .5 else ('s', rng.choice(STRS))))
        elif k < 72:
            ops.append(('di', t, i, key))
        elif k < 80:
            ops.append(('ga', t, i, rng.choice(NAMES)))
        elif k < 88:
            name = rng.choice(EXT_NAMES)
            ops.append(('sa', t, i, name, ('d', rng.choice(['t', 'u', ''])) if rng.random() < .3 else gen_val(rng, nreq, ncells)))
            if rng.random() < .6:      # read it back at once (descriptor values answer `__get__(request)`), from a random thread
                answers.append(execute(ops[-1]))
                ops.append(('ga', t if rng.random() < .8 else rng.randrange(nthreads), i, name))
        elif k < 93:
            ops.append(('cp', t, i))
        elif k < 97 and ncells:
            ops.append(('pu', rng.randrange(ncells), rng.choice(STRS)))
        elif ncells:
            ops.append(('ce', rng.randrange(ncells)))
        else:
            ops.append(('k', t, i))
        answers.append(execute(ops[-1]))
        if ops[-1][0] == 'cp' and answers[-1].startswith('#'):
            nreq += 1          # values only refer to request objects that exist
    # always end by looking at everything
    for j in range(min(nreq, 3)):
        for t in range(nthreads):
            ops.append(('ga', t, j, 'environ'))
        ops.append(('ga', 0, j, '__listeners__'))
    answers += [execute(o) for o in ops[len(answers):]]
    for o in ops:
        bump(stats, 'reqobj:op-' + o[0])
    bump(stats, 'reqobj:threads-%d' % nthreads)
    return ncells, ops, answers


def run_case(rng, stats, malformed=False):
    ncells = rng.choice([0, 1, 2])
    via_app = rng.random() < .5      # takes effect when the first operation passes no environ (`Ombott().request`)
    r = Runner(ncells, via_app)
    try:
        ncells, ops, answers = gen_ops(rng, stats, malformed, r.op, ncells)
        ans = ';'.join(answers) + '|' + r.show_log()
    finally:
        r.close()
    via_app = via_app and ops[0][2] is None
    for a in ans.split('|')[0].split(';'):
        if len(a) > 1 and a[0] == 'e' and a[1].isupper():
            bump(stats, 'reqobj:err-' + a[1:])
    bump(stats, 'reqobj:via-app' if via_app else 'reqobj:direct')
    sample = dict(kind='reqobj', sub='run', ncells=ncells, ops=[list(map(_js, o)) for o in ops], via_app=via_app)
    return run_line(ncells, ops), ans, sample


def _js(x):
    if isinstance(x, tuple):
        return [_js(y) for y in x]
    if isinstance(x, list):
        return [_js(y) for y in x]
    return x


def _tup(x):
    if isinstance(x, list):
        return tuple(_tup(y) for y in x)
    return x


def ops_from_json(ops):
    out = []
    for o in ops:
        o = list(o)
        k = o[0]
        if k == 'N':
            out.append(('N', o[1], None if o[2] is None else [(p[0], _tup(p[1])) for p in o[2]],
                        None if o[3] is None else [tuple(p) for p in o[3]]))
        elif k in ('I', 'E'):
            out.append((k, o[1], o[2], None if o[3] is None else [(p[0], _tup(p[1])) for p in o[3]]))
        elif k == 'U':
            out.append(('U', o[1], None if o[2] is None else [tuple(p) for p in o[2]]))
        elif k in ('on', 'off'):
            out.append((k, o[1], o[2], _tup(o[3])))
        elif k == 'em':
            out.append(('em', o[1], o[2], o[3], [_tup(a) for a in o[4]]))
        elif k == 'g':
            out.append(('g', o[1], o[2], o[3], None if o[4] is None else _tup(o[4])))
        elif k in ('si', 'sa'):
            out.append((k, o[1], o[2], o[3], _tup(o[4])))
        else:
            out.append(tuple(o))
    return out


# ---- _raise / _copy_error

ERR_CLASSES = ['RequestError', 'BodySizeError', 'BodyParsingError', 'ValueError', 'KeyError']
HDR_KEYS = ['X-A', 'Content-Type', 'Set-Thing', 'x', '']
COOKIE_NAMES = ['sid', 'a', 'b', 'user_id', 'Z']
COOKIE_VALS = ['abc', '1', 'x-y', 'A.b', 'v_1']


def cls_by_name(n):
    _, errors, _ = mods()
    return getattr(errors, n, None) or dict(ValueError=ValueError, KeyError=KeyError)[n]


def gen_cerr(rng, stats):
    tpl = dict(cls=rng.choice(['HTTPError', 'HTTPError', 'HTTPResponse']), code=rng.choice([400, 413, 404, 500, 418, 200]),
               line=rng.choice(['400 Bad Request', '413 Too Big', '499 Custom Line', '400 Bad']), body=rng.choice(['', 'Bad request', 'é<b>']),
               hdrs=[], cookies=[])
    for k in rng.sample(HDR_KEYS, rng.randrange(0, 4)):
        tpl['hdrs'].append((k, rng.choice(STRS)) if rng.random() < .4 else (k, [rng.choice(STRS) for _ in range(rng.randrange(0, 3))]))
    for n in rng.sample(COOKIE_NAMES, rng.choice([0, 0, 1, 2, 3])):
        tpl['cookies'].append((n, rng.choice(COOKIE_VALS)))
    map_cls, err_cls = rng.choice(ERR_CLASSES[:3]), rng.choice(ERR_CLASSES)
    exc_cls = rng.choice([None, 'RequestError', 'RequestError', 'BodySizeError'])
    eops = []
    for _ in range(rng.choice([0, 2, 4, 7])):
        i = rng.choice([0, 1, 1, 1, 2])
        k = rng.randrange(5)
        if k == 0:
            eops.append(('ha', i, rng.choice(HDR_KEYS), rng.choice(STRS)))
        elif k == 1:
            eops.append(('hs', i, rng.choice(HDR_KEYS), rng.choice(STRS)))
        elif k == 2:
            eops.append(('ck', i, rng.choice(COOKIE_NAMES), rng.choice(COOKIE_VALS)))
        elif k == 3:
            eops.append(('st', i, rng.choice([400, 500, 204]), rng.choice(['500 X', '204 No'])))
        else:
            eops.append(('bo', i, rng.choice(STRS)))
    for o in eops:
        bump(stats, 'reqobj:eop-' + o[0])
    return tpl, map_cls, err_cls, exc_cls, eops


def view_obj(o, sort_cookies=False):
    hd = '+'.join(hs(k) + '=' + ('l' + '|'.join(hs(x) for x in v) if isinstance(v, list) else 's' + hs(v)) for k, v in o._headers.items()) or '~'
    ms = list(o._cookies.values()) if o._cookies else []
    if sort_cookies:
        ms.sort(key=lambda m: m.key)      # a cookie jar is a mapping: its order is not part of what is promised
    ck = '+'.join(hs(m.key) + '=' + hs(m.coded_value) for m in ms) or '~'
    return '%s/%d/%s/%s/%s/%s' % (type(o).__name__, o._status_code, hs(o._status_line), hs(o.body), hd, ck)


def build_tpl(tpl):
    from http.cookies import SimpleCookie
    _, _, response = mods()
    o = getattr(response, tpl['cls'])(status=tpl['code'], body=tpl['body'])
    o._status_line = tpl['line']
    for k, v in tpl['hdrs']:
        o._headers[k] = list(v) if isinstance(v, (list, tuple)) else v
    if tpl['cookies']:
        o._cookies = SimpleCookie()
        for n, v in tpl['cookies']:
            o._cookies[n] = v
    return o


def run_cerr(tpl, map_cls, err_cls, exc_cls, eops):
    from http.cookies import SimpleCookie
    Request = mods()[0]
    t = build_tpl(tpl)
    req = Request({}, config={'errors_map': {cls_by_name(map_cls): t}})
    err = cls_by_name(err_cls)()
    raised = None
    try:
        req._raise(err, cls_by_name(exc_cls) if exc_cls else None)
    except BaseException as e:  # noqa
        raised = e
    objs = [t]
    if raised is err:
        head = 'orig'
    elif isinstance(raised, type(t)):
        head = 'c1'
        objs.append(raised)
    else:
        return 'e' + type(raised).__name__, t, raised
    for o in eops:
        try:
            x = objs[o[1]]
            if o[0] == 'ha':
                x._headers[o[2]].append(o[3])
            elif o[0] == 'hs':
                x._headers[o[2]] = [o[3]]
            elif o[0] == 'ck':
                if x._cookies is None:
                    x._cookies = SimpleCookie()
                x._cookies[o[2]] = o[3]
            elif o[0] == 'st':
                x._status_code, x._status_line = o[2], o[3]
            else:
                x.body = o[2]
        except Exception:  # noqa: an operation that raises changes nothing
            pass
    return head + ';' + view_obj(t) + ';' + (view_obj(objs[1]) if len(objs) > 1 else '~'), t, raised


def tpl_token(tpl):
    hd = '+'.join(hs(k) + '=' + ('l' + '|'.join(hs(x) for x in v) if isinstance(v, (list, tuple)) else 's' + hs(v)) for k, v in tpl['hdrs']) or '~'
    o = build_tpl(tpl)
    ck = '+'.join(hs(m.key) + '=' + hs(m.coded_value) for m in o._cookies.values()) if o._cookies else '~'
    return '%s/%d/%s/%s/%s/%s' % (tpl['cls'], tpl['code'], hs(tpl['line']), hs(tpl['body']), hd, ck)


def eop_token(o):
    if o[0] == 'st':
        return 'st/%d/%d/%s' % (o[1], o[2], hs(o[3]))
    if o[0] == 'bo':
        return 'bo/%d/%s' % (o[1], hs(o[2]))
    return '%s/%d/%s/%s' % (o[0], o[1], hs(o[2]), hs(o[3]))


def cerr_line(tpl, map_cls, err_cls, exc_cls, eops):
    return 'reqobj cerr %s %s %s %s %s' % (tpl_token(tpl), map_cls, err_cls, exc_cls or '~', ','.join(eop_token(o) for o in eops) or '~')


def cerr_case(rng, stats):
    tpl, map_cls, err_cls, exc_cls, eops = gen_cerr(rng, stats)
    ans = run_cerr(tpl, map_cls, err_cls, exc_cls, eops)[0]
    bump(stats, 'reqobj:cerr-' + ans.split(';')[0])
    sample = dict(kind='reqobj', sub='cerr', tpl=dict(tpl, hdrs=[list(map(_js, h)) for h in tpl['hdrs']], cookies=[list(c) for c in tpl['cookies']]),
                  map_cls=map_cls, err_cls=err_cls, exc_cls=exc_cls, eops=[list(o) for o in eops])
    return cerr_line(tpl, map_cls, err_cls, exc_cls, eops), ans, sample


def corr_stream(rng, n, pid, stats):
    out, hangs = [], 0
    for j in range(n):
        k = rng.randrange(10)
        fn = (lambda: cerr_case(rng, stats)) if k < 2 else (lambda: run_case(rng, stats, malformed=(k == 9)))
        try:
            out.append(core.with_timeout(fn, 20))
        except core.Hang:
            hangs += 1
            bump(stats, 'reqobj:hangs')
            if hangs >= 3:
                break
    return out


# --------------------------------------------------------------------------------------
# oracle (real code only)

ENVS = [dict(QUERY_STRING='a=1&b=2', HTTP_COOKIE='sid=s1', PATH_INFO='/one', REQUEST_METHOD='GET', CONTENT_LENGTH='3', HTTP_X_A='first'),
        dict(QUERY_STRING='c=3', PATH_INFO='/two', REQUEST_METHOD='POST'),
        dict(), dict(QUERY_STRING='', HTTP_COOKIE='other=o2; sid=s2', HTTP_X_B='second')]
PROPS = ['query', 'cookies', 'params', 'content_length', 'script_name', 'headers', 'path', 'method', 'query_string', 'is_json_requested']


def _read_props(r):
    out = {}
    for p in PROPS:
        try:
            v = getattr(r, p)
            out[p] = sorted(dict(v).items()) if hasattr(v, 'keys') else v
        except Exception as e:  # noqa
            out[p] = 'e' + type(e).__name__
    return out


def oracle_reinit(case):
    """(4): nothing of request n is readable after `request.__init__(environ of request n+1)`; listeners and config stay"""
    import io
    Request = mods()[0]
    bad = []
    env1, env2 = dict(case['env1']), dict(case['env2'])
    if case.get('via_app'):
        import ombott
        r = ombott.Ombott().request
    else:
        r = Request()
    seen = []
    cb = lambda req, *a: seen.append(a)  # noqa
    r.on(EV, cb)
    cfg_before = dict(r.config.__dict__)

    def serve(env):
        e = dict(env)
        e['wsgi.input'] = io.BytesIO(b'')
        r.__init__(e)
        return e
    serve(env1)
    for name, v in case['attrs']:
        setattr(r, name, v)
        got = getattr(r, name, Ellipsis)
        if got is not v and got != v:
            bad.append(('reqobj:setattr-getattr', f'request.{name} = {v!r} reads back {got!r}'))
    for k, v in case['items']:
        r[k] = v
    _read_props(r)
    if case.get('copy'):
        r.copy()
    e2 = serve(env2)
    fresh = Request(dict(e2))
    for name, _ in case['attrs']:
        got = getattr(r, name, Ellipsis)
        if got is not Ellipsis:
            bad.append(('reqobj:ext-survives-init', f'request.{name} set during the earlier request reads {got!r} after __init__'))
    for k in list(env1) + [k for k, _ in case['items']]:
        if k not in e2 and (k in r.keys() or r.get(k) is not None):
            bad.append(('reqobj:key-survives-init', f'environ key {k!r} of the earlier request is readable after __init__'))
    if set(r.keys()) != set(e2) | {'ombott.request'} or r['ombott.request'] is not r:
        bad.append(('reqobj:init-environ', f'keys after __init__: {sorted(r.keys())!r}'))
    a, b = _read_props(r), _read_props(fresh)
    if a != b:
        diff = [p for p in PROPS if a[p] != b[p]]
        bad.append(('reqobj:cache-survives-init', f'properties {diff!r} differ from a fresh Request on the same environ: {[a[p] for p in diff]!r}'))
    if r.__listeners__.get(EV, [])[1:] != [cb] or dict(r.config.__dict__) != cfg_before:
        bad.append(('reqobj:object-state', 'listeners / config of the request object changed over __init__'))
    n = len(seen)
    r['QUERY_STRING'] = 'zz=9'
    if len(seen) != n + 1 or dict(r.query) != {'zz': '9'}:
        bad.append(('reqobj:stale-cache-after-assign', f'after request[QUERY_STRING] = "zz=9": query = {dict(r.query)!r}, listener calls {len(seen) - n}'))
    return bad


def oracle_del_readonly(case):
    """(2), (3)"""
    Request = mods()[0]
    bad = []
    r = Request(dict(case['env']))
    seen = []
    r.on(EV, lambda req, k, v: seen.append((k, v)))
    for k in case['dels']:
        seen.clear()
        had = k in r.environ
        old = r.environ.get(k)
        try:
            del r[k]
        except Exception as e:  # noqa
            bad.append(('reqobj:delitem-raises', f'del request[{k!r}] (present={had}) raises {type(e).__name__}'))
            continue
        want = [] if (had and old == '') else [(k, '')]
        if seen != want or k in r.environ:
            bad.append(('reqobj:delitem', f'del request[{k!r}] (present={had}, old={old!r}): listeners saw {seen!r}, key still there: {k in r.environ}'))
    # read-only
    r = Request(dict(case['env']))
    r.environ['ombott.request.readonly'] = case.get('flag', True)
    snap = list(r.environ.items())
    for k, v in case['sets']:
        for fn in (lambda: r.__setitem__(k, v), lambda: r.__delitem__(k)):
            try:
                fn()
                if case.get('flag', True):
                    bad.append(('reqobj:readonly-no-error', f'item assignment / deletion of {k!r} under the read-only flag did not raise'))
            except KeyError:
                pass
            except Exception as e:  # noqa
                bad.append(('reqobj:readonly-raises', f'{type(e).__name__} instead of KeyError'))
    if case.get('flag', True) and list(r.environ.items()) != snap:
        bad.append(('reqobj:readonly-violated', f'the environ changed under the read-only flag: {list(r.environ)!r}'))
    return bad


def oracle_copy(case):
    """(6)"""
    Request = mods()[0]
    bad = []
    shared = Cell()
    env = dict(case['env'])
    env['shared'] = shared
    a = Request(env, config=dict(case.get('cfg') or {}))
    a.on(EV, lambda *x: None)
    for name, v in case['attrs']:
        setattr(a, name, v)
    _read_props(a) if case.get('warm') else None
    b = a.copy()
    if b.environ is a.environ:
        bad.append(('reqobj:copy-aliases-environ', 'copy().environ is the same dict'))
    if b.environ.get('ombott.request') is not b or a.environ.get('ombott.request') is not a:
        bad.append(('reqobj:copy-self-pointer', "environ['ombott.request'] of the copy / the original is not the object itself"))
    if b.__listeners__ != Request().__listeners__ or b.__listeners__ is a.__listeners__:
        bad.append(('reqobj:copy-listeners', f'the copy starts with listeners {b.__listeners__!r}'))
    if dict(b.config.__dict__) != dict(a.config.__dict__):
        bad.append(('reqobj:copy-config', 'the copy has another configuration'))
    if [k for k in a.environ if k != 'ombott.request' and (k not in b.environ or b.environ[k] is not a.environ[k])]:
        bad.append(('reqobj:copy-incomplete', 'an entry of the original is missing from / differs in the copy'))
    for first, second in ((b, a), (a, b)):
        snap = list(second.environ.items())
        lsn = {e: list(c) for e, c in second.__listeners__.items()}
        for op in case['ops']:
            try:
                if op[0] == 'si':
                    first[op[1]] = op[2]
                elif op[0] == 'di':
                    del first[op[1]]
                elif op[0] == 'sa':
                    setattr(first, op[1], op[2])
                elif op[0] == 'on':
                    first.on(op[1], lambda *a: None)
                elif op[0] == 'init':
                    first.__init__({'k': 'v'})
            except KeyError:
                pass
        now = list(second.environ.items())
        if [k for k, _ in now] != [k for k, _ in snap] or any(x[1] is not y[1] for x, y in zip(now, snap)):
            bad.append(('reqobj:copy-not-independent', f'operations {case["ops"]!r} on one object changed the environ of the other'))
        if {e: list(c) for e, c in second.__listeners__.items()} != lsn:
            bad.append(('reqobj:copy-not-independent-listeners', 'operations on one object changed the listeners of the other'))
    return bad


def oracle_cerr(case):
    """(7)"""
    tpl, map_cls, err_cls, exc_cls, eops = case['tpl'], case['map_cls'], case['err_cls'], case['exc_cls'], case['eops']
    bad = []
    before = view_obj(build_tpl(tpl), True)
    ans, t, raised = run_cerr(tpl, map_cls, err_cls, exc_cls, [])
    mapped = err_cls == map_cls or exc_cls == map_cls
    if mapped:
        if raised is t:
            bad.append(('reqobj:raise-shares-template', '_raise raised the errors_map entry itself'))
        elif type(raised) is not type(t) or view_obj(raised, True) != before:
            bad.append(('reqobj:copy-error-differs', f'raised {view_obj(raised) if hasattr(raised, "_headers") else type(raised).__name__} for template {before}'))
        else:
            if raised._headers is t._headers or any(isinstance(v, list) and v is t._headers.get(k) for k, v in raised._headers.items()) \
                    or (raised._cookies is not None and raised._cookies is t._cookies):
                bad.append(('reqobj:copy-error-aliases-template', 'the raised copy shares a header list / the cookie jar with the template'))
        if view_obj(t, True) != before:
            bad.append(('reqobj:raise-changes-template', f'template after _raise: {view_obj(t)}'))
        # mutate the copy only
        ans2, t2, _ = run_cerr(tpl, map_cls, err_cls, exc_cls, [(o[0], 1) + tuple(o[2:]) for o in eops])
        if view_obj(t2, True) != before:
            bad.append(('reqobj:copy-error-aliases-template', f'mutating the raised copy changed the template: {view_obj(t2)}'))
    elif not ans.startswith('orig'):
        bad.append(('reqobj:raise-unmapped', f'an unmapped {err_cls} was replaced: {ans}'))
    return bad


def gen_oracle_case(rng):
    k = rng.randrange(4)
    vals = ['v', '', 1, None, True, ('t',), 'é']
    if k == 0:
        return 'reinit', dict(env1=rng.choice(ENVS), env2=rng.choice(ENVS), via_app=rng.random() < .5, copy=rng.random() < .3,
                              attrs=[(n, rng.choice(vals)) for n in rng.sample(['user', 'x', '_token', 'q2', 'é'], rng.randrange(1, 4))],
                              items=[(kk, rng.choice(STRS)) for kk in rng.sample(['app.key', 'HTTP_X_C', 'QUERY_STRING', 'HTTP_COOKIE', 'z'], rng.randrange(0, 4))])
    if k == 1:
        env = dict(rng.choice(ENVS), E='')
        ks = list(env) + ['missing', 'm2']
        return 'delro', dict(env=env, dels=rng.sample(ks, min(len(ks), rng.randrange(1, 5))), flag=rng.choice([True, 1, 'yes', True]),
                             sets=[(rng.choice(ks), rng.choice(STRS)) for _ in range(rng.randrange(1, 4))])
    if k == 2:
        ops = []
        for _ in range(rng.randrange(1, 6)):
            j = rng.randrange(9)
            key = rng.choice(['QUERY_STRING', 'HTTP_COOKIE', 'new', 'E', 'shared', 'ombott.request', 'PATH_INFO'])
            ops.append(('si', key, rng.choice(STRS)) if j < 3 else ('di', key) if j < 5 else ('sa', rng.choice(['user', 'y']), rng.choice(vals))
                       if j < 7 else ('on', rng.choice([EV, 'custom'])) if j < 8 else ('init',))
        return 'copy', dict(env=rng.choice(ENVS), warm=rng.random() < .5, cfg=rng.choice([None, {'max_body_size': 10}, {'allow_x_script_name': True}]),
                            attrs=[(n, rng.choice(vals)) for n in rng.sample(['user', 'x'], rng.randrange(0, 3))], ops=ops)
    st = {}
    tpl, map_cls, err_cls, exc_cls, eops = gen_cerr(rng, st)
    if rng.random() < .7:
        err_cls = map_cls if rng.random() < .5 else err_cls
        exc_cls = map_cls if err_cls != map_cls else exc_cls
    return 'cerr', dict(tpl=tpl, map_cls=map_cls, err_cls=err_cls, exc_cls=exc_cls, eops=eops)


ORACLES = dict(reinit=oracle_reinit, delro=oracle_del_readonly, copy=oracle_copy, cerr=oracle_cerr)


def search_stream(rng, n, pid, stats, seeds=()):
    cases = []
    for s in seeds:
        if isinstance(s, dict) and s.get('sub') == 'cerr':
            cases.append(('cerr', dict(tpl=_tpl_from_json(s['tpl']), map_cls=s['map_cls'], err_cls=s['err_cls'], exc_cls=s['exc_cls'],
                                       eops=[tuple(o) for o in s['eops']])))
    for e1 in ENVS[:2]:
        for e2 in ENVS[1:3]:
            for via in (False, True):
                cases.append(('reinit', dict(env1=e1, env2=e2, via_app=via, copy=via, attrs=[('user', 'alice'), ('_token', 't0')],
                                             items=[('app.key', 'k1'), ('HTTP_X_C', 'c')])))
    cases.append(('delro', dict(env=dict(ENVS[0], E=''), dels=['QUERY_STRING', 'E', 'missing'], sets=[('QUERY_STRING', 'x=1'), ('new', '1')])))
    cases.append(('copy', dict(env=ENVS[0], warm=True, cfg=None, attrs=[('user', 'u')],
                               ops=[('si', 'QUERY_STRING', 'q=2'), ('di', 'HTTP_COOKIE'), ('sa', 'user', 'w'), ('on', EV), ('init',)])))
    cases.append(('cerr', dict(tpl=dict(cls='HTTPError', code=400, line='400 Bad Request', body='Bad', hdrs=[('X-A', ['1', '2']), ('Y', 's')],
                                        cookies=[('sid', 'abc')]), map_cls='RequestError', err_cls='BodySizeError', exc_cls='RequestError',
                               eops=[('ha', 1, 'X-A', '3'), ('ck', 1, 'sid', 'evil'), ('st', 1, 500, '500 X'), ('bo', 1, 'x')])))
    for _ in range(n):
        cases.append(gen_oracle_case(rng))
    findings, evals = [], 0
    for kind, c in cases:
        evals += 1
        try:
            bad = core.with_timeout(lambda: ORACLES[kind](c), 10)
        except core.Hang:
            bad = [(f'reqobj:{kind}:hang', 'did not terminate')]
        except Exception as e:  # noqa
            bad = [(f'reqobj:{kind}:raises:{type(e).__name__}', f'{type(e).__name__}: {e}')]
        bump(stats, 'reqobj:oracle-' + kind)
        for key, what in bad:
            findings.append(Finding(f'{pid}:{key}', what, dict(probe='reqobj', kind=kind, value=_js_deep(c))))
    findings.sort(key=lambda f: len(repr(f.replay['value'])))
    return evals, findings


def _js_deep(x):
    if isinstance(x, dict):
        return {k: _js_deep(v) for k, v in x.items()}
    if isinstance(x, (list, tuple)):
        return [_js_deep(v) for v in x]
    return x


def _tpl_from_json(t):
    return dict(t, hdrs=[(h[0], h[1]) for h in t['hdrs']], cookies=[tuple(c) for c in t['cookies']])


def _case_from_json(kind, c):
    c = dict(c)
    for f in ('attrs', 'items', 'sets', 'ops', 'eops'):
        if f in c:
            c[f] = [tuple(tuple(y) if isinstance(y, list) else y for y in x) for x in c[f]]
    if kind == 'cerr':
        c['tpl'] = _tpl_from_json(c['tpl'])
    return c


def replay_case(i, pid):
    if i.get('probe') == 'reqobj':
        kind = i['kind']
        return dict(input=i, oracle=[list(b) for b in ORACLES[kind](_case_from_json(kind, i['value']))])
    out = dict(input=i)
    if i.get('sub') == 'run':
        ops = ops_from_json(i['ops'])
        out['line'] = run_line(i['ncells'], ops)
        out['impl_now'] = run_real(i['ncells'], ops, i.get('via_app', False))
    elif i.get('sub') == 'cerr':
        tpl = _tpl_from_json(i['tpl'])
        eops = [tuple(o) for o in i['eops']]
        out['line'] = cerr_line(tpl, i['map_cls'], i['err_cls'], i['exc_cls'], eops)
        out['impl_now'] = run_cerr(tpl, i['map_cls'], i['err_cls'], i['exc_cls'], eops)[0]
    return out


# --------------------------------------------------------------------------------------
# hooking the stream into C09

RO_RULE = (' || request object protocol (reqobjlib): operation sequences (new / __init__ / environ assignment / setup / on / off / '
           'removers / emit with recording, self-removing and listener-adding callbacks / get / keys / iter / len / item get, set, del '
           '/ attribute get, set incl. slots, extension attributes, descriptor values / copy / shared mutable values) on real Request '
           'objects (direct and from Ombott()), operations of thread t on a real thread t, sequences spanning several __init__ '
           'calls; _raise + _copy_error with templates carrying list headers and cookies followed by mutations of template and '
           'copy; vs Model/ReqObj.lean; oracle: nothing of request n readable after __init__ of request n+1 except listeners and '
           'config, setattr/getattr round trip, __delitem__ and read-only contract, copy() independence, raised copy equals and '
           'does not alias the errors_map template')
RO_ASSUMPTIONS = ['request object protocol: environ values are str / None / bool / int / Request objects / objects with __get__ / '
                  'identity-compared mutable objects; listeners are the four callback shapes of Model/ReqObj.lean (built-in, '
                  'recording, self-removing, listener-adding); assignment to slot names other than `environ` is setup() / on() / off(); '
                  'one atomic step = one operation (interleavings inside an operation are C08)']
RO_NOTE = ('request object protocol: listeners registered with on() and the config stay on the reused object across __init__ and are '
           'seen by every thread (application configuration, like add_hook); __setattr__ of an extension attribute writes the environ '
           'even under the read-only flag; del request[k] of a missing key does not raise')


def install(cls, quick=(220, 80), thorough=(5000, 4000)):
    pid = cls.pid
    cls.tables = list(cls.tables) + ['reqobj', 'envcache', 'tsprops']
    cls.rule = cls.rule + RO_RULE
    cls.assumptions = list(cls.assumptions) + RO_ASSUMPTIONS
    cls.level_note_extra = (cls.level_note_extra + '; ' if cls.level_note_extra else '') + RO_NOTE
    o_budget, o_corr, o_search, o_replay, o_nontrivial = cls.budget, cls.corr, cls.search, cls.replay, cls.nontrivial

    def budget(self, tier, escalated):
        self._ro = (tier, escalated)
        return o_budget(self, tier, escalated)

    def sizes(self):
        tier, esc = getattr(self, '_ro', ('quick', False))
        a, b = quick if tier == 'quick' else thorough
        return (a * 3, b * 3) if (esc and tier == 'quick') else (a, b)

    def corr(self, rng, n):
        out = o_corr(self, rng, n)
        if not hasattr(self, 'stats') or self.stats is None:
            self.stats = {}
        out += corr_stream(rng, sizes(self)[0], pid, self.stats)
        return out

    def search(self, rng, n, seeds):
        mine = [s for s in seeds if isinstance(s, dict) and s.get('kind') == 'reqobj']
        evals, findings = o_search(self, rng, n, [s for s in seeds if not (isinstance(s, dict) and s.get('kind') == 'reqobj')])
        if not hasattr(self, 'stats') or self.stats is None:
            self.stats = {}
        ev, fs = search_stream(rng, sizes(self)[1], pid, self.stats, mine)
        return evals + ev, list(findings) + fs

    def replay(self, data):
        i = data.get('input')
        if isinstance(i, dict) and (i.get('probe') == 'reqobj' or i.get('kind') == 'reqobj'):
            return replay_case(i, pid)
        return o_replay(self, data)

    def nontrivial(self, sample):
        if isinstance(sample, dict) and sample.get('kind') == 'reqobj':
            return len(sample.get('ops', sample.get('eops', []))) >= 2
        return o_nontrivial(self, sample)

    cls.budget, cls.corr, cls.search, cls.replay, cls.nontrivial = budget, corr, search, replay, nontrivial
    return cls
